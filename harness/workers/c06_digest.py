"""Worker for C06: extract every given file in THIS interpreter (fresh process; PYTHONHASHSEED, TZ and the faked
wall clock S2T_FAKE_CLOCK set by the parent) and print {relpath: sha256 of canonical to_json() of all results |
"ERR:<class>"}."""
import hashlib
import io
import json
import logging
import os
import sys

logging.disable(logging.CRITICAL)
repo = os.environ.get("S2T_REPO", "/repo")
sys.path.insert(0, repo)
sys.path.insert(0, os.path.dirname(os.path.abspath(__file__)))
import c06_clock  # noqa: E402

c06_clock.install_from_env(os.environ)      # before the library and its third-party parsers are imported
import warnings  # noqa: E402

warnings.filterwarnings("ignore")
from sharepoint2text.parsing import router  # noqa: E402
from sharepoint2text.parsing.exceptions import ExtractionError  # noqa: E402


def digest_of(path, data):
    try:
        fn = router.get_extractor(path)
        out = []
        for r in fn(io.BytesIO(data), path):
            out.append(r.to_json())
            units = [u.to_json() if hasattr(u, "to_json") else repr(u) for u in r.iterate_units()]
            out.append(units)
        blob = json.dumps(out, sort_keys=True, default=repr)
        return hashlib.sha256(blob.encode()).hexdigest()
    except ExtractionError as e:
        return "ERR:" + type(e).__name__
    except Exception as e:  # noqa
        return "OTHER:" + type(e).__name__


def main():
    files = json.load(sys.stdin)
    res = {}
    for rel, p in files:
        with open(p, "rb") as fh:
            data = fh.read()
        res[rel] = digest_of(p, data)
    json.dump(res, sys.stdout)


if __name__ == "__main__":
    main()
