"""C06: fingerprints of the process-global state an extraction could leave behind.

cells() -> {cell name: fingerprint}.  A cell is
  * every attribute of every loaded sharepoint2text module that is not a module / class / function
    (containers are walked; one-shot iterators contribute what they still have to give, generators where they stand,
    streams their position, random generators their state, instances of package classes their attributes; any other
    object its type only — identity is never used),
  * `<module>:<Class>.<attr>` for the non-callable, non-descriptor attributes of package classes,
  * `<module>:<function>` for memoised functions (cache_info().currsize) and `<function>.<defaults>` for
    default values / function attributes,
  * a few interpreter-wide registries extractions have no business changing (`xml.etree` namespace map,
    os.environ, locale, recursion limit, decimal precision, default socket timeout, cwd, sys.path).
changed(before, after, volatile) lists the cells that differ and are not named in `volatile`.
"""
import hashlib
import os
import re
import sys
import types

_PRIM = (type(None), bool, int, float, complex, str)


def _fp(v, depth=0):
    if isinstance(v, _PRIM):
        return repr(v)
    if isinstance(v, (bytes, bytearray)):
        return "b:" + (repr(bytes(v)) if len(v) <= 64 else "%d:%s" % (len(v), hashlib.sha1(bytes(v)).hexdigest()[:12]))
    if depth > 5:
        return "<deep %s>" % type(v).__name__
    if isinstance(v, dict):
        items = sorted((_fp(k, depth + 1), _fp(x, depth + 1)) for k, x in list(v.items()))
        return type(v).__name__ + "{" + ",".join(a + ":" + b for a, b in items) + "}" + \
            ("" if type(v).__name__ != "OrderedDict" else "|order:" + ",".join(_fp(k, depth + 1) for k in v))
    if isinstance(v, (list, tuple)) or type(v).__name__ == "deque":
        return type(v).__name__ + "[" + ",".join(_fp(x, depth + 1) for x in list(v)) + "]"
    if isinstance(v, (set, frozenset)):
        return type(v).__name__ + "{" + ",".join(sorted(_fp(x, depth + 1) for x in list(v))) + "}"
    if isinstance(v, re.Pattern):
        return "re:" + repr(v.pattern) + ":%d" % v.flags
    if isinstance(v, (types.FunctionType, types.BuiltinFunctionType, types.MethodType, type)):
        return "<%s %s>" % (type(v).__name__, getattr(v, "__qualname__", "?"))
    if hasattr(v, "__dataclass_fields__"):
        return type(v).__name__ + "(" + ",".join(f + "=" + _fp(getattr(v, f, None), depth + 1) for f in v.__dataclass_fields__) + ")"
    return _fp_stateful(v, depth)


def _fp_stateful(v, depth):
    """objects that are not containers but hold state an extraction can use up or move: one-shot iterators (what they
    still have to give — read from a deep COPY, the object itself is never advanced), generators (where they stand),
    streams (position), random generators (state), instances of package classes (their attributes)"""
    t = type(v)
    name = t.__name__
    if hasattr(t, "__next__"):
        fr = getattr(v, "gi_frame", False)
        if fr is not False:                                        # generator object
            return "<gen %s %s>" % (name, "exhausted" if fr is None else "at:%d" % fr.f_lasti)
        try:
            import copy
            import itertools
            import warnings
            with warnings.catch_warnings():
                warnings.simplefilter("ignore")
                c = copy.deepcopy(v)
            if c is not v:
                rest = list(itertools.islice(c, 2048))
                return "<iter %s remaining=%d:%s>" % (name, len(rest), _digest(_fp(rest, depth + 1)))
        except Exception:
            pass
        try:
            import operator
            return "<iter %s hint=%d>" % (name, operator.length_hint(v, -1))
        except Exception:
            return "<iter %s>" % name
    if hasattr(v, "tell") and hasattr(v, "seek"):
        try:
            return "<stream %s pos=%r closed=%r>" % (name, v.tell(), getattr(v, "closed", None))
        except Exception:
            return "<stream %s closed>" % name
    if hasattr(v, "getstate") and hasattr(v, "seed"):
        try:
            return "<rng %s %s>" % (name, _digest(repr(v.getstate())))
        except Exception:
            pass
    if str(getattr(t, "__module__", "")).startswith("sharepoint2text") or name == "SimpleNamespace":
        try:
            d = dict(vars(v))
        except TypeError:
            d = {s: getattr(v, s, None) for s in getattr(t, "__slots__", ())}
        return "<obj %s %s>" % (name, _fp(d, depth + 1))
    return "<obj %s>" % name


def _digest(s):
    return s if len(s) <= 80 else "%d:%s" % (len(s), hashlib.sha1(s.encode("utf-8", "surrogatepass")).hexdigest()[:16])


def cells():
    out = {}
    for modname, mod in sorted(list(sys.modules.items())):
        if mod is None or not modname.startswith("sharepoint2text") or ".tests" in modname:
            continue
        for name, val in list(vars(mod).items()):
            if name.startswith("__"):
                continue
            key = modname + ":" + name
            if isinstance(val, types.ModuleType):
                continue
            if isinstance(val, type):
                if getattr(val, "__module__", None) != modname:
                    continue
                for an, av in list(vars(val).items()):
                    if an.startswith("__") or an.startswith("_abc_") or callable(av) or isinstance(av, (property, staticmethod, classmethod, types.MemberDescriptorType, types.GetSetDescriptorType)):
                        continue
                    out[key + "." + an] = _digest(_fp(av))
                continue
            if callable(val) and hasattr(val, "cache_info"):
                try:
                    out[key] = "memo:%d" % val.cache_info().currsize
                except Exception:
                    pass
                continue
            if isinstance(val, (types.FunctionType,)):
                if getattr(val, "__module__", None) != modname:
                    continue
                extra = (val.__defaults__, val.__kwdefaults__, dict(val.__dict__))
                if extra != (None, None, {}):
                    out[key + ".<defaults>"] = _digest(_fp(extra))
                continue
            if callable(val) and not isinstance(val, (dict, list, set)):
                continue
            out[key] = _digest(_fp(val))
    import decimal
    import locale
    import socket
    import xml.etree.ElementTree as ET
    out["<interp>:ET._namespace_map"] = _digest(_fp(dict(ET._namespace_map)))
    out["<interp>:os.environ"] = _digest(_fp(dict(os.environ)))
    out["<interp>:recursionlimit"] = repr(sys.getrecursionlimit())
    out["<interp>:locale"] = repr(locale.setlocale(locale.LC_ALL))
    out["<interp>:decimal.prec"] = repr(decimal.getcontext().prec)
    out["<interp>:socket.timeout"] = repr(socket.getdefaulttimeout())
    out["<interp>:cwd"] = os.getcwd()
    out["<interp>:sys.path"] = _digest(_fp(list(sys.path)))
    return out


def changed(before, after, volatile=()):
    vol = set(volatile)
    out = []
    for k in sorted(set(before) | set(after)):
        if before.get(k) != after.get(k):
            bare = k.split(":", 1)[1].split(".")[0] if ":" in k else k
            tail = k.split(":", 1)[1] if ":" in k else k
            if bare in vol or tail in vol:
                continue
            # a module imported lazily during the call brings its cells into existence: not a change
            if k not in before and not any(b.startswith(k.split(":", 1)[0] + ":") for b in before):
                continue
            out.append(k)
    return out
