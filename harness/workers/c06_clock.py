"""C06: a faked wall clock.  "Extraction is a pure function of (bytes, path)" — so it must yield the same
whatever the clock says.  `install(epoch)` replaces every way Python code reads the wall clock:

* `datetime.datetime` / `datetime.date` by subclasses whose now()/utcnow()/today() answer from CLOCK
  (isinstance / issubclass keep working for real instances through the metaclass),
* every module global that IS the real class (`from datetime import datetime` done before the install),
* `time.time`, `time.time_ns`, and the `None`-defaults of `time.localtime/gmtime/ctime/asctime/strftime`.

`set_clock(epoch)` moves the clock, `uninstall()` restores everything.  The clock stands still between reads
(`perf_counter` / `monotonic` are left alone: they measure durations, not dates).
"""
import datetime as _dt
import sys
import time as _time

CLOCK = [None]          # seconds since the epoch, or None = real clock
_REAL = {"datetime": _dt.datetime, "date": _dt.date, "time": _time.time, "time_ns": _time.time_ns,
         "localtime": _time.localtime, "gmtime": _time.gmtime, "ctime": _time.ctime, "asctime": _time.asctime,
         "strftime": _time.strftime}
_REBOUND = []           # (module, name, real value)
_INSTALLED = [False]


def _now():
    return CLOCK[0] if CLOCK[0] is not None else _REAL["time"]()


class _DtMeta(type):
    def __instancecheck__(cls, obj):
        return isinstance(obj, _REAL["datetime"])

    def __subclasscheck__(cls, sub):
        return issubclass(sub, _REAL["datetime"])


class _DateMeta(type):
    def __instancecheck__(cls, obj):
        return isinstance(obj, _REAL["date"])

    def __subclasscheck__(cls, sub):
        return issubclass(sub, _REAL["date"])


class FakeDatetime(_dt.datetime, metaclass=_DtMeta):
    @classmethod
    def now(cls, tz=None):
        return cls.fromtimestamp(_now(), tz)

    @classmethod
    def utcnow(cls):
        return cls.fromtimestamp(_now(), _dt.timezone.utc).replace(tzinfo=None)

    @classmethod
    def today(cls):
        return cls.fromtimestamp(_now())


class FakeDate(_dt.date, metaclass=_DateMeta):
    @classmethod
    def today(cls):
        return cls.fromtimestamp(_now())


FakeDatetime.__name__ = FakeDatetime.__qualname__ = "datetime"
FakeDate.__name__ = FakeDate.__qualname__ = "date"
FakeDatetime.__module__ = FakeDate.__module__ = "datetime"


def _wrap_default(real):
    def f(*a):
        if not a or a[0] is None:
            return real(_now())
        return real(*a)
    return f


def _fake_strftime(fmt, t=None):
    return _REAL["strftime"](fmt, _REAL["localtime"](_now()) if t is None else t)


def _fake_asctime(t=None):
    return _REAL["asctime"](_REAL["localtime"](_now()) if t is None else t)


def install(epoch=None):
    """idempotent; `epoch` None keeps the real time flowing through the fake classes (shim-only control)"""
    CLOCK[0] = epoch
    if _INSTALLED[0]:
        return
    _INSTALLED[0] = True
    for mod in list(sys.modules.values()):
        d = getattr(mod, "__dict__", None)
        if not isinstance(d, dict) or mod is _dt or mod.__name__ == __name__:
            continue
        for k, v in list(d.items()):
            if v is _REAL["datetime"]:
                _REBOUND.append((mod, k, v))
                d[k] = FakeDatetime
            elif v is _REAL["date"]:
                _REBOUND.append((mod, k, v))
                d[k] = FakeDate
            elif v is _REAL["time"] and mod is not _time:
                _REBOUND.append((mod, k, v))
                d[k] = _now
    _dt.datetime, _dt.date = FakeDatetime, FakeDate
    _time.time = _now
    _time.time_ns = lambda: int(_now() * 1_000_000_000)
    _time.localtime = _wrap_default(_REAL["localtime"])
    _time.gmtime = _wrap_default(_REAL["gmtime"])
    _time.ctime = _wrap_default(_REAL["ctime"])
    _time.asctime = _fake_asctime
    _time.strftime = _fake_strftime


def set_clock(epoch):
    CLOCK[0] = epoch


def uninstall():
    if not _INSTALLED[0]:
        return
    _INSTALLED[0] = False
    CLOCK[0] = None
    _dt.datetime, _dt.date = _REAL["datetime"], _REAL["date"]
    for k in ("time", "time_ns", "localtime", "gmtime", "ctime", "asctime", "strftime"):
        setattr(_time, k, _REAL[k])
    while _REBOUND:
        mod, k, v = _REBOUND.pop()
        mod.__dict__[k] = v


def install_from_env(env):
    """worker entry: S2T_FAKE_CLOCK=<epoch seconds> (absent/empty = real clock, no shim)"""
    v = env.get("S2T_FAKE_CLOCK", "")
    if v:
        install(float(v))
