#!/venv/bin/python
"""C05 worker: process histories in FRESH process states.

This interpreter (the *zygote*) imports the library and makes not a single library call; every history is then
executed in a child forked from it, i.e. in the state a process has right after `import sharepoint2text`:
empty `_TYPE_REGISTRY`, nothing serialised, nothing deserialised.  (The harness process itself is useless for
this: it has called `_get_type_registry()` before anything else.)

stdin : {"histories": [H, ...], "par": k}
  H = {"id": n, "objs": {name: {"value": tagged value} | {"fixture": rel, "index": i[, "unit": u]}},
       "ops": [{"op": "to_json", "obj": name, "bin": null|true|false}      null = x.to_json()
                                                                           "temp": true = the object is built for this call and dropped after it
               {"op": "from_json", "stored": name, "src": name}            the JSON ANOTHER process wrote for object `name`
                                                                           (a child forked before the history starts)
               {"op": "from_json", "of": label, "src": name}               the JSON the (last) to_json step carrying "label": label
                                                                           produced, through json text
               {"op": "from_json_bad", "json_text": T}                     a malformed document (may raise)
               {"op": "units", "obj": name}                                to_json of every unit
               {"op": "cli", "flags": [...], "fixture": rel | "input": generated-input spec}
               a from_json op may carry "as": name; the object it returned is then used by
               {"op": "use", "y": name, "how": "read"|"close"|"api-read", "leaf": i|null}   read() / close() the i-th (all) io.BytesIO
                                                                           leaves of the restored object, in walk order; api-read =
                                                                           get_bytes().read() of every image / .data.read() of every attachment
               {"op": "observe", "y": name}]}                              to_json() of the restored object, now
     objs may also be {"input": generated-input spec, "index": i[, "unit": u]} (props.c05.build_input)
stdout: [{"id": n, "steps": [...raw outcome per op, tagged values...], "findings": [{"key","what"}], "pristine": bool}]

The steps are executed first and only recorded; the property statement is judged afterwards (the judge makes
library calls of its own, which must not become part of the history).
"""
import copy
import io
import json
import os
import resource
import select
import signal
import sys
import time
import traceback

HERE = os.path.dirname(os.path.abspath(__file__))
HARNESS = os.path.dirname(HERE)
REPO = os.environ.get("S2T_REPO", "/repo")
CHILD_LIMIT_S = 60


def fresh_registry():
    """name -> class, read off data_types without touching the library's own registry"""
    import dataclasses
    from sharepoint2text.parsing.extractors import data_types as D
    return {n: getattr(D, n) for n in dir(D) if isinstance(getattr(D, n), type) and dataclasses.is_dataclass(getattr(D, n))}


def run_history(P, H):
    import sharepoint2text
    from sharepoint2text.parsing.extractors import serialization as S
    from sharepoint2text.parsing.extractors.data_types import ExtractionInterface
    import corpus
    objs = {}

    def obj(name):
        if name not in objs:
            objs[name] = build(H["objs"][name])
        return objs[name]

    def build(spec):
        if "value" in spec:
            return P.dec(spec["value"])
        rs = P._run_desc({k: v for k, v in spec.items() if k in ("fixture", "xlsx_rows", "input")})
        r = rs[spec.get("index", 0)]
        if spec.get("unit") is not None:
            r = list(r.iterate_units())[spec["unit"]]
        return r

    def written_elsewhere(spec):
        """the JSON text ANOTHER process writes for this object: a child forked from this (still pristine) process
        builds the object, serialises it and hands the text back"""
        r, w = os.pipe()
        pid = os.fork()
        if pid == 0:
            try:
                os.close(r)
                x = build(spec)
                data = json.dumps(x.to_json() if hasattr(x, "to_json") else S.serialize_extraction(x)).encode()
                with os.fdopen(w, "wb") as fh:
                    fh.write(data)
            except BaseException:  # noqa
                pass
            finally:
                os._exit(0)
        os.close(w)
        chunks = []
        with os.fdopen(r, "rb") as fh:
            while True:
                c = fh.read(1 << 16)
                if not c:
                    break
                chunks.append(c)
        os.waitpid(pid, 0)
        return b"".join(chunks).decode()

    # JSON stored by other processes is written BEFORE this process makes its first library call
    stored = {}
    for op in H["ops"]:
        if "stored" in op and op["stored"] not in stored:
            stored[op["stored"]] = written_elsewhere(H["objs"][op["stored"]])

    raw = []
    named = {}     # "as" name -> index of the from_json step that returned the object

    def cli_path(op):
        return P.input_path(op["input"]) if "input" in op else os.path.join(corpus.RES, op["fixture"])

    for op in H["ops"]:
        k = op["op"]
        rec = {"op": k, "label": op.get("label")}
        try:
            if k in ("use", "observe"):
                src = raw[named[op["y"]]] if op.get("y") in named else {}
                if "y" not in src:
                    rec["err"] = "no-object"
                elif k == "observe":
                    rec["j"] = src["y"].to_json() if hasattr(src["y"], "to_json") else S.serialize_extraction(src["y"])
                elif op.get("how") == "api-read":
                    rec["reads"] = [s.read() for _, s in P._api_streams(src["y"])]
                else:
                    ls = P._stream_leaves(src["y"])
                    if op.get("leaf") is not None:
                        ls = ls[op["leaf"]:op["leaf"] + 1]
                    rec["reads"] = []
                    for _, s in ls:
                        try:
                            rec["reads"].append(s.close() if op.get("how") == "close" else s.read())
                        except ValueError:
                            rec["reads"].append("ValueError")
                raw.append(rec)
                continue
            if op.get("as"):
                named[op["as"]] = len(raw)
            if k == "to_json":
                # "temp": the object is built for this call and dropped right after it (what a caller looping over files does)
                x = build(H["objs"][op["obj"]]) if op.get("temp") else obj(op["obj"])
                b = op.get("bin")
                rec["j"] = x.to_json() if (b is None and hasattr(x, "to_json")) else S.serialize_extraction(x, include_binary=True if b is None else b)
            elif k in ("from_json", "from_json_bad"):
                if "stored" in op:
                    if not stored[op["stored"]]:
                        raise RuntimeError("the writing process produced no JSON for this object (to_json / json.dumps failed there)")
                    J = json.loads(stored[op["stored"]])
                elif "of" in op:
                    J = json.loads(json.dumps([r for r in raw if r.get("label") == op["of"]][-1]["j"]))
                else:
                    J = json.loads(op["json_text"])   # text, so that the key order survives the replay file
                rec["J"] = J
                rec["y"] = ExtractionInterface.from_json(copy.deepcopy(J))
                if op.get("as"):
                    rec["y_enc"] = P.enc(rec["y"])      # as returned: later steps of the history read / close its streams
            elif k == "units":
                x = obj(op["obj"])
                rec["units"] = [u.to_json() if hasattr(u, "to_json") else S.serialize_extraction(u) for u in x.iterate_units()]
            elif k == "cli":
                rec["path"] = cli_path(op)
                rec["rc"], rec["out"], rec["errtext"] = P._run_cli(op["flags"], rec["path"])
            else:
                rec["err"] = "bad-op"
        except Exception as e:  # noqa
            rec["err"] = P._errname(e)
            rec["errmsg"] = str(e)[:160]
        raw.append(rec)

    # ------------------------------------------------------------------ outcomes (for the comparison with the model)
    steps = []
    for rec in raw:
        s = {"op": rec["op"]}
        if "err" in rec:
            s["err"] = rec["err"]
        elif "reads" in rec:
            s["reads"] = [r if isinstance(r, str) else list(r or b"") for r in rec["reads"]]
        elif "j" in rec:
            try:
                s["j"] = P.enc(json.loads(json.dumps(rec["j"])))
            except Exception as e:  # noqa
                s["notjson"] = type(e).__name__
        elif "y" in rec:
            s["ok"] = rec["y_enc"] if "y_enc" in rec else P.enc(rec["y"])
        elif "units" in rec:
            try:
                s["units"] = len(rec["units"])
            except Exception:
                pass
        elif "rc" in rec:
            s["rc"] = rec["rc"]
        steps.append(s)

    # ------------------------------------------------------------------ the property statement, judged afterwards
    findings = []

    def adder(i, x):
        def add(key, what):
            if not any(f["key"] == key for f in findings):
                findings.append({"key": key, "what": f"step {i} ({H['ops'][i]['op']}) {type(x).__name__}: {what}"})
        return add

    import dataclasses
    # reference model of what the history did to each restored object's own streams: every restored object owns its
    # streams, so what a read returns / whether to_json works depends on the operations addressed to THAT object only
    ref = {}        # "as" name -> {"x": original, "leaves": [[payload, pos, closed]], "paths": [...]}
    spoiled = set()  # indices of from_json steps whose object had a stream closed by the history itself
    for i, (op, rec) in enumerate(zip(H["ops"], raw)):
        try:
            if op["op"] == "from_json" and op.get("as") and "y" in rec and op.get("src") is not None:
                x = obj(op["src"])
                ls = P._stream_leaves(x)
                ref[op["as"]] = {"x": x, "leaves": [[s.getvalue(), 0, False] for _, s in ls], "paths": [p for p, _ in ls], "step": i}
            elif op["op"] in ("use", "observe") and op.get("y") in ref and "err" not in rec:
                R = ref[op["y"]]
                add = adder(i, R["x"])
                if op["op"] == "observe":
                    if any(c for _, _, c in R["leaves"]):
                        continue          # the history closed one of this object's own streams
                    want = raw[R["step"]]["J"]
                    if P._canon_json(json.loads(json.dumps(rec["j"]))) != P._canon_json(want):
                        add("serial.restored-object-changed", f"to_json() of the object restored at step {R['step']} no longer equals the JSON it was restored from "
                            "(nothing was done to this object)")
                    continue
                if op.get("how") == "api-read":
                    want = [s.getvalue() for _, s in P._api_streams(R["x"])]
                    if [bytes(r) for r in rec["reads"]] != want:
                        add("serial.restored-stream-short", f"image / attachment bytes read through the interface of the object restored at step {R['step']}: lengths "
                            f"{[len(r) for r in rec['reads']]}, expected {[len(w) for w in want]}")
                    for L in R["leaves"]:
                        L[1] = len(L[0])
                    continue
                idx = range(len(R["leaves"])) if op.get("leaf") is None else ([op["leaf"]] if op["leaf"] < len(R["leaves"]) else [])
                if len(rec["reads"]) != len(list(idx)):
                    add("serial.restored-stream-missing", f"object restored at step {R['step']} has {len(rec['reads'])} streams, the original {len(R['leaves'])}")
                    continue
                for n, got in zip(idx, rec["reads"]):
                    L = R["leaves"][n]
                    if op.get("how") == "close":
                        L[2] = True
                        spoiled.add(R["step"])
                        continue
                    exp = "ValueError" if L[2] else L[0][L[1]:]
                    L[1] = max(L[1], len(L[0]))
                    if got != exp:
                        path = ".".join(map(str, R["paths"][n]))
                        add("serial.restored-stream-short", f"read() of {path} of the object restored at step {R['step']} returned "
                            f"{got if isinstance(got, str) else str(len(got)) + ' bytes'}, expected "
                            f"{exp if isinstance(exp, str) else str(len(exp)) + ' bytes'} (its own stream was not touched before)")
            elif op["op"] == "observe" and "err" in rec and op.get("y") in ref and not any(c for _, _, c in ref[op["y"]]["leaves"]):
                add = adder(i, ref[op["y"]]["x"])
                add("serial.restored-object-broken", f"to_json() of the object restored at step {ref[op['y']]['step']} raised {rec['err']}: {rec.get('errmsg')} "
                    "(none of its own streams was closed)")
        except Exception as e:  # noqa
            findings.append({"key": "judge-crashed", "what": f"step {i}: {type(e).__name__}: {e} {traceback.format_exc()[-300:]}"})
    # restored objects share nothing mutable (each from_json was given its own freshly parsed JSON)
    try:
        ys = [(i, rec["y"]) for i, rec in enumerate(raw) if "y" in rec and H["ops"][i]["op"] == "from_json" and H["ops"][i].get("src") is not None]
        for msg in P._shared_mutables(ys)[:1]:
            if not any(f["key"] == "serial.restored-objects-share-state" for f in findings):
                findings.append({"key": "serial.restored-objects-share-state", "what": msg})
    except Exception as e:  # noqa
        findings.append({"key": "judge-crashed", "what": f"sharing: {type(e).__name__}: {e} {traceback.format_exc()[-300:]}"})
    for i, (op, rec) in enumerate(zip(H["ops"], raw)):
        k = op["op"]
        try:
            if k == "from_json" and i in spoiled:
                continue
            if k == "to_json":
                x = obj(op["obj"])
                add = adder(i, x)
                if "err" in rec:
                    add("serial.to_json-raises", f"to_json() raised {rec['err']}: {rec.get('errmsg')}")
                    continue
                try:
                    text = json.dumps(rec["j"])
                except Exception as e:  # noqa
                    add("serial.not-json-serialisable", f"json.dumps(to_json()) raised {type(e).__name__}: {str(e)[:120]}")
                    continue
                if op.get("bin") is False:
                    P._judge_nobinary(x, S.serialize_extraction(x, include_binary=True), rec["j"], add)
                elif dataclasses.is_dataclass(x):
                    try:
                        y = ExtractionInterface.from_json(json.loads(text))
                    except Exception as e:  # noqa
                        add("serial.from_json-raises", f"from_json(json.loads(json.dumps(to_json()))) raised {type(e).__name__}: {str(e)[:120]}")
                        continue
                    P._judge_rebuilt(x, y, rec["j"], text, add, None, findings)
            elif k == "from_json" and op.get("src") is not None:
                x = obj(op["src"])
                add = adder(i, x)
                if "err" in rec:
                    if str(rec.get("errmsg", "")).startswith("the writing process"):
                        add("serial.to_json-raises", "in a fresh process: " + rec["errmsg"])
                    else:
                        add("serial.from_json-raises", f"from_json(stored JSON) raised {rec['err']}: {rec.get('errmsg')}")
                    continue
                P._judge_rebuilt(x, rec["y"], rec["J"], json.dumps(rec["J"]), add, None, findings)
            elif k == "cli" and "err" not in rec:
                path = rec["path"]
                results = list(sharepoint2text.read_file(path))
                for v in P._judge_cli_output(op["flags"], rec["rc"], rec["out"], rec["errtext"], results, {}):
                    if not any(f["key"] == v.key for f in findings):
                        findings.append({"key": v.key, "what": f"step {i} (cli {op.get('fixture') or P._input_text(op['input'])}) {v.what}"})
            elif k == "units" and "err" not in rec:
                x = obj(op["obj"])
                for ui, (u, j) in enumerate(zip(x.iterate_units(), rec["units"])):
                    add = adder(i, u)
                    text = json.dumps(j)
                    y = ExtractionInterface.from_json(json.loads(text))
                    P._judge_rebuilt(u, y, j, text, add, None, findings)
        except Exception as e:  # noqa
            findings.append({"key": "judge-crashed", "what": f"step {i}: {type(e).__name__}: {e} {traceback.format_exc()[-300:]}"})
    # final state: the whole statement on every object the history touched
    for name, x in objs.items():
        try:
            for v in P.check_value(x, {}):
                if not any(f["key"] == v.key for f in findings):
                    findings.append({"key": v.key, "what": f"after the history, object {name}: {v.what}"})
        except Exception as e:  # noqa
            findings.append({"key": "judge-crashed", "what": f"final {name}: {type(e).__name__}: {e}"})
    return {"id": H.get("id"), "steps": steps, "findings": findings}


def main():
    resource.setrlimit(resource.RLIMIT_AS, (4 * 2 ** 30, 4 * 2 ** 30))
    req = json.load(sys.stdin)
    import logging
    import warnings
    logging.disable(logging.CRITICAL)
    warnings.filterwarnings("ignore")
    sys.path.insert(0, HARNESS)
    sys.path.insert(0, REPO)
    # imports only -- not one library call in this process
    import sharepoint2text  # noqa
    import sharepoint2text.cli  # noqa
    from sharepoint2text.parsing.extractors import data_types, serialization  # noqa
    from sharepoint2text.parsing import router  # noqa
    import corpus  # noqa
    import props.c05 as P
    P._reg = fresh_registry
    reg0 = getattr(serialization, "_TYPE_REGISTRY", None)
    pristine = (len(reg0) == 0) if isinstance(reg0, dict) else None
    hs = req["histories"]
    par = max(1, min(int(req.get("par", 8)), 16))
    results = [None] * len(hs)
    running = {}   # fd -> (idx, pid, chunks, t0)
    nxt = 0
    devnull = os.open(os.devnull, os.O_WRONLY)
    while nxt < len(hs) or running:
        while nxt < len(hs) and len(running) < par:
            r, w = os.pipe()
            pid = os.fork()
            if pid == 0:
                try:
                    os.close(r)
                    os.dup2(devnull, 1)
                    signal.alarm(CHILD_LIMIT_S)
                    try:
                        out = run_history(P, hs[nxt])
                    except BaseException as e:  # noqa
                        out = {"id": hs[nxt].get("id"), "crash": f"{type(e).__name__}: {e} {traceback.format_exc()[-600:]}"}
                    data = json.dumps(out).encode()
                    with os.fdopen(w, "wb") as fh:
                        fh.write(data)
                finally:
                    os._exit(0)
            os.close(w)
            running[r] = (nxt, pid, [], time.time())
            nxt += 1
        ready, _, _ = select.select(list(running), [], [], 1.0)
        for fd in ready:
            chunk = os.read(fd, 1 << 16)
            idx, pid, chunks, t0 = running[fd]
            if chunk:
                chunks.append(chunk)
                continue
            os.close(fd)
            os.waitpid(pid, 0)
            del running[fd]
            try:
                results[idx] = json.loads(b"".join(chunks).decode())
            except Exception:
                results[idx] = {"id": hs[idx].get("id"), "crash": "child wrote no result (killed / timeout)"}
        now = time.time()
        for fd, (idx, pid, chunks, t0) in list(running.items()):
            if now - t0 > CHILD_LIMIT_S + 10:
                try:
                    os.kill(pid, signal.SIGKILL)
                except OSError:
                    pass
    for r in results:
        r["pristine"] = pristine
    json.dump(results, sys.stdout)
    sys.stdout.write("\n")
    return 0


if __name__ == "__main__":
    sys.exit(main())
