"""Worker for C06 (history): in THIS fresh interpreter extract the given documents in the given order and
report, per document, the digest of what it yields (pass 1), the process-global cells its extraction changed,
whether the caller's buffer was changed, and the digest again after the whole history (pass 2).

stdin: {"docs": [[name, path], ...], "order": [indices], "volatile": [cell names], "pass2": bool}
stdout: {"pass1": {name: digest}, "pass2": {name: digest}, "changed": {name: [cells]}, "input": [names],
         "fresh": {name: digest in a forked child of the still pristine interpreter}}
"""
import io
import json
import logging
import os
import sys

logging.disable(logging.CRITICAL)
repo = os.environ.get("S2T_REPO", "/repo")
sys.path.insert(0, repo)
sys.path.insert(0, os.path.dirname(os.path.abspath(__file__)))
import warnings  # noqa: E402

warnings.filterwarnings("ignore")
import resource  # noqa: E402

resource.setrlimit(resource.RLIMIT_AS, (4 * 2**30, 4 * 2**30))
import c06_state  # noqa: E402
from c06_digest import digest_of  # noqa: E402
from sharepoint2text.parsing import router  # noqa: E402


def _fresh_baseline(docs):
    """what each document yields in a process in which NOTHING was extracted before: one forked child per document,
    forked from this interpreter while it is still pristine (modules imported, no extraction run yet)"""
    out = {}
    for name, p in docs:
        r, w = os.pipe()
        pid = os.fork()
        if pid == 0:
            try:
                os.close(r)
                with open(p, "rb") as fh:
                    data = fh.read()
                os.write(w, digest_of(p, data).encode())
            finally:
                os._exit(0)
        os.close(w)
        buf = b""
        while True:
            chunk = os.read(r, 4096)
            if not chunk:
                break
            buf += chunk
        os.close(r)
        os.waitpid(pid, 0)
        out[name] = buf.decode() or None
    return out


def main():
    job = json.load(sys.stdin)
    docs = job["docs"]
    vol = job.get("volatile", [])
    res = {"pass1": {}, "pass2": {}, "changed": {}, "input": []}
    blobs = {}
    # load every extractor module first: lazily imported modules are not "state changed by an extraction"
    for name, p in docs:
        try:
            router.get_extractor(p)
        except Exception:
            pass
    import mimetypes
    mimetypes.init()
    if job.get("fresh", True):
        res["fresh"] = _fresh_baseline(docs)
    before = c06_state.cells()
    for i in job["order"]:
        name, p = docs[i]
        with open(p, "rb") as fh:
            data = fh.read()
        blobs[name] = data
        nmods = len(sys.modules)
        res["pass1"][name] = digest_of(p, data)
        after = c06_state.cells()
        ch = c06_state.changed(before, after, vol)
        if len(sys.modules) != nmods:     # a lazy import ran module-level code of a third-party package: one-time, not per document
            ch = [c for c in ch if not c.startswith("<interp>:")]
        if ch:
            res["changed"][name] = ch
        before = after
    if job.get("pass2"):
        for i in job["order"]:
            name, p = docs[i]
            res["pass2"][name] = digest_of(p, blobs[name])
    json.dump(res, sys.stdout)


if __name__ == "__main__":
    main()
