"""C12, second half: observations of the REAL code at the explicit limits and on amplifying inputs.

Every function returns plain data (decisions, counts); comparison with the Lean model and the property
oracle live in harness/props/c12.py."""
from __future__ import annotations

import inspect
import io
import os
import pathlib
import tarfile
import tempfile
import zipfile

from builders import c12_sevenzip as Z

MB = 1024 * 1024


# ------------------------------------------------------------------ read_file
def read_file_decision(max_file_size, forged_size, pass_default=False):
    """'reject' (ExtractionFileTooLargeError at the first next()), 'accept', or 'ERR:<class>'.
    A real 2-byte .txt file; Path.stat is wrapped so that st_size of THAT path is `forged_size`."""
    import sharepoint2text
    from sharepoint2text.parsing.exceptions import ExtractionFileTooLargeError
    with tempfile.TemporaryDirectory(prefix="s2t_c12_") as td:
        fp = os.path.join(td, "f.txt")
        with open(fp, "wb") as fh:
            fh.write(b"hi")
        real_stat = pathlib.Path.stat

        class _St:
            def __init__(self, st):
                self._st = st

            def __getattr__(self, k):
                if k == "st_size":
                    return forged_size
                return getattr(self._st, k)

        def fake_stat(self, *a, **k):
            st = real_stat(self, *a, **k)
            if str(self) == fp:
                return _St(st)
            return st
        pathlib.Path.stat = fake_stat
        try:
            try:    # the call itself belongs to the observation: a guard that runs at call time raises here
                gen = sharepoint2text.read_file(fp) if pass_default else sharepoint2text.read_file(fp, max_file_size=max_file_size)
                next(gen)
                return "accept"
            except ExtractionFileTooLargeError:
                return "reject"
            except StopIteration:
                return "accept"
            except Exception as e:
                return "ERR:" + type(e).__name__
        finally:
            pathlib.Path.stat = real_stat


def read_file_deferred(max_file_size, size_at_call, size_at_read):
    """History: obtain the result of read_file() on a genuine `size_at_call`-byte .txt file, THEN replace the file's
    content by `size_at_read` bytes, THEN consume the result. Returns (decision, characters of text delivered):
    the limit is a statement about the file that is read, whenever the library chooses to look at it."""
    import sharepoint2text
    from sharepoint2text.parsing.exceptions import ExtractionFileTooLargeError
    with tempfile.TemporaryDirectory(prefix="s2t_c12_") as td:
        fp = os.path.join(td, "f.txt")
        with open(fp, "wb") as fh:
            fh.write(b"a" * size_at_call)
        try:
            gen = sharepoint2text.read_file(fp, max_file_size=max_file_size)
            with open(fp, "wb") as fh:
                fh.write(b"b" * size_at_read)
            got = 0
            for r in gen:
                got += len(r.get_full_text())
            return "accept", got
        except ExtractionFileTooLargeError:
            return "reject", 0
        except Exception as e:
            return "ERR:" + type(e).__name__, 0


def read_file_sparse_decision(max_file_size, size):
    """same with a genuinely sparse file of `size` bytes (no forging); only for small sizes"""
    import sharepoint2text
    from sharepoint2text.parsing.exceptions import ExtractionFileTooLargeError
    with tempfile.TemporaryDirectory(prefix="s2t_c12_") as td:
        fp = os.path.join(td, "f.txt")
        with open(fp, "wb") as fh:
            fh.truncate(size)
        try:
            next(sharepoint2text.read_file(fp, max_file_size=max_file_size))
            return "accept"
        except ExtractionFileTooLargeError:
            return "reject"
        except StopIteration:
            return "accept"
        except Exception as e:
            return "ERR:" + type(e).__name__


# ------------------------------------------------------------------ 7z archive size
class ForgedSize(io.BytesIO):
    """BytesIO whose `seek(0, SEEK_END); tell()` reports a forged size (once)"""

    def __init__(self, data, forged):
        super().__init__(data)
        self._forged, self._armed = forged, False

    def seek(self, pos, whence=0):
        r = super().seek(pos, whence)
        self._armed = (whence == os.SEEK_END and pos == 0)
        return self._forged if self._armed else r

    def tell(self):
        if self._armed:
            self._armed = False
            return self._forged
        return super().tell()


def small_7z():
    return Z.build([{"method": Z.COPY, "files": [("a.txt", b"hello")]}])


def sevenzip_size_decision(forged_size):
    from sharepoint2text.parsing.extractors import archive_extractor as A
    from sharepoint2text.parsing.exceptions import ExtractionFileTooLargeError
    try:
        list(A._extract_from_7z_optimized(ForgedSize(small_7z(), forged_size), None))
        return "accept"
    except ExtractionFileTooLargeError:
        return "reject"
    except Exception as e:
        return "ERR:" + type(e).__name__


# ------------------------------------------------------------------ per-entry length check
class ForgedLen(bytes):
    def __new__(cls, data, forged):
        o = super().__new__(cls, data)
        o._forged = forged
        return o

    def __len__(self):
        return self._forged


def entry_decision(forged_len):
    from sharepoint2text.parsing.extractors import archive_extractor as A
    out = list(A._process_archive_entry("a.txt", ForgedLen(b"hello", forged_len), None, "a.txt"))
    return "skip" if not out else "process"


# ------------------------------------------------------------------ archive members
class _Config:
    """temporarily replace archive_extractor._config.max_memory_size"""

    def __init__(self, limit):
        self.limit = limit

    def __enter__(self):
        from sharepoint2text.parsing.extractors import archive_extractor as A
        self.A, self.saved = A, A._config
        if self.limit is not None:
            A._config = A.ArchiveConfig(max_memory_size=self.limit)
        return self

    def __exit__(self, *a):
        self.A._config = self.saved
        return False


def _payload(size, tag):
    head = (f"member {tag} " * 3).encode()
    return (head + b"\n" * max(0, size - len(head)))[:size]


def zip_members(limit, sizes):
    """-> per member: (declared size, was a read handle opened for it — zf.read / zf.open / zf.extract all go through
    ZipFile.open —, texts extracted)"""
    data = zip_archive([{"name": f"m{i}.txt", "size": s} for i, s in enumerate(sizes)])
    got = zip_loop(limit, data)
    opened = {h[1] for h in got["handles"]}
    return [(s, i in opened) for i, s in enumerate(sizes)], got["n_out"]


def zip_archive(entries):
    """entries: [{"name", "size", optional "stored": bool}] in central-directory order -> archive bytes.
    Names may repeat (zipfile warns and writes both entries; `getinfo(name)` / `NameToInfo` then resolve the name to
    the LAST entry carrying it, `infolist()` still lists every entry)."""
    import warnings
    buf = io.BytesIO()
    with warnings.catch_warnings():
        warnings.simplefilter("ignore")
        with zipfile.ZipFile(buf, "w") as zf:
            for i, e in enumerate(entries):
                zi = zipfile.ZipInfo(e["name"])
                zi.compress_type = zipfile.ZIP_STORED if e.get("stored") else zipfile.ZIP_DEFLATED
                zf.writestr(zi, _payload(e["size"], i))
    return buf.getvalue()


def zip_reference(data):
    """what plain `zipfile` says about every central-directory entry: name, declared size, bytes its OWN handle
    (`zf.open(info)`) delivers, and the index of the entry its NAME resolves to — the inputs of the Lean model"""
    ref = []
    with zipfile.ZipFile(io.BytesIO(data)) as zf:
        infos = zf.infolist()
        for zi in infos:
            with zf.open(zi) as fh:
                n = len(fh.read())
            ref.append({"name": zi.filename, "declared": zi.file_size, "delivers": n,
                        "name_resolves_to": [id(x) for x in infos].index(id(zf.getinfo(zi.filename)))})
    return ref


def zip_loop(limit, data):
    """run the real ZIP member loop on archive bytes -> {"handles": [[how the entry was named: "info" | "name",
    index of the central-directory entry actually opened (-1: a ZipInfo that is not in the list), its name, bytes the
    handle delivered in total]], "entries": [[name, len(data)] handed to _process_archive_entry], "n_out", "err"}.
    Every way to get at member bytes goes through ZipFile.open (read, extract, extractall call it)."""
    from sharepoint2text.parsing.extractors import archive_extractor as A
    handles, entries = [], []
    orig_open = zipfile.ZipFile.open
    orig_all, orig_one = zipfile.ZipFile.extractall, zipfile.ZipFile.extract
    orig_entry = A._process_archive_entry

    def spy_open(self, name, mode="r", *a, **k):
        f = orig_open(self, name, mode, *a, **k)
        if mode != "r":
            return f
        how = "info" if isinstance(name, zipfile.ZipInfo) else "name"
        info = name if how == "info" else self.getinfo(name)
        ids = [id(x) for x in self.filelist]
        rec = [how, ids.index(id(info)) if id(info) in ids else -1, info.filename, 0]
        handles.append(rec)
        log = []
        h = _CountingHandle(f, info.filename, log)

        class _Sum(list):
            def append(self_, item):
                rec[3] += max(0, item[1])
        h._log = _Sum()
        return h

    def no_extract(self, *a, **k):
        handles.append(["extract/extractall", -1, "<to disk>", -1])
        raise zipfile.BadZipFile("extract/extractall is not expected in the member loop (observation)")

    def spy_entry(filename, file_data, *a, **k):
        entries.append([filename, len(file_data)])
        return orig_entry(filename, file_data, *a, **k)
    zipfile.ZipFile.open = spy_open
    zipfile.ZipFile.extractall = zipfile.ZipFile.extract = no_extract
    A._process_archive_entry = spy_entry
    err, outs = None, []
    try:
        with _Config(limit):
            try:
                outs = list(A._extract_from_zip_optimized(io.BytesIO(data), None))
            except Exception as e:
                err = type(e).__name__
    finally:
        zipfile.ZipFile.open = orig_open
        zipfile.ZipFile.extractall, zipfile.ZipFile.extract = orig_all, orig_one
        A._process_archive_entry = orig_entry
    return {"handles": handles, "entries": entries, "n_out": len(outs), "err": err}


_TAR_TYPES = {"reg": tarfile.REGTYPE, "hardlink": tarfile.LNKTYPE, "symlink": tarfile.SYMTYPE, "dir": tarfile.DIRTYPE,
              "special": tarfile.FIFOTYPE}


def tar_kind(ti):
    return "reg" if ti.isreg() else "hardlink" if ti.islnk() else "symlink" if ti.issym() else "dir" if ti.isdir() else "special"


def tar_archive(members, gz=True):
    """members: [{"name", "type": reg|hardlink|symlink|dir|special, "size": payload bytes (reg) / forged header size
    (others), "link": linkname}] -> archive bytes.  A link entry is a header only (no data blocks)."""
    buf = io.BytesIO()
    with tarfile.open(fileobj=buf, mode="w:gz" if gz else "w", **({"compresslevel": 1} if gz else {})) as tf:
        for i, m in enumerate(members):
            ti = tarfile.TarInfo(m["name"])
            ti.type = _TAR_TYPES[m["type"]]
            if m["type"] == "reg":
                ti.size = m["size"]
                tf.addfile(ti, io.BytesIO(_payload(m["size"], i)))
            else:
                ti.linkname = m.get("link") or ""
                ti.size = m.get("size", 0)          # tarfile writes the field as given and no data blocks
                tf.addfile(ti)
    return buf.getvalue()


def tar_reference(data):
    """what plain `tarfile` says about every member: (name, kind, size field of its OWN header, number of bytes
    `extractfile(member).read()` delivers or None when it returns None / raises) — the inputs of the Lean model"""
    ref = []
    with tarfile.open(fileobj=io.BytesIO(data), mode="r:*") as tf:
        for m in tf.getmembers():
            try:
                f = tf.extractfile(m)
                n = None if f is None else len(f.read())
            except Exception:
                n = None
            ref.append({"name": m.name, "kind": tar_kind(m), "size": m.size, "delivers": n})
    return ref


class _CountingHandle:
    """the object `extractfile` returned, with every read recorded (name of the member asked for, bytes delivered)"""

    def __init__(self, f, name, log):
        self._f, self._name, self._log = f, name, log

    def _rec(self, d):
        self._log.append((self._name, len(d) if d is not None else 0))
        return d

    def read(self, *a, **k):
        return self._rec(self._f.read(*a, **k))

    def read1(self, *a, **k):
        return self._rec(self._f.read1(*a, **k))

    def readall(self):
        return self._rec(self._f.readall())

    def readline(self, *a):
        return self._rec(self._f.readline(*a))

    def __iter__(self):
        for line in self._f:
            yield self._rec(line)

    def __enter__(self):
        return self

    def __exit__(self, *a):
        return self._f.__exit__(*a)

    def __getattr__(self, k):
        return getattr(self._f, k)


def tar_loop(limit, data):
    """run the real member loop on archive bytes -> {"asked": names handed to extractfile, "chunks": [(name, bytes
    delivered by one read of that handle)], "n_out": results yielded, "err": None | class}.
    `TarFile.extractfile` follows links by calling itself: only the outermost call is wrapped."""
    from sharepoint2text.parsing.extractors import archive_extractor as A
    asked, chunks, depth = [], [], [0]
    orig = tarfile.TarFile.extractfile

    def spy(self, member):
        name = member.name if isinstance(member, tarfile.TarInfo) else member
        depth[0] += 1
        try:
            f = orig(self, member)
        finally:
            depth[0] -= 1
        if depth[0] > 0:
            return f
        asked.append(name)
        return None if f is None else _CountingHandle(f, name, chunks)
    orig_all, orig_one = tarfile.TarFile.extractall, tarfile.TarFile.extract

    def no_extract(self, *a, **k):
        chunks.append(("<extract/extractall>", -1))
        raise tarfile.TarError("extract/extractall is not expected in the member loop (observation)")
    tarfile.TarFile.extractfile = spy
    tarfile.TarFile.extractall = tarfile.TarFile.extract = no_extract
    err, outs = None, []
    try:
        with _Config(limit):
            try:
                outs = list(A._extract_from_tar_optimized(io.BytesIO(data), None))
            except Exception as e:
                err = type(e).__name__
    finally:
        tarfile.TarFile.extractfile = orig
        tarfile.TarFile.extractall, tarfile.TarFile.extract = orig_all, orig_one
    return {"asked": asked, "chunks": chunks, "n_out": len(outs), "err": err}


def tar_members(limit, sizes, gz=True):
    """regular members only -> per member: (declared size, was its content read), number of results"""
    data = tar_archive([{"name": f"m{i}.txt", "type": "reg", "size": s} for i, s in enumerate(sizes)], gz=gz)
    got = tar_loop(limit, data)
    read = {nm for nm, _ in got["chunks"]}
    return [(s, f"m{i}.txt" in read) for i, s in enumerate(sizes)], got["n_out"]


def sevenzip_is_fixed():
    from sharepoint2text.parsing.extractors.util import sevenzip
    return "members" in inspect.signature(sevenzip.SevenZipFile.extractall).parameters


class _CountingDecompressor:
    """an lzma.LZMADecompressor whose every decompress() call is recorded (bytes produced)"""

    def __init__(self, d, log, cur):
        self._d, self._log, self._cur = d, log, cur

    def decompress(self, data, max_length=-1):
        out = self._d.decompress(data, max_length)
        self._log.append((self._cur[0], len(out)))
        return out

    def __getattr__(self, k):
        return getattr(self._d, k)


class _LzmaSpy:
    """stands in for the `lzma` module inside sevenzip.py: whatever the library's own functions look like, every byte
    an LZMA / LZMA2 decoder produces passes through here"""

    def __init__(self, log, cur):
        self._log, self._cur = log, cur

    def LZMADecompressor(self, *a, **k):
        import lzma
        return _CountingDecompressor(lzma.LZMADecompressor(*a, **k), self._log, self._cur)

    def decompress(self, data, *a, **k):
        import lzma
        out = lzma.decompress(data, *a, **k)
        self._log.append((self._cur[0], len(out)))
        return out

    def __getattr__(self, k):
        import lzma
        return getattr(lzma, k)


def sevenzip_extract(limit, folders, method=None, empty_files=(), chains=None):
    """folders: [[(name, size), ...], ...] (one 7z folder each; sizes are real payload sizes; names may repeat).
    chains: per folder None (one coder: `method`) or a list of coder names, coder 0 first (["bcj", "lzma2"]).
    -> {"decoded": [(folder index, output bytes)], "written": {name: size}, "texts": n, "err": None|class,
        "stages": [(folder index, coder name, input bytes, output bytes)] of every _apply_decoder call in call order,
        "lzma_out": [(folder index, bytes produced by one LZMADecompressor.decompress / lzma.decompress call)],
        "entries": [(name, len(data))] handed to _process_archive_entry}
    Observed by wrapping SevenZipReader._decompress_folder / _apply_decoder, by standing in for the lzma module inside
    sevenzip.py, and by listing the temp directory before it is removed.
    """
    from sharepoint2text.parsing.extractors import archive_extractor as A
    from sharepoint2text.parsing.extractors.util import sevenzip
    if method is None:
        method = Z.LZMA          # (folders are decoded from their own pack streams since the C10 fix 03b42ae)
    specs = []
    for i, f in enumerate(folders):
        spec = {"method": method, "files": [(nm, _payload(sz, f"{i}/{j}/{nm}")) for j, (nm, sz) in enumerate(f)]}
        if chains is not None and chains[i]:
            spec["chain"] = [Z.CODER_BY_NAME[c] for c in chains[i]]
        specs.append(spec)
    arch = Z.build(specs, empty_files=empty_files)
    decoded, written, stages, lzma_out, entries, cur = [], {}, [], [], [], [-1]
    orig_dec = sevenzip.SevenZipReader._decompress_folder
    orig_stage = getattr(sevenzip.SevenZipReader, "_apply_decoder", None)
    orig_entry = A._process_archive_entry
    saved_lzma = sevenzip.lzma

    def spy_dec(self, folder, *a, **k):
        try:
            idx = [id(f) for f in self._folders].index(id(folder))
        except ValueError:
            idx = -1
        prev, cur[0] = cur[0], idx
        try:
            out = orig_dec(self, folder, *a, **k)
        finally:
            cur[0] = prev
        decoded.append((idx, len(out)))
        return out

    def spy_stage(self, coder_id, properties, data, *a, **k):
        rec = [cur[0], Z.CODER_NAMES.get(bytes(coder_id), bytes(coder_id).hex()), len(data), None]
        stages.append(rec)
        out = orig_stage(self, coder_id, properties, data, *a, **k)
        rec[3] = len(out)
        return out

    def spy_entry(filename, file_data, *a, **k):
        entries.append((filename, len(file_data)))
        return orig_entry(filename, file_data, *a, **k)

    class SpyTmp(tempfile.TemporaryDirectory):
        def __exit__(self, *a):
            for root, _, files in os.walk(self.name):
                for fn in files:
                    p = os.path.join(root, fn)
                    written[os.path.relpath(p, self.name)] = os.path.getsize(p)
            return super().__exit__(*a)

    class _TmpMod:
        TemporaryDirectory = SpyTmp

        def __getattr__(self, k):
            return getattr(tempfile, k)
    sevenzip.SevenZipReader._decompress_folder = spy_dec
    if orig_stage is not None:
        sevenzip.SevenZipReader._apply_decoder = spy_stage
    sevenzip.lzma = _LzmaSpy(lzma_out, cur)
    A._process_archive_entry = spy_entry
    saved_tmp = A.tempfile
    A.tempfile = _TmpMod()
    err, outs = None, []
    try:
        with _Config(limit):
            try:
                outs = list(A._extract_from_7z_optimized(io.BytesIO(arch), None))
            except Exception as e:
                err = type(e).__name__
    finally:
        sevenzip.SevenZipReader._decompress_folder = orig_dec
        if orig_stage is not None:
            sevenzip.SevenZipReader._apply_decoder = orig_stage
        sevenzip.lzma = saved_lzma
        A._process_archive_entry = orig_entry
        A.tempfile = saved_tmp
    return {"decoded": decoded, "written": written, "texts": len(outs), "err": err, "archive_len": len(arch),
            "stages": [tuple(r) for r in stages], "lzma_out": lzma_out, "entries": entries,
            "stage_probe": orig_stage is not None}


def sevenzip_lzma2_bomb(real, declared):
    """one LZMA2 folder whose stream expands to `real` zero bytes while the header declares `declared` bytes for the
    folder and its only member (which therefore passes the per-member filter) -> (archive length, decoder output lengths)"""
    from sharepoint2text.parsing.extractors import archive_extractor as A
    from sharepoint2text.parsing.extractors.util import sevenzip
    arch = Z.build([{"method": Z.LZMA2, "files": [("a.txt", b"\0" * real)], "declared_unpack": declared}])
    outs = []
    orig = sevenzip.SevenZipReader._decompress_folder

    def spy(self, folder, *a, **k):
        o = orig(self, folder, *a, **k)
        outs.append(len(o))
        return o
    sevenzip.SevenZipReader._decompress_folder = spy
    try:
        try:
            list(A._extract_from_7z_optimized(io.BytesIO(arch), None))
        except Exception:
            pass
    finally:
        sevenzip.SevenZipReader._decompress_folder = orig
    return len(arch), outs


def sevenzip_file_count(n):
    """a ~70-byte archive that declares n files (no names): -> (archive length, peak list cells allocated by
    `[x] * num_files`, error class)"""
    from sharepoint2text.parsing.extractors.util import sevenzip
    arch = Z.build([{"method": Z.COPY, "files": [("c.txt", b"hello c")]}], num_files_override=n, with_names=False)
    seen = {}
    orig = sevenzip.SevenZipReader._build_file_list

    def spy(self, num_files, empty_streams, names, attributes, *rest):
        seen["cells"] = len(empty_streams) + len(names) + len(attributes)
        raise sevenzip.Bad7zFile("stop (observation only)")
    sevenzip.SevenZipReader._build_file_list = spy
    err = None
    try:
        try:
            sevenzip.SevenZipReader(io.BytesIO(arch))
        except Exception as e:
            err = type(e).__name__
    finally:
        sevenzip.SevenZipReader._build_file_list = orig
    return len(arch), seen.get("cells", 0), err


# ------------------------------------------------------------------ ODS
ODS_NS = ('xmlns:office="urn:oasis:names:tc:opendocument:xmlns:office:1.0" '
          'xmlns:table="urn:oasis:names:tc:opendocument:xmlns:table:1.0" '
          'xmlns:text="urn:oasis:names:tc:opendocument:xmlns:text:1.0"')
ODS_HEAD = f'<?xml version="1.0"?><office:document-content {ODS_NS}><office:body><office:spreadsheet><table:table table:name="S">'
ODS_TAIL = '</table:table></office:spreadsheet></office:body></office:document-content>'
ROW_OPEN, ROW_CLOSE = '<table:table-row table:number-rows-repeated="', '</table:table-row>'
EMPTY_CELL = ('<table:table-cell table:number-columns-repeated="', '"/>')
TEXT_CELL = ('<table:table-cell table:number-columns-repeated="', '" office:value-type="string"><text:p>', '</text:p></table:table-cell>')
COVERED_CELL = ('<table:covered-table-cell table:number-columns-repeated="', '"/>')
COVERED = "<covered>"      # marker in the place of a cell's text: a table:covered-table-cell with that repeat count
ODS_ENVELOPE = len(ODS_HEAD) + len(ODS_TAIL)
ODS_ROW_TAGS = len(ROW_OPEN) + len('">') + len(ROW_CLOSE)
ODS_EMPTY_TAGS = len(EMPTY_CELL[0]) + len(EMPTY_CELL[1])
ODS_TEXT_TAGS = sum(len(x) for x in TEXT_CELL)
ODS_COVERED_TAGS = sum(len(x) for x in COVERED_CELL)


def ods_xml(rows):
    """rows: [(row_repeat, [(cell_repeat, text | None | COVERED), ...]), ...]"""
    parts = [ODS_HEAD]
    for rr, cells in rows:
        parts.append(f'{ROW_OPEN}{rr}">')
        for cr, t in cells:
            if t == COVERED:
                parts.append(f"{COVERED_CELL[0]}{cr}{COVERED_CELL[1]}")
            elif t is None:
                parts.append(f"{EMPTY_CELL[0]}{cr}{EMPTY_CELL[1]}")
            else:
                parts.append(f"{TEXT_CELL[0]}{cr}{TEXT_CELL[1]}{t}{TEXT_CELL[2]}")
        parts.append(ROW_CLOSE)
    parts.append(ODS_TAIL)
    return "".join(parts)


def ods_file(rows):
    xml = ods_xml(rows)
    b = io.BytesIO()
    with zipfile.ZipFile(b, "w", zipfile.ZIP_DEFLATED) as z:
        z.writestr("mimetype", "application/vnd.oasis.opendocument.spreadsheet")
        z.writestr("content.xml", xml)
    return b.getvalue(), len(xml.encode())


def ods_extract(rows):
    """-> {"rows","cols","cells","xml_len","file_len"} of the real extractor"""
    from sharepoint2text.parsing.extractors.open_office.ods_extractor import read_ods
    data, xl = ods_file(rows)
    c = list(read_ods(io.BytesIO(data)))[0]
    d = c.sheets[0].data
    return {"rows": len(d), "cols": max((len(r) for r in d), default=0) if d else 0, "cells": sum(len(r) for r in d),
            "xml_len": xl, "file_len": len(data), "ragged": len({len(r) for r in d}) > 1}


def ods_model_request(rows):
    return {"op": "c12.ods", "envelope": ODS_ENVELOPE, "row_tags": ODS_ROW_TAGS, "empty_tags": ODS_EMPTY_TAGS,
            "text_tags": ODS_TEXT_TAGS, "covered_tags": ODS_COVERED_TAGS,
            "rows": [{"rep": rr, "cells": [({"rep": cr, "covered": True} if t == COVERED else
                                            {"rep": cr, "none": t is None, "tlen": 0 if t is None else len(t)}) for cr, t in cells]}
                     for rr, cells in rows]}
