"""C13 builders: element trees <-> wire JSON, minimal DOCX / PPTX / ODF / EPUB / XLSX packages, RTF tables,
and the Python-side reference renderers + ground truth used by the failing-input search (independent of Lean)."""
from __future__ import annotations

import io
import zipfile
from xml.etree import ElementTree as ET

W = "{http://schemas.openxmlformats.org/wordprocessingml/2006/main}"
A = "{http://schemas.openxmlformats.org/drawingml/2006/main}"
P = "{http://schemas.openxmlformats.org/presentationml/2006/main}"
R = "{http://schemas.openxmlformats.org/officeDocument/2006/relationships}"
OFFICE = "{urn:oasis:names:tc:opendocument:xmlns:office:1.0}"
TEXT = "{urn:oasis:names:tc:opendocument:xmlns:text:1.0}"
TABLE = "{urn:oasis:names:tc:opendocument:xmlns:table:1.0}"
DRAW = "{urn:oasis:names:tc:opendocument:xmlns:drawing:1.0}"
PRES = "{urn:oasis:names:tc:opendocument:xmlns:presentation:1.0}"
TABLE_URI = "http://schemas.openxmlformats.org/drawingml/2006/table"


# ----------------------------------------------------------------------------- trees
def et_from_json(n) -> ET.Element:
    tag, attrs, text, kids, tail = n
    e = ET.Element(tag, {k: v for k, v in attrs})
    e.text = text or None
    for k in kids:
        e.append(et_from_json(k))
    e.tail = tail or None
    return e


def json_from_et(e: ET.Element):
    return [e.tag, [[k, v] for k, v in e.attrib.items()], e.text or "", [json_from_et(c) for c in e], e.tail or ""]


def json_from_dict(d: dict):
    """node dict of _HtmlTreeBuilder -> wire node"""
    return [d.get("tag", ""), [[k, v] for k, v in (d.get("attrs") or {}).items()], d.get("text") or "",
            [json_from_dict(c) for c in d.get("children", [])], d.get("tail") or ""]


def dict_from_json(n) -> dict:
    tag, attrs, text, kids, tail = n
    return {"tag": tag, "attrs": {k: v for k, v in attrs}, "text": text, "children": [dict_from_json(k) for k in kids], "tail": tail}


def xml_ok(s: str) -> bool:
    """text that survives an XML round trip unchanged (no control chars, no \\r, no surrogates / non-characters)"""
    for ch in s:
        o = ord(ch)
        if o < 0x20 and ch not in "\t\n":
            return False
        if 0xD800 <= o <= 0xDFFF or o in (0xFFFE, 0xFFFF):
            return False
    return True


def _zip(files) -> bytes:
    b = io.BytesIO()
    with zipfile.ZipFile(b, "w", zipfile.ZIP_DEFLATED) as z:
        for n, d in files:
            z.writestr(n, d if isinstance(d, bytes) else d.encode("utf-8"))
    return b.getvalue()


def _xml(e: ET.Element) -> bytes:
    return b'<?xml version="1.0" encoding="UTF-8" standalone="yes"?>' + ET.tostring(e, encoding="utf-8")


# ----------------------------------------------------------------------------- DOCX
_CT_DOCX = ('<?xml version="1.0"?><Types xmlns="http://schemas.openxmlformats.org/package/2006/content-types">'
            '<Default Extension="rels" ContentType="application/vnd.openxmlformats-package.relationships+xml"/>'
            '<Default Extension="xml" ContentType="application/xml"/>'
            '<Override PartName="/word/document.xml" ContentType="application/vnd.openxmlformats-officedocument.wordprocessingml.document.main+xml"/></Types>')
_RELS_DOCX = ('<?xml version="1.0"?><Relationships xmlns="http://schemas.openxmlformats.org/package/2006/relationships">'
              '<Relationship Id="rId1" Type="http://schemas.openxmlformats.org/officeDocument/2006/relationships/officeDocument" Target="word/document.xml"/></Relationships>')


def docx_package(body: ET.Element) -> bytes:
    doc = ET.Element(W + "document")
    doc.append(body)
    return _zip([("[Content_Types].xml", _CT_DOCX), ("_rels/.rels", _RELS_DOCX), ("word/document.xml", _xml(doc))])


# ----------------------------------------------------------------------------- PPTX
def pptx_package(slides: list[list[ET.Element]]) -> bytes:
    """slides: per slide the list of shape elements put under p:spTree"""
    files = []
    ct = ['<?xml version="1.0"?><Types xmlns="http://schemas.openxmlformats.org/package/2006/content-types">'
          '<Default Extension="rels" ContentType="application/vnd.openxmlformats-package.relationships+xml"/>'
          '<Default Extension="xml" ContentType="application/xml"/>'
          '<Override PartName="/ppt/presentation.xml" ContentType="application/vnd.openxmlformats-officedocument.presentationml.presentation.main+xml"/>']
    rels = ['<?xml version="1.0"?><Relationships xmlns="http://schemas.openxmlformats.org/package/2006/relationships">']
    pres = ET.Element(P + "presentation")
    lst = ET.SubElement(pres, P + "sldIdLst")
    for i, shapes in enumerate(slides, 1):
        ct.append(f'<Override PartName="/ppt/slides/slide{i}.xml" ContentType="application/vnd.openxmlformats-officedocument.presentationml.slide+xml"/>')
        rels.append(f'<Relationship Id="rId{i}" Type="http://schemas.openxmlformats.org/officeDocument/2006/relationships/slide" Target="slides/slide{i}.xml"/>')
        ET.SubElement(lst, P + "sldId", {"id": str(255 + i), R + "id": f"rId{i}"})
        sld = ET.Element(P + "sld")
        tree = ET.SubElement(ET.SubElement(sld, P + "cSld"), P + "spTree")
        for s in shapes:
            tree.append(s)
        files.append((f"ppt/slides/slide{i}.xml", _xml(sld)))
    ct.append("</Types>")
    rels.append("</Relationships>")
    files += [("[Content_Types].xml", "".join(ct)),
              ("_rels/.rels", '<?xml version="1.0"?><Relationships xmlns="http://schemas.openxmlformats.org/package/2006/relationships">'
                              '<Relationship Id="rId1" Type="http://schemas.openxmlformats.org/officeDocument/2006/relationships/officeDocument" Target="ppt/presentation.xml"/></Relationships>'),
              ("ppt/presentation.xml", _xml(pres)), ("ppt/_rels/presentation.xml.rels", "".join(rels))]
    return _zip(files)


# ----------------------------------------------------------------------------- ODF
_ODF_MIME = {"odt": "application/vnd.oasis.opendocument.text", "ods": "application/vnd.oasis.opendocument.spreadsheet",
             "odp": "application/vnd.oasis.opendocument.presentation"}


def odf_package(kind: str, body_child: ET.Element) -> bytes:
    """body_child: office:text / office:spreadsheet / office:presentation"""
    root = ET.Element(OFFICE + "document-content", {OFFICE + "version": "1.2"})
    ET.SubElement(root, OFFICE + "body").append(body_child)
    meta = ('<?xml version="1.0"?><office:document-meta xmlns:office="urn:oasis:names:tc:opendocument:xmlns:office:1.0" '
            'xmlns:dc="http://purl.org/dc/elements/1.1/"><office:meta><dc:title>t</dc:title></office:meta></office:document-meta>')
    styles = '<?xml version="1.0"?><office:document-styles xmlns:office="urn:oasis:names:tc:opendocument:xmlns:office:1.0"/>'
    manifest = ('<?xml version="1.0"?><manifest:manifest xmlns:manifest="urn:oasis:names:tc:opendocument:xmlns:manifest:1.0" manifest:version="1.2">'
                f'<manifest:file-entry manifest:full-path="/" manifest:media-type="{_ODF_MIME[kind]}"/>'
                '<manifest:file-entry manifest:full-path="content.xml" manifest:media-type="text/xml"/></manifest:manifest>')
    b = io.BytesIO()
    with zipfile.ZipFile(b, "w") as z:
        z.writestr(zipfile.ZipInfo("mimetype"), _ODF_MIME[kind])
        for n, d in [("content.xml", _xml(root)), ("meta.xml", meta), ("styles.xml", styles), ("META-INF/manifest.xml", manifest)]:
            z.writestr(n, d, zipfile.ZIP_DEFLATED)
    return b.getvalue()


def odp_presentation(pages: list[list[ET.Element]]) -> ET.Element:
    """pages: per page the list of table:table elements, each put in its own draw:frame"""
    pres = ET.Element(OFFICE + "presentation")
    for i, tables in enumerate(pages, 1):
        page = ET.SubElement(pres, DRAW + "page", {DRAW + "name": f"page{i}"})
        for t in tables:
            ET.SubElement(page, DRAW + "frame").append(t)
    return pres


# ----------------------------------------------------------------------------- EPUB
def epub_package(chapters: list[bytes]) -> bytes:
    items = "".join(f'<item id="c{i}" href="c{i}.xhtml" media-type="application/xhtml+xml"/>' for i in range(len(chapters)))
    spine = "".join(f'<itemref idref="c{i}"/>' for i in range(len(chapters)))
    files = [("META-INF/container.xml", '<?xml version="1.0"?><container version="1.0" xmlns="urn:oasis:names:tc:opendocument:xmlns:container"><rootfiles><rootfile full-path="OEBPS/content.opf" media-type="application/oebps-package+xml"/></rootfiles></container>'),
             ("OEBPS/content.opf", f'<?xml version="1.0"?><package xmlns="http://www.idpf.org/2007/opf" version="3.0" unique-identifier="id"><metadata xmlns:dc="http://purl.org/dc/elements/1.1/"><dc:title>T</dc:title><dc:identifier id="id">x</dc:identifier></metadata><manifest>{items}</manifest><spine>{spine}</spine></package>')]
    files += [(f"OEBPS/c{i}.xhtml", c) for i, c in enumerate(chapters)]
    b = io.BytesIO()
    with zipfile.ZipFile(b, "w") as z:
        z.writestr(zipfile.ZipInfo("mimetype"), "application/epub+zip")
        for n, d in files:
            z.writestr(n, d, zipfile.ZIP_DEFLATED)
    return b.getvalue()


# ----------------------------------------------------------------------------- reference renderers (search oracle)
# abstract block (same shape as the Lean side): ["p", para] | ["t", hdr, rows]; rows = [[cell…]…]; cell = [blk…]
def blk_paras(b):
    if b[0] == "p":
        return [b[1]]
    return [p for row in b[2] for cell in row for x in cell for p in blk_paras(x)]


def blk_tables(b, cell_text):
    """ground truth of the property: own rows x own cells, document order (outer before inner)"""
    if b[0] == "p":
        return []
    out = [[[cell_text([p for x in cell for p in blk_paras(x)]) for cell in row] for row in b[2]]]
    for row in b[2]:
        for cell in row:
            for x in cell:
                out += blk_tables(x, cell_text)
    return out


def docx_para_text(runs):
    return "".join(runs)


def docx_cell_text(paras):
    return "\n".join(docx_para_text(p) for p in paras)


def py_docx_blk(b) -> ET.Element:
    if b[0] == "p":
        p = ET.Element(W + "p")
        for r in b[1]:
            t = ET.SubElement(ET.SubElement(p, W + "r"), W + "t")
            t.text = r
            if r != r.strip():
                t.set("{http://www.w3.org/XML/1998/namespace}space", "preserve")
        return p
    tbl = ET.Element(W + "tbl")
    ET.SubElement(tbl, W + "tblPr")
    grid = ET.SubElement(tbl, W + "tblGrid")
    for _ in range(max((len(r) for r in b[2]), default=0)):
        ET.SubElement(grid, W + "gridCol")
    for i, row in enumerate(b[2]):
        tr = ET.SubElement(tbl, W + "tr")
        if i < b[1]:
            ET.SubElement(ET.SubElement(tr, W + "trPr"), W + "tblHeader")
        for cell in row:
            tc = ET.SubElement(tr, W + "tc")
            ET.SubElement(tc, W + "tcPr")
            for x in cell:
                tc.append(py_docx_blk(x))
    return tbl


def py_docx_body(doc) -> ET.Element:
    body = ET.Element(W + "body")
    for b in doc:
        body.append(py_docx_blk(b))
    ET.SubElement(body, W + "sectPr")
    return body


# ODF paragraph: [lead, [piece…]]; piece = ["span", s, tail] | ["s", tail] | ["tab", tail] | ["br", tail]
def odf_para_text(p):
    out = p[0]
    for pc in p[1]:
        if pc[0] == "span":
            out += pc[1] + pc[2]
        else:
            out += {"s": " ", "tab": "\t", "br": "\n"}[pc[0]] + pc[1]
    return out


def odf_cell_text(paras):
    return "\n".join(odf_para_text(p) for p in paras)


def py_odf_para(p) -> ET.Element:
    e = ET.Element(TEXT + "p")
    e.text = p[0] or None
    for pc in p[1]:
        c = ET.SubElement(e, TEXT + {"span": "span", "s": "s", "tab": "tab", "br": "line-break"}[pc[0]])
        if pc[0] == "span":
            c.text = pc[1] or None
            c.tail = pc[2] or None
        else:
            c.tail = pc[1] or None
    return e


def py_odf_blk(b, name=[0]) -> ET.Element:
    if b[0] == "p":
        return py_odf_para(b[1])
    name[0] += 1
    tbl = ET.Element(TABLE + "table", {TABLE + "name": f"T{name[0]}"})
    ET.SubElement(tbl, TABLE + "table-column", {TABLE + "number-columns-repeated": str(max((len(r) for r in b[2]), default=1))})
    hdr = None
    for i, row in enumerate(b[2]):
        parent = tbl
        if i < b[1]:
            if hdr is None:
                hdr = ET.SubElement(tbl, TABLE + "table-header-rows")
            parent = hdr
        tr = ET.SubElement(parent, TABLE + "table-row")
        for cell in row:
            tc = ET.SubElement(tr, TABLE + "table-cell", {OFFICE + "value-type": "string"})
            for x in cell:
                tc.append(py_odf_blk(x))
    return tbl


def py_odt_body(doc) -> ET.Element:
    body = ET.Element(OFFICE + "text")
    for b in doc:
        body.append(py_odf_blk(b))
    return body


# PPTX table: rows of cells of paragraphs of pieces ["r", s] | ["f", s] | ["br"]
def pptx_cell_text(cell):
    return "\n".join("".join("\x0b" if pc[0] == "br" else pc[1] for pc in p) for p in cell)


def py_pptx_frame(t, y=None) -> ET.Element:
    fr = ET.Element(P + "graphicFrame")
    ET.SubElement(fr, P + "nvGraphicFramePr")
    if y is not None:
        ET.SubElement(ET.SubElement(fr, P + "xfrm"), A + "off", {"x": "0", "y": str(y)})
    gd = ET.SubElement(ET.SubElement(fr, A + "graphic"), A + "graphicData", {"uri": TABLE_URI})
    tbl = ET.SubElement(gd, A + "tbl")
    ET.SubElement(tbl, A + "tblPr")
    ET.SubElement(tbl, A + "tblGrid")
    for row in t:
        tr = ET.SubElement(tbl, A + "tr")
        for cell in row:
            tc = ET.SubElement(tr, A + "tc")
            body = ET.SubElement(tc, A + "txBody")
            ET.SubElement(body, A + "bodyPr")
            for p in cell:
                pe = ET.SubElement(body, A + "p")
                for pc in p:
                    if pc[0] == "br":
                        ET.SubElement(pe, A + "br")
                    else:
                        r = ET.SubElement(pe, A + ("r" if pc[0] == "r" else "fld"))
                        if pc[0] == "r":
                            ET.SubElement(r, A + "rPr")
                        ET.SubElement(r, A + "t").text = pc[1]
            ET.SubElement(tc, A + "tcPr")
    return fr


# HTML / EPUB: block = ["p", [text fragments…]] | ["t", hdr, rows]; a paragraph is written <p>f1<b>f2</b>…</p>
def _esc(s):
    return s.replace("&", "&amp;").replace("<", "&lt;").replace(">", "&gt;")


def html_words(paras):
    """words of the paragraphs (a paragraph's fragments are glued, paragraphs are apart)"""
    return " ".join(w for p in paras for w in "".join(p).split())


def py_html_blk(b, xhtml=False, wrap=True, bare=False, in_cell=False, alone=False) -> str:
    """bare=True: a cell holding a single paragraph is written without the <p> element"""
    if b[0] == "p":
        inner = "".join(_esc(f) if i % 2 == 0 else f"<b>{_esc(f)}</b>" for i, f in enumerate(b[1]))
        return inner if (bare and in_cell and alone) else f"<p>{inner}</p>"
    rows = []
    for i, row in enumerate(b[2]):
        tag = "th" if i < b[1] else "td"
        rows.append("<tr>" + "".join(
            f"<{tag}>" + "".join(py_html_blk(x, xhtml, wrap, bare, True, len(cell) == 1) for x in cell) + f"</{tag}>" for cell in row) + "</tr>")
    if wrap and b[1] > 0:
        return "<table><thead>" + "".join(rows[:b[1]]) + "</thead><tbody>" + "".join(rows[b[1]:]) + "</tbody></table>"
    return "<table>" + "".join(rows) + "</table>"


def py_html_doc(doc, xhtml=False, bare=False) -> bytes:
    body = "".join(py_html_blk(b, xhtml, True, bare) for b in doc)
    if xhtml:
        return ('<?xml version="1.0" encoding="utf-8"?><html xmlns="http://www.w3.org/1999/xhtml"><head><title>c</title></head><body>'
                + body + "</body></html>").encode("utf-8")
    return ('<!DOCTYPE html><html><head><meta charset="utf-8"><title>t</title></head><body>' + body + "</body></html>").encode("utf-8")


# ----------------------------------------------------------------------------- RTF
def _rtf_esc(s):
    out = []
    for ch in s:
        if ch in "\\{}":
            out.append("\\" + ch)
        elif ord(ch) < 128:
            out.append(ch)
        else:
            o = ord(ch)
            units = [o] if o < 0x10000 else [0xD800 + (o - 0x10000) // 1024, 0xDC00 + (o - 0x10000) % 1024]
            for u in units:
                out.append("\\u%d?" % (u if u < 32768 else u - 65536))
    return "".join(out)


def rtf_table(rows) -> str:
    s = []
    for r in rows:
        s.append("\\trowd" + "".join(f"\\cellx{1500 * (i + 1)}" for i in range(len(r))) + " "
                 + "".join("\\pard\\intbl " + "\\par ".join(_rtf_esc(p) for p in c) + "\\cell " for c in r) + "\\row\n")
    return "".join(s)


def rtf_doc(blocks) -> bytes:
    """blocks: ["p", text] | ["t", rows] with rows of cells of paragraph strings"""
    out = ["{\\rtf1\\ansi\\deff0 {\\fonttbl{\\f0 Times New Roman;}}\n"]
    for b in blocks:
        if b[0] == "p":
            out.append("\\pard " + _rtf_esc(b[1]) + "\\par\n")
        else:
            out.append(rtf_table(b[1]))
    out.append("}")
    return "".join(out).encode("ascii")


def rtf_text(blocks) -> str:
    return rtf_doc(blocks).decode("ascii")
