"""C01 input builder: WELL-FORMED hostile structure inside a valid container.

The byte-level and container-aware mutators of harness/corpus.py either break the XML of a member or replace
it; code that walks *references between elements* (style inheritance w:basedOn / style:parent-style-name,
w:next / w:link, list and numbering links, NCX/OPF idrefs, package relationships slide -> layout -> master)
only meets the graphs real writers produce: trees.  This module derives, from the documents themselves,
every reference relation that is visible in an XML part and rewires it:

* an *id site* is a pair (element tag, attribute) whose values are non-empty and pairwise distinct in the part;
  its elements are the *entities*;
* a *ref site* of it is a pair (tag', attribute') != id site such that some entity has a descendant-or-self
  element carrying attribute' with the id of an entity of the same id site as its value, and at least half of the
  values found at (tag', attribute') in the part are such ids;
* mutants per (id site, ref site):  reference cycles of length 1, 2, 3 and through ALL entities, every entity referring
  to itself, neighbouring entities referring to each other (entities that lack the referring element get a copy of it), each also in a "bare" variant in which the entities on the
  cycle keep only their referring children (so optional children such as a display name are absent — the
  state in which fallback / inheritance code actually follows the reference); a dangling reference; a
  duplicated id; an empty id;
* package level (OPC `_rels/*.rels`): a relationship of every used type from a part to itself, and the reverse
  relationship for every internal relationship (A -> B gets B -> A), i.e. cycles in the part graph.

Nothing here knows tag or attribute names: a reference relation introduced by a future writer of fixtures or a
new fixture is picked up automatically.  The XML is re-serialised with the prefixes of the original part.
"""
from __future__ import annotations

import copy
import io
import posixpath
import zipfile
from xml.etree import ElementTree as ET

MAX_PART = 400_000        # bytes of one XML part that is analysed
MAX_ELEMS = 60_000        # elements of one part
MAX_ID_LEN = 80
MAX_REL_PER_PART = 10   # relations of one part that are rewired (those with most edges first)
MAX_REL_FULL = 48       # relations of one container in the exhaustive plan of the quick tier


# ----------------------------------------------------------------------------- parse / serialise with the original prefixes
def parse_part(data: bytes):
    """-> (root, {uri: prefix}) | None"""
    if len(data) > MAX_PART or b"<!DOCTYPE" in data[:2000] or b"<!ENTITY" in data[:4000]:
        return None
    ns: dict[str, str] = {}
    root = None
    n = 0
    try:
        for ev, x in ET.iterparse(io.BytesIO(data), events=("start-ns", "start")):
            if ev == "start-ns":
                pfx, uri = x
                if uri not in ns or (ns[uri] == "" and pfx):
                    ns[uri] = pfx
            else:
                n += 1
                if n > MAX_ELEMS:
                    return None
                if root is None:
                    root = x
    except Exception:  # noqa — not XML
        return None
    if root is None:
        return None
    return root, ns


def _esc(s: str, attr: bool) -> str:
    s = s.replace("&", "&amp;").replace("<", "&lt;").replace(">", "&gt;")
    if attr:
        s = s.replace('"', "&quot;").replace("\n", "&#10;").replace("\r", "&#13;").replace("\t", "&#9;")
    return s


def serialise(root, ns: dict[str, str]) -> bytes:
    """namespace declarations all on the root, prefixes as in the original part"""
    used: dict[str, str] = {}          # uri -> prefix actually used
    taken = set()
    default_uri = next((u for u, p in ns.items() if p == ""), None)

    def prefix_for(uri: str, is_attr: bool) -> str:
        if uri == "http://www.w3.org/XML/1998/namespace":
            return "xml"
        if not is_attr and uri == default_uri:
            used.setdefault(uri + "\0default", "")
            return ""
        key = uri
        if key in used:
            return used[key]
        p = ns.get(uri, "")
        if not p or p in taken:
            i = 0
            while f"ns{i}" in taken or f"ns{i}" in ns.values():
                i += 1
            p = f"ns{i}"
        taken.add(p)
        used[key] = p
        return p

    def qn(tag: str, is_attr: bool) -> str:
        if tag[:1] == "{":
            uri, local = tag[1:].split("}", 1)
            p = prefix_for(uri, is_attr)
            return f"{p}:{local}" if p else local
        return tag

    out: list[str] = []

    def walk(e, is_root):
        if not isinstance(e.tag, str):       # comment / PI
            return
        name = qn(e.tag, False)
        attrs = "".join(f' {qn(k, True)}="{_esc(v, True)}"' for k, v in e.attrib.items())
        out.append(f"<{name}{attrs}")
        if is_root:
            out.append("\0NS\0")
        kids = list(e)
        if not kids and not (e.text or ""):
            out.append("/>")
        else:
            out.append(">")
            if e.text:
                out.append(_esc(e.text, False))
            for k in kids:
                walk(k, False)
                if k.tail:
                    out.append(_esc(k.tail, False))
            out.append(f"</{name}>")

    walk(root, True)
    decl = ""
    if default_uri is not None and (default_uri + "\0default") in used:
        decl += f' xmlns="{_esc(default_uri, True)}"'
    for uri, p in used.items():
        if uri.endswith("\0default"):
            continue
        decl += f' xmlns:{p}="{_esc(uri, True)}"'
    # prefixes that only occur inside attribute VALUES (mc:Ignorable="w14 wp14") stay declared
    for uri, p in ns.items():
        if p and uri not in used and p not in taken:
            decl += f' xmlns:{p}="{_esc(uri, True)}"'
    body = "".join(out).replace("\0NS\0", decl, 1)
    return b'<?xml version="1.0" encoding="UTF-8" standalone="yes"?>\n' + body.encode("utf-8")


# ----------------------------------------------------------------------------- reference relations of one part
def relations(root):
    """-> [((idtag, idattr), (reftag, refattr), n_edges)] sorted by n_edges desc, then name"""
    sites: dict[tuple, list] = {}
    for e in root.iter():
        if not isinstance(e.tag, str):
            continue
        for k, v in e.attrib.items():
            sites.setdefault((e.tag, k), []).append(v)
    id_sites = {}
    for s, vals in sites.items():
        if all(v and len(v) <= MAX_ID_LEN for v in vals) and len(set(vals)) == len(vals):
            id_sites[s] = set(vals)
    rels: dict[tuple, int] = {}
    by_tag: dict[str, list] = {}
    for s in id_sites:
        by_tag.setdefault(s[0], []).append(s)
    for ent in root.iter():
        if not isinstance(ent.tag, str) or ent.tag not in by_tag:
            continue
        for s in by_tag[ent.tag]:
            ids = id_sites[s]
            for d in ent.iter():
                if not isinstance(d.tag, str):
                    continue
                for k, v in d.attrib.items():
                    if v in ids and not (d is ent and k == s[1]):
                        rels[(s, (d.tag, k))] = rels.get((s, (d.tag, k)), 0) + 1
    # a ref site must mostly hold ids of that id site (drops coincidences such as sz="1" next to id="1")
    out = []
    for (s, r), n in rels.items():
        vals = sites.get(r, [])
        inside = sum(1 for v in vals if v in id_sites[s])
        if vals and 2 * inside >= len(vals):
            out.append((s, r, n))
    return sorted(out, key=lambda x: (-x[2], x[0], x[1]))


def _entities(root, s):
    return [e for e in root.iter(s[0]) if s[1] in e.attrib]


def _ref_elems(ent, r):
    return [d for d in ent.iter(r[0]) if r[1] in d.attrib]


def _ensure_ref(ent, r, template):
    """the element of `ent` that carries the reference (a copy of `template` is appended when there is none)"""
    ds = _ref_elems(ent, r)
    if ds:
        return ds[0]
    if template is None:
        return None
    if template.tag == ent.tag:          # reference is an attribute of the entity itself
        ent.set(r[1], "")
        return ent
    c = copy.deepcopy(template)
    c.tail = None
    ent.insert(0, c)
    return c


def mutate_part(data: bytes, s, r, op: str, rng=None):
    """one mutant of one part for (id site s, ref site r); op = cycle1|cycle2|cycle3|cycleall [+bare] | dangling | dupid | emptyid"""
    pr = parse_part(data)
    if pr is None:
        return None
    root, ns = pr
    ents = _entities(root, s)
    if not ents:
        return None
    with_ref = [e for e in ents if _ref_elems(e, r)]
    template = None
    if with_ref:
        template = with_ref[0] if r[0] == s[0] and r[1] in with_ref[0].attrib else _ref_elems(with_ref[0], r)[0]
    bare = op.endswith("+bare")
    base = op.split("+")[0]
    if base in ("selfall", "pairs"):
        # every entity on a cycle of its own (selfall) / with its neighbour (pairs): whatever other condition the following code
        # puts on the entities of a chain (a type, a missing child), some cycle consists of entities that meet it
        for i, e in enumerate(ents):
            j = i if base == "selfall" else (i + 1 if i % 2 == 0 and i + 1 < len(ents) else (i - 1 if i % 2 == 1 else i))
            d = _ensure_ref(e, r, template)
            if d is None:
                return None
            for dd in _ref_elems(e, r) or [d]:
                dd.set(r[1], ents[j].get(s[1]))
    elif base.startswith("cycle"):
        k = len(ents) if base == "cycleall" else int(base[5:])
        order = with_ref + [e for e in ents if e not in with_ref]
        if rng is not None and len(order) > k:
            start = rng.randrange(len(order))
            order = order[start:] + order[:start]
        ring = order[:k]
        if len(ring) < min(k, 2) and k > 1:
            return None
        for i, e in enumerate(ring):
            nxt = ring[(i + 1) % len(ring)]
            d = _ensure_ref(e, r, template)
            if d is None:
                return None
            for dd in _ref_elems(e, r) or [d]:
                dd.set(r[1], nxt.get(s[1]))
            if bare:
                keep = set(id(x) for dd in _ref_elems(e, r) for x in [dd])
                for ch in list(e):
                    if id(ch) not in keep and not any(id(x) in keep for x in ch.iter()):
                        e.remove(ch)
    elif base == "dangling":
        for e in with_ref[:3]:
            for dd in _ref_elems(e, r):
                dd.set(r[1], "«no-such-id»")
    elif base == "dupid":
        if len(ents) < 2:
            return None
        ents[1].set(s[1], ents[0].get(s[1]))
    elif base == "emptyid":
        (with_ref or ents)[0].set(s[1], "")
    else:
        return None
    return serialise(root, ns)


CYCLE_OPS = ["cycle1", "cycle1+bare", "cycle2", "cycle2+bare", "cycle3+bare", "cycleall", "cycleall+bare", "selfall", "pairs"]
OTHER_OPS = ["dangling", "dupid", "emptyid"]


# ----------------------------------------------------------------------------- containers
def _read_zip(b: bytes):
    try:
        zin = zipfile.ZipFile(io.BytesIO(b))
        members = []
        total = 0
        for info in zin.infolist():
            if info.file_size > 5_000_000:
                return None
            total += info.file_size
            if total > 30_000_000:
                return None
            members.append((info.filename, zin.read(info), info.compress_type))
        return members
    except Exception:  # noqa
        return None


def _write_zip(members) -> bytes:
    out = io.BytesIO()
    with zipfile.ZipFile(out, "w", zipfile.ZIP_DEFLATED) as z:
        for name, data, ctype in members:
            z.writestr(name, data, compress_type=zipfile.ZIP_STORED if name == "mimetype" else zipfile.ZIP_DEFLATED)
    return out.getvalue()


def _looks_xml(name: str, data: bytes) -> bool:
    head = data[:200].lstrip(b"\xef\xbb\xbf \r\n\t")
    return head.startswith(b"<") and not name.lower().endswith((".png", ".jpg", ".jpeg", ".gif", ".emf", ".wmf", ".bin"))


def zip_relation_sites(b: bytes, max_parts=40):
    """[(member name, id site, ref site, n_edges)] for every XML member of a ZIP container"""
    members = _read_zip(b)
    out = []
    if not members:
        return out
    for name, data, _ in members[: 4 * max_parts]:
        if name.endswith(".rels") or not _looks_xml(name, data):
            continue
        pr = parse_part(data)
        if pr is None:
            continue
        for s, r, n in relations(pr[0])[:MAX_REL_PER_PART]:
            out.append((name, s, r, n))
    return out


def zip_mutant(b: bytes, member: str, s, r, op: str, rng=None):
    members = _read_zip(b)
    if not members:
        return None
    res = []
    hit = False
    for name, data, ct in members:
        if name == member and not hit:
            m = mutate_part(data, tuple(s), tuple(r), op, rng)
            if m is None:
                return None
            data = m
            hit = True
        res.append((name, data, ct))
    return _write_zip(res) if hit else None


# ----------------------------------------------------------------------------- OPC relationship cycles
_RELNS = "http://schemas.openxmlformats.org/package/2006/relationships"


def _rels_owner(rels_name: str) -> str:
    d, f = posixpath.split(rels_name)
    return posixpath.join(posixpath.dirname(d), f[:-5])      # a/_rels/x.xml.rels -> a/x.xml


def _rels_of(part: str) -> str:
    d, f = posixpath.split(part)
    return posixpath.join(d, "_rels", f + ".rels")


def opc_cycle_mutants(b: bytes, limit=12):
    """[(label, bytes)]: self relationships and reversed relationships between parts of an OPC package"""
    members = _read_zip(b)
    if not members:
        return []
    names = {n for n, _, _ in members}
    rels = {}
    for n, d, _ in members:
        if n.endswith(".rels") and "/_rels/" in "/" + n:
            pr = parse_part(d)
            if pr is not None:
                rels[n] = pr
    out = []

    def rebuild(changed: dict):
        res = [(n, changed.pop(n) if n in changed else d, c) for n, d, c in members]
        res += [(n, d, zipfile.ZIP_DEFLATED) for n, d in changed.items()]
        return _write_zip(res)

    def add_rel(root, typ, target):
        ids = {e.get("Id") for e in root}
        i = 900
        while f"rId{i}" in ids:
            i += 1
        ET.SubElement(root, f"{{{_RELNS}}}Relationship", {"Id": f"rId{i}", "Type": typ, "Target": target})

    for rn, (root, ns) in sorted(rels.items()):
        owner = _rels_owner(rn)
        if owner not in names:
            continue
        base = posixpath.dirname(owner)
        internal = [(e.get("Type") or "", e.get("Target") or "") for e in root if (e.get("TargetMode") or "") != "External"]
        # (i) self relationship of every used type; also every existing internal relationship redirected to the owner
        r2 = copy.deepcopy(root)
        for typ in sorted({t for t, _ in internal}):
            add_rel(r2, typ, posixpath.basename(owner))
        out.append((f"opc-self:{owner}", rebuild({rn: serialise(r2, ns)})))
        r3 = copy.deepcopy(root)
        for e in r3:
            if (e.get("TargetMode") or "") != "External":
                e.set("Target", posixpath.basename(owner))
        out.append((f"opc-all-to-self:{owner}", rebuild({rn: serialise(r3, ns)})))
        # (ii) reverse edges
        for typ, tgt in internal[:6]:
            q = posixpath.normpath(posixpath.join(base, tgt)) if not tgt.startswith("/") else tgt.lstrip("/")
            if q not in names or q == owner:
                continue
            qr = _rels_of(q)
            if qr in rels:
                qroot, qns = copy.deepcopy(rels[qr][0]), rels[qr][1]
            else:
                qroot, qns = ET.Element(f"{{{_RELNS}}}Relationships"), {_RELNS: ""}
            back = posixpath.relpath(owner, posixpath.dirname(q))
            add_rel(qroot, typ, back)
            out.append((f"opc-reverse:{owner}<->{q}", rebuild({qr: serialise(qroot, qns)})))
        if len(out) >= 4 * limit:
            break
    return out[: 4 * limit]


# ----------------------------------------------------------------------------- the stream
def plan(rng, fixtures, exhaustive: bool, per_container: int):
    """-> [(label, fixture name, builder thunk)].  `fixtures` = [(name, bytes)] of ZIP containers.  For the first
    (smallest) fixture of every extension every (relation x cycle op) is planned; for the others `per_container`
    relations are drawn.  exhaustive: everything for every fixture."""
    out = []
    seen_ext = set()
    for name, data in sorted(fixtures, key=lambda x: (len(x[1]), x[0])):
        ext = name.rsplit(".", 1)[-1].lower()
        sites = zip_relation_sites(data)
        if not sites:
            continue
        full = exhaustive or ext not in seen_ext
        seen_ext.add(ext)
        if exhaustive:
            chosen = sites
        elif full:
            # round-robin over the parts so that every part's strongest relations come first
            by_part = {}
            for x in sites:
                by_part.setdefault(x[0], []).append(x)
            chosen = []
            i = 0
            while len(chosen) < min(MAX_REL_FULL, len(sites)):
                for lst in by_part.values():
                    if i < len(lst) and len(chosen) < MAX_REL_FULL:
                        chosen.append(lst[i])
                i += 1
        else:
            chosen = rng.sample(sites, min(per_container, len(sites)))
        for member, s, r, n in chosen:
            ops = CYCLE_OPS + OTHER_OPS if full else [rng.choice(CYCLE_OPS), rng.choice(CYCLE_OPS + OTHER_OPS)]
            for op in ops:
                lab = f"xmlgraph[{op}]:{name}:{member}:{s[0].split('}')[-1]}@{s[1].split('}')[-1]}<-{r[0].split('}')[-1]}@{r[1].split('}')[-1]}"
                out.append((lab, name, {"fixture": name, "member": member, "id": list(s), "ref": list(r), "op": op}))
        opc = opc_cycle_mutants(data, limit=100 if full else 2)
        if not full:
            opc = rng.sample(opc, min(3, len(opc)))
        for lab, mb in opc:
            out.append((f"xmlgraph[{lab.split(':')[0]}]:{name}:{lab.split(':', 1)[1]}", name, mb))
    return out


# ----------------------------------------------------------------------------- references the fixtures do not contain
def source_names(module_name: str):
    """XML names the CURRENT source of an extractor module knows: module-level string constants in Clark notation
    ('{uri}local') and plain attribute / element names passed as string literals to .get / .find / .findall / .iter"""
    import ast
    import importlib
    import inspect
    import re
    mod = importlib.import_module(module_name)
    names = set()
    for v in vars(mod).values():
        if isinstance(v, str) and re.fullmatch(r"\{[^{}]+\}[A-Za-z_][\w.\-]*", v):
            names.add(v)
    try:
        tree = ast.parse(inspect.getsource(mod))
    except Exception:  # noqa
        return sorted(names)
    for n in ast.walk(tree):
        if isinstance(n, ast.Call) and isinstance(n.func, ast.Attribute) and n.func.attr in ("get", "find", "findall", "iter", "findtext") and n.args:
            a = n.args[0]
            if isinstance(a, ast.Constant) and isinstance(a.value, str):
                for piece in re.split(r"[/\[\]@=']+", a.value):
                    piece = piece.replace("{*}", "")
                    if re.fullmatch(r"(\{[^{}]+\})?[A-Za-z_][\w.\-]{1,40}", piece):
                        names.add(piece)
    return sorted(names)


def inject_part(data: bytes, s, name: str, form: str, val_attr: str | None):
    """every entity of id site `s` gets a NEW reference `name` (form 'attr': attribute of the entity; form 'child': first child
    element <name val_attr=.../>) whose values run once around all entities (one cycle; a single entity refers to itself); form suffix '-self': every entity refers to
    itself, '-pairs': neighbours refer to each other"""
    pr = parse_part(data)
    if pr is None:
        return None
    root, ns = pr
    ents = _entities(root, tuple(s))
    if not ents:
        return None
    uri = s[0][1:].split("}")[0] if s[0][:1] == "{" else None
    if name[:1] != "{" and uri and form == "child":
        name = f"{{{uri}}}{name}"
    shape = "ring"
    if "-" in form:
        form, shape = form.split("-", 1)
    for i, e in enumerate(ents):
        if shape == "self":
            j = i
        elif shape == "pairs":
            j = i + 1 if i % 2 == 0 and i + 1 < len(ents) else (i - 1 if i % 2 == 1 else i)
        else:
            j = (i + 1) % len(ents)
        nxt = ents[j].get(s[1])
        if form == "attr":
            e.set(name, nxt)
        else:
            for old in list(e.findall(name)):
                e.remove(old)
            c = ET.Element(name, {val_attr or "val": nxt})
            e.insert(0, c)
    return serialise(root, ns)


def loop_names(module_name: str):
    """XML names used inside the functions of the module that contain a `while` statement or a loop with a self-feeding lookup
    (`v = M[v]`, `v = M.get(v)`) — the names a reference-following loop of the CURRENT source can be reading"""
    import ast
    import importlib
    import inspect
    import re
    mod = importlib.import_module(module_name)
    try:
        tree = ast.parse(inspect.getsource(mod))
    except Exception:  # noqa
        return []
    names = set()
    for fn in ast.walk(tree):
        if not isinstance(fn, (ast.FunctionDef, ast.AsyncFunctionDef)):
            continue
        if not any(isinstance(n, ast.While) for n in ast.walk(fn)):
            continue
        for n in ast.walk(fn):
            v = None
            if isinstance(n, ast.Name):
                v = vars(mod).get(n.id)
            elif isinstance(n, ast.Constant):
                v = n.value
            if isinstance(v, str) and re.fullmatch(r"(\{[^{}]+\})?[A-Za-z_][\w.\-]{1,40}", v.replace("{*}", "")):
                names.add(v.replace("{*}", ""))
    return sorted(names)


def inject_plan(fixtures, module_of, max_per_container=400, focus_only=False):
    """[(label, fixture name, spec)] — for the smallest fixture of every extension: (XML member x id site x name known to the
    extractor's source x form).  Used by the failing-input search when a termination obligation broke."""
    out = []
    seen_ext = set()
    cache = {}
    for name, data in sorted(fixtures, key=lambda x: (len(x[1]), x[0])):
        ext = name.rsplit(".", 1)[-1].lower()
        # the loop-directed names go into EVERY fixture (entities of another fixture may meet a side condition the smallest one
        # does not: a media type, a missing child); the undirected dictionary only into the smallest fixture of each extension
        only_focus = focus_only or ext in seen_ext
        members = _read_zip(data)
        if not members:
            continue
        seen_ext.add(ext)
        mod = module_of(name)
        if mod not in cache:
            try:
                focus = loop_names(mod)
                cache[mod] = (focus, [x for x in source_names(mod) if x not in focus])
            except Exception:  # noqa
                cache[mod] = ([], [])
        focus, rest = cache[mod]
        n = 0
        first = []
        for member, mdata, _ in members:
            if member.endswith(".rels") or not _looks_xml(member, mdata):
                continue
            pr = parse_part(mdata)
            if pr is None:
                continue
            root = pr[0]
            id_sites = {}
            for e in root.iter():
                if isinstance(e.tag, str):
                    for k, v in e.attrib.items():
                        id_sites.setdefault((e.tag, k), []).append(v)
            id_sites = [s for s, vals in id_sites.items() if all(v and len(v) <= MAX_ID_LEN for v in vals) and len(set(vals)) == len(vals)]
            # prefer attributes that look like identifiers
            id_sites.sort(key=lambda s: (0 if any(t in s[1].lower() for t in ("id", "name")) else 1, s))
            for s in id_sites[:6]:
                uri = s[1][1:].split("}")[0] if s[1][:1] == "{" else None
                val_attr = f"{{{uri}}}val" if uri else "val"
                for nm in focus[:40]:
                    for form in ("attr", "child", "attr-self", "child-self", "attr-pairs", "child-pairs"):
                        first.append((f"xmlgraph[inject-{form}]:{name}:{member}:{s[0].split('}')[-1]}@{s[1].split('}')[-1]}<-{nm.split('}')[-1]}", name,
                                      {"fixture": name, "member": member, "id": list(s), "inject": nm, "form": form, "val_attr": val_attr}))
                for nm in ([] if only_focus else rest):
                    for form in ("attr", "child", "attr-self"):
                        if n >= max_per_container:
                            break
                        out.append((f"xmlgraph[inject-{form}]:{name}:{member}:{s[0].split('}')[-1]}@{s[1].split('}')[-1]}<-{nm.split('}')[-1]}", name,
                                    {"fixture": name, "member": member, "id": list(s), "inject": nm, "form": form, "val_attr": val_attr}))
                        n += 1
        out[:0] = first[:2000]
    return out


def zip_inject(b: bytes, spec):
    members = _read_zip(b)
    if not members:
        return None
    res, hit = [], False
    for name, data, ct in members:
        if name == spec["member"] and not hit:
            m = inject_part(data, spec["id"], spec["inject"], spec["form"], spec.get("val_attr"))
            if m is None:
                return None
            data, hit = m, True
        res.append((name, data, ct))
    return _write_zip(res) if hit else None
