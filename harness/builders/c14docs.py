"""C14 reference writers: raster image files with hand-built headers, and minimal DOCX / PPTX / XLSX /
ODT / ODP / ODS / ODG / EPUB / RTF / PDF documents that place images on units.

A document is described by a *spec* (plain JSON, so it can be stored in a replay file):

  {"fmt": "pptx",
   "media": {"<zip member name>": {"kind": "png", "w": 3, "h": 4, "tail": "<hex>"} , ...},
   "units": [[anchor, ...], ...],          # one list per slide / sheet / page / paragraph / chapter
   "opts": {...}}                           # format-specific knobs (rels order, anchor kinds, ...)

  anchor = {"t": "embed", "part": "<zip member name>", "ref": "<the reference text written into the document>"}
         | {"t": "missing", "ref": "<reference to a member that is not in the package>"}
         | {"t": "external", "ref": "http://..."}

`ground_truth(spec)` gives what the property statement says iterate_images() must return.
"""
from __future__ import annotations

import io
import struct
import zipfile
import zlib

# ----------------------------------------------------------------------------- raster files
CTYPE = {"png": "image/png", "jpeg": "image/jpeg", "jpg": "image/jpeg", "gif": "image/gif", "bmp": "image/bmp"}
SOF_MARKERS = (0xC0, 0xC1, 0xC2, 0xC3, 0xC5, 0xC6, 0xC7, 0xC9, 0xCA, 0xCB, 0xCD, 0xCE, 0xCF)


JP2_SIGNATURE = b"\x00\x00\x00\x0cjP  \r\n\x87\n"


def png(w, h, tail=b""):
    ihdr = b"IHDR" + struct.pack(">II", w, h) + b"\x08\x02\x00\x00\x00"
    return b"\x89PNG\r\n\x1a\n" + struct.pack(">I", 13) + ihdr + struct.pack(">I", zlib.crc32(ihdr)) + tail


def gif(w, h, tail=b"", ver=b"GIF89a"):
    return ver + struct.pack("<HH", w, h) + b"\x00\x00\x00" + tail


def bmp(w, h, tail=b"", top_down=False):
    hh = -h if top_down else h
    return b"BM" + struct.pack("<IHHI", 54 + len(tail), 0, 0, 54) + struct.pack("<Iii", 40, w, hh) + struct.pack("<HHIIiiII", 1, 24, 0, 0, 2835, 2835, 0, 0) + tail


def jpeg(w, h, tail=b"", segs=None, sof=0xC0):
    """SOI, the given non-SOF segments [(marker, payload)], one SOF segment, then `tail`."""
    out = b"\xff\xd8"
    for m, p in (segs if segs is not None else [(0xE0, b"JFIF\x00\x01\x01\x00\x00\x01\x00\x01\x00\x00")]):
        out += bytes([0xFF, m]) + struct.pack(">H", len(p) + 2) + p
    body = b"\x08" + struct.pack(">HH", h, w) + b"\x03\x01\x11\x00\x02\x11\x01\x03\x11\x01"
    out += bytes([0xFF, sof]) + struct.pack(">H", len(body) + 2) + body
    return out + tail


def image_bytes(m: dict) -> bytes:
    tail = bytes.fromhex(m.get("tail", ""))
    k = m["kind"]
    if k == "png":
        return png(m["w"], m["h"], tail)
    if k == "gif":
        return gif(m["w"], m["h"], tail, ver=m.get("ver", "GIF89a").encode())
    if k == "bmp":
        return bmp(m["w"], m["h"], tail, top_down=m.get("top_down", False))
    if k in ("jpeg", "jpg"):
        segs = [(a, bytes.fromhex(b)) for a, b in m["segs"]] if "segs" in m else None
        return jpeg(m["w"], m["h"], tail, segs=segs, sof=m.get("sof", 0xC0))
    if k == "raw":
        return tail
    if k == "jp2":      # JPEG 2000 file: signature box, file-type box, then `tail`
        return JP2_SIGNATURE + b"\x00\x00\x00\x14ftypjp2 \x00\x00\x00\x00jp2 " + tail
    raise ValueError(k)


def ext_ctype(name: str) -> str:
    ext = name.rsplit(".", 1)[-1].lower()
    return CTYPE.get(ext, "image/" + ext)


# ----------------------------------------------------------------------------- helpers
def _x(s):
    return s.replace("&", "&amp;").replace("<", "&lt;").replace(">", "&gt;").replace('"', "&quot;")


REL_NS = "http://schemas.openxmlformats.org/package/2006/relationships"
R_NS = "http://schemas.openxmlformats.org/officeDocument/2006/relationships"
IMG_T = R_NS + "/image"
A_NS = "http://schemas.openxmlformats.org/drawingml/2006/main"


def _rels(rels):
    return (f'<?xml version="1.0" encoding="UTF-8"?><Relationships xmlns="{REL_NS}">'
            + "".join(f'<Relationship Id="{_x(i)}" Type="{_x(t)}" Target="{_x(tg)}"' + (' TargetMode="External"' if ext else "") + "/>"
                      for i, t, tg, ext in rels) + "</Relationships>")


# sibling relationships: what a real producer lists in a relationships part next to the relationship the image path uses
REL_NAMESPACES = ["http://schemas.openxmlformats.org/officeDocument/2006/relationships",
                  "http://purl.oclc.org/ooxml/officeDocument/relationships",
                  "http://schemas.microsoft.com/office/2006/relationships",
                  "http://schemas.microsoft.com/office/2007/relationships",
                  "http://schemas.microsoft.com/office/2011/relationships",
                  "http://schemas.microsoft.com/office/2017/10/relationships"]
SIB_DIR = {"sheet": "xl/worksheets", "drawing": "xl/drawings", "slide": "ppt/slides", "pres": "ppt", "doc": "word"}
SIB_STUB = {"vmlDrawing": '<xml xmlns:v="urn:schemas-microsoft-com:vml" xmlns:o="urn:schemas-microsoft-com:office:office"><v:shape id="_x0000_s1025" type="#_x0000_t202"/></xml>',
            "comments": f'<comments xmlns="http://schemas.openxmlformats.org/spreadsheetml/2006/main"><authors><author>a</author></authors><commentList/></comments>'}


def sib_type(e):
    return REL_NAMESPACES[e.get("ns", 0)] + "/" + e["kind"]


def sibs_of(spec, where, ui=None):
    return [e for e in spec.get("opts", {}).get("sib", []) if e["where"] == where and (ui is None or e.get("unit") == ui)]


def with_sibs(spec, where, ui, rels):
    """(relationships of the part with the sibling relationships inserted at their positions, stub members to add)"""
    rels = list(rels)
    extra = []
    for e in sibs_of(spec, where, ui):
        rels.insert(min(e.get("at", 0), len(rels)), (e["id"], sib_type(e), e["target"], bool(e.get("ext"))))
        if not e.get("ext") and e.get("stub"):
            segs = [] if e["target"].startswith("/") else SIB_DIR[where].split("/")
            for x in e["target"].split("/"):
                if x == "..":
                    segs = segs[:-1]
                elif x not in ("", "."):
                    segs.append(x)
            extra.append(("/".join(segs), SIB_STUB.get(e["kind"], "<x/>")))
    return rels, extra


def _stub_members(spec, mem, stubs):
    have = {n_ for n_, _ in mem} | set(spec["media"])
    out = []
    for n_, d in stubs:
        if n_ and n_ not in have:
            have.add(n_)
            out.append((n_, d))
    return out


def _zip(members):
    b = io.BytesIO()
    with zipfile.ZipFile(b, "w", zipfile.ZIP_DEFLATED) as z:
        for n, d in members:
            z.writestr(n, d)
    return b.getvalue()


def _media_members(spec):
    return [(n, image_bytes(m)) for n, m in spec["media"].items()]


def _anchor_items(spec):
    """[(unit index (0-based), anchor index within the document, anchor)] in document order"""
    out = []
    k = 0
    for ui, unit in enumerate(spec["units"]):
        for a in unit:
            out.append((ui, k, a))
            k += 1
    return out


# ----------------------------------------------------------------------------- PPTX
P_NS = "http://schemas.openxmlformats.org/presentationml/2006/main"
PNS = f'xmlns:p="{P_NS}" xmlns:a="{A_NS}" xmlns:r="{R_NS}"'
SLIDE_T = R_NS + "/slide"


def pptx_slide_file(spec, ui):
    """number f of the part ppt/slides/slide{f}.xml that stores the slide at position ui (0-based) of the deck:
    opts.slide_files = permutation p, slide ui is stored in slide{p[ui]+1}.xml (PowerPoint keeps part names when
    slides are re-ordered; the order of the deck is p:sldIdLst)"""
    files = spec.get("opts", {}).get("slide_files")
    return (files[ui] if files else ui) + 1


def build_pptx(spec):
    n = len(spec["units"])
    mem = [("[Content_Types].xml", '<Types xmlns="http://schemas.openxmlformats.org/package/2006/content-types"/>')]
    mem.append(("ppt/presentation.xml", f"<p:presentation {PNS}><p:sldIdLst>" + "".join(
        f'<p:sldId id="{256 + i}" r:id="rId{i + 1}"/>' for i in range(n)) + "</p:sldIdLst></p:presentation>"))
    prels, stubs = with_sibs(spec, "pres", None, [(f"rId{i + 1}", SLIDE_T, f"slides/slide{pptx_slide_file(spec, i)}.xml", False) for i in range(n)])
    mem.append(("ppt/_rels/presentation.xml.rels", _rels(prels)))
    slide_members = {}
    for ui, unit in enumerate(spec["units"]):
        sf = pptx_slide_file(spec, ui)
        shapes, rels = [], []
        for k, a in enumerate(unit):
            rid = f"rImg{k + 1}"
            # positions increase with k so that the position sort keeps document order
            xfrm = f'<p:spPr><a:xfrm><a:off x="{1000 * (k + 1)}" y="{2000 * (k + 1)}"/><a:ext cx="100" cy="100"/></a:xfrm></p:spPr>'
            embed = f'r:embed="{rid}"' if a["t"] != "external" else f'r:link="{rid}"'
            shapes.append(f'<p:pic><p:nvPicPr><p:cNvPr id="{k + 5}" name="Pic{k + 1}" descr=""/><p:cNvPicPr/><p:nvPr/></p:nvPicPr>'
                          f'<p:blipFill><a:blip {embed}/></p:blipFill>{xfrm}</p:pic>')
            rels.append((rid, IMG_T, a["ref"], a["t"] == "external"))
        if spec.get("opts", {}).get("rels_reversed"):
            rels.reverse()
        rels, st = with_sibs(spec, "slide", ui, rels)
        stubs = stubs + st
        slide_members[sf] = [(f"ppt/slides/slide{sf}.xml", f"<p:sld {PNS}><p:cSld><p:spTree><p:sp><p:nvSpPr><p:cNvPr id=\"2\" name=\"T\"/><p:cNvSpPr/><p:nvPr/></p:nvSpPr>"
                    f"<p:spPr><a:xfrm><a:off x=\"0\" y=\"0\"/></a:xfrm></p:spPr><p:txBody><a:bodyPr/><a:p><a:r><a:t>slide {ui + 1}</a:t></a:r></a:p></p:txBody></p:sp>"
                    + "".join(shapes) + "</p:spTree></p:cSld></p:sld>"),
                             (f"ppt/slides/_rels/slide{sf}.xml.rels", _rels(rels))]
    for sf in sorted(slide_members):          # members in part-number order, as PowerPoint writes them
        mem.extend(slide_members[sf])
    return _zip(mem + _stub_members(spec, mem, stubs) + _media_members(spec))


# ----------------------------------------------------------------------------- DOCX
W_NS = "http://schemas.openxmlformats.org/wordprocessingml/2006/main"
WP_NS = "http://schemas.openxmlformats.org/drawingml/2006/wordprocessingDrawing"
PIC_NS = "http://schemas.openxmlformats.org/drawingml/2006/picture"


def docx_rels(spec):
    """(rid_of {(kind, ref): rId}, image relationships [(rId, type, target, external)] in the order of the rels part)"""
    rid_of, rels = {}, []
    base = spec.get("opts", {}).get("rid_base", 10)     # rid_base 2: ids rId2 .. rId13: string order != numeric order
    for unit in spec["units"]:
        for a in unit:
            key = (a["t"], a["ref"])
            if key not in rid_of:
                rid_of[key] = f"rId{len(rid_of) + base}"
                rels.append((rid_of[key], IMG_T, a["ref"], a["t"] == "external"))
    order = spec.get("opts", {}).get("rels_order")
    if order is not None:      # a permutation of range(len(rels)): Word does not write rels in body order
        rels = [rels[i] for i in order if i < len(rels)] + [r for i, r in enumerate(rels) if i not in order]
    return rid_of, rels


def build_docx(spec):
    """units = paragraphs; one relationship per *distinct reference text* (as Word does for a shared picture)"""
    rid_of, rels = docx_rels(spec)
    paras = []
    for ui, unit in enumerate(spec["units"]):
        runs = [f"<w:r><w:t>para {ui + 1}</w:t></w:r>"]
        for a in unit:
            rid = rid_of[(a["t"], a["ref"])]
            embed = f'r:embed="{rid}"' if a["t"] != "external" else f'r:link="{rid}"'
            runs.append(f'<w:r><w:drawing><wp:inline><wp:extent cx="100" cy="100"/><wp:docPr id="1" name="P"/><a:graphic><a:graphicData uri="{PIC_NS}">'
                        f'<pic:pic><pic:nvPicPr><pic:cNvPr id="0" name="n" descr="d"/><pic:cNvPicPr/></pic:nvPicPr><pic:blipFill><a:blip {embed}/></pic:blipFill><pic:spPr/></pic:pic>'
                        f"</a:graphicData></a:graphic></wp:inline></w:drawing></w:r>")
        paras.append("<w:p>" + "".join(runs) + "</w:p>")
    rels = [("rId1", R_NS + "/styles", "styles.xml", False)] + rels
    rels, stubs = with_sibs(spec, "doc", None, rels)
    ns = f'xmlns:w="{W_NS}" xmlns:r="{R_NS}" xmlns:wp="{WP_NS}" xmlns:a="{A_NS}" xmlns:pic="{PIC_NS}"'
    mem = [("[Content_Types].xml", '<Types xmlns="http://schemas.openxmlformats.org/package/2006/content-types"/>'),
           ("word/document.xml", f"<w:document {ns}><w:body>" + "".join(paras) + "<w:sectPr/></w:body></w:document>"),
           ("word/_rels/document.xml.rels", _rels(rels))]
    return _zip(mem + _stub_members(spec, mem, stubs) + _media_members(spec))


# ----------------------------------------------------------------------------- XLSX
S_NS = "http://schemas.openxmlformats.org/spreadsheetml/2006/main"
XDR_NS = "http://schemas.openxmlformats.org/drawingml/2006/spreadsheetDrawing"
CT_NS = "http://schemas.openxmlformats.org/package/2006/content-types"


def xlsx_drawing_target(spec, i):
    """(relationship target of sheet i's drawing, file number of the sheet part)"""
    opts = spec.get("opts", {})
    f = (opts.get("sheet_files") or list(range(len(spec["units"]))))[i] + 1
    return (f"../drawings/drawing{f}.xml" if opts.get("drawing_ref", "parent") == "parent" else f"/xl/drawings/drawing{f}.xml"), f


def build_xlsx(spec):
    """units = sheets (in workbook order).  opts: sheet_files = permutation p: sheet i is stored in
    xl/worksheets/sheet{p[i]+1}.xml (Excel keeps the part name when sheets are re-ordered);
    drawing_ref = 'parent' | 'abs'; anchor kinds per anchor in a["anchor"] ('two'|'one'|'abs')."""
    opts = spec.get("opts", {})
    n = len(spec["units"])
    files = opts.get("sheet_files") or list(range(n))
    dref = opts.get("drawing_ref", "parent")
    ct = [f'<Types xmlns="{CT_NS}"><Default Extension="rels" ContentType="application/vnd.openxmlformats-package.relationships+xml"/>'
          '<Default Extension="xml" ContentType="application/xml"/><Default Extension="png" ContentType="image/png"/>'
          '<Override PartName="/xl/workbook.xml" ContentType="application/vnd.openxmlformats-officedocument.spreadsheetml.sheet.main+xml"/>']
    for i in range(n):
        ct.append(f'<Override PartName="/xl/worksheets/sheet{i + 1}.xml" ContentType="application/vnd.openxmlformats-officedocument.spreadsheetml.worksheet+xml"/>')
    ct.append("</Types>")
    mem = [("[Content_Types].xml", "".join(ct)),
           ("_rels/.rels", _rels([("rId1", R_NS + "/officeDocument", "xl/workbook.xml", False)])),
           ("xl/workbook.xml", f'<workbook xmlns="{S_NS}" xmlns:r="{R_NS}"><sheets>' + "".join(
               f'<sheet name="S{i + 1}" sheetId="{i + 1}" r:id="rId{i + 1}"/>' for i in range(n)) + "</sheets></workbook>"),
           ("xl/_rels/workbook.xml.rels", _rels([(f"rId{i + 1}", R_NS + "/worksheet", f"worksheets/sheet{files[i] + 1}.xml", False) for i in range(n)]))]
    stubs = []
    for i, unit in enumerate(spec["units"]):
        f = files[i] + 1
        has = bool(unit)
        rows = "" if i in opts.get("empty_units", []) else f'<row r="1"><c r="A1" t="inlineStr"><is><t>sheet {i + 1}</t></is></c></row>'
        mem.append((f"xl/worksheets/sheet{f}.xml", f'<worksheet xmlns="{S_NS}" xmlns:r="{R_NS}"><sheetData>{rows}</sheetData>'
                    + ('<drawing r:id="rId1"/>' if has else "") + "</worksheet>"))
        dpath = f"xl/drawings/drawing{f}.xml"
        tgt = f"../drawings/drawing{f}.xml" if dref == "parent" else "/" + dpath
        srels, st = with_sibs(spec, "sheet", i, [("rId1", R_NS + "/drawing", tgt, False)] if has else [])
        stubs.extend(st)
        if srels:
            mem.append((f"xl/worksheets/_rels/sheet{f}.xml.rels", _rels(srels)))
        if not has:
            continue
        anchors, rels = [], []
        for k, a in enumerate(unit):
            rid = f"rId{k + 1}"
            rels.append((rid, IMG_T, a["ref"], a["t"] == "external"))
            embed = f'r:embed="{rid}"' if a["t"] != "external" else f'r:link="{rid}"'
            pic = (f'<xdr:pic><xdr:nvPicPr><xdr:cNvPr id="{k + 2}" name="Pic{k + 1}" descr=""/><xdr:cNvPicPr/></xdr:nvPicPr>'
                   f'<xdr:blipFill><a:blip {embed}/></xdr:blipFill><xdr:spPr/></xdr:pic><xdr:clientData/>')
            kind = a.get("anchor", "two")
            frm = f"<xdr:from><xdr:col>{k}</xdr:col><xdr:colOff>0</xdr:colOff><xdr:row>{k}</xdr:row><xdr:rowOff>0</xdr:rowOff></xdr:from>"
            if kind == "two":
                anchors.append(f"<xdr:twoCellAnchor>{frm}<xdr:to><xdr:col>{k + 1}</xdr:col><xdr:colOff>0</xdr:colOff><xdr:row>{k + 1}</xdr:row><xdr:rowOff>0</xdr:rowOff></xdr:to>{pic}</xdr:twoCellAnchor>")
            elif kind == "one":
                anchors.append(f'<xdr:oneCellAnchor>{frm}<xdr:ext cx="{a.get("cx", 952500)}" cy="{a.get("cy", 476250)}"/>{pic}</xdr:oneCellAnchor>')
            else:
                anchors.append(f'<xdr:absoluteAnchor><xdr:pos x="0" y="0"/><xdr:ext cx="{a.get("cx", 952500)}" cy="{a.get("cy", 476250)}"/>{pic}</xdr:absoluteAnchor>')
        mem.append((dpath, f'<xdr:wsDr xmlns:xdr="{XDR_NS}" xmlns:a="{A_NS}" xmlns:r="{R_NS}">' + "".join(anchors) + "</xdr:wsDr>"))
        rels, st = with_sibs(spec, "drawing", i, rels)
        stubs.extend(st)
        mem.append((f"xl/drawings/_rels/drawing{f}.xml.rels", _rels(rels)))
    return _zip(mem + _stub_members(spec, mem, stubs) + _media_members(spec))


# ----------------------------------------------------------------------------- ODF
ODF_NS = ('xmlns:office="urn:oasis:names:tc:opendocument:xmlns:office:1.0" xmlns:text="urn:oasis:names:tc:opendocument:xmlns:text:1.0" '
          'xmlns:table="urn:oasis:names:tc:opendocument:xmlns:table:1.0" xmlns:draw="urn:oasis:names:tc:opendocument:xmlns:drawing:1.0" '
          'xmlns:xlink="http://www.w3.org/1999/xlink" xmlns:svg="urn:oasis:names:tc:opendocument:xmlns:svg-compatible:1.0" '
          'xmlns:presentation="urn:oasis:names:tc:opendocument:xmlns:presentation:1.0"')
ODF_MIME = {"odt": "application/vnd.oasis.opendocument.text", "odp": "application/vnd.oasis.opendocument.presentation",
            "ods": "application/vnd.oasis.opendocument.spreadsheet", "odg": "application/vnd.oasis.opendocument.graphics"}


def _odf_frame(a, k):
    fw, fh = a.get("fw", "2cm"), a.get("fh", "1cm")
    return (f'<draw:frame draw:name="img{k}" svg:x="1cm" svg:y="{k + 1}cm" svg:width="{fw}" svg:height="{fh}">'
            f'<draw:image xlink:href="{_x(a["ref"])}" xlink:type="simple"/></draw:frame>')


def build_odf(spec):
    fmt = spec["fmt"]
    k = 0
    parts = []
    for ui, unit in enumerate(spec["units"]):
        frames = []
        for a in unit:
            k += 1
            frames.append(_odf_frame(a, k))
        if fmt == "odt":
            parts.append(f"<text:p>para {ui + 1}" + "".join(frames) + "</text:p>")
        elif fmt == "odp":
            parts.append(f'<draw:page draw:name="page{ui + 1}"><draw:frame svg:x="0cm" svg:y="0cm" svg:width="5cm" svg:height="1cm"><draw:text-box><text:p>slide {ui + 1}</text:p></draw:text-box></draw:frame>'
                         + "".join(frames) + "</draw:page>")
        elif fmt == "odg":
            parts.append(f'<draw:page draw:name="page{ui + 1}"><draw:frame svg:x="0cm" svg:y="0cm" svg:width="5cm" svg:height="1cm"><draw:text-box><text:p>page {ui + 1}</text:p></draw:text-box></draw:frame>'
                         + "".join(frames) + "</draw:page>")
        elif fmt == "ods":
            row = "" if ui in spec.get("opts", {}).get("empty_units", []) else f'<table:table-row><table:table-cell office:value-type="string"><text:p>sheet {ui + 1}</text:p></table:table-cell></table:table-row>'
            parts.append(f'<table:table table:name="S{ui + 1}"><table:shapes>' + "".join(frames) + "</table:shapes><table:table-column/>" + row + "</table:table>")
    body = {"odt": "text", "odp": "presentation", "ods": "spreadsheet", "odg": "drawing"}[fmt]
    content = f'<?xml version="1.0" encoding="UTF-8"?><office:document-content {ODF_NS} office:version="1.2"><office:body><office:{body}>' + "".join(parts) + f"</office:{body}></office:body></office:document-content>"
    manifest = ('<?xml version="1.0" encoding="UTF-8"?><manifest:manifest xmlns:manifest="urn:oasis:names:tc:opendocument:xmlns:manifest:1.0">'
                f'<manifest:file-entry manifest:full-path="/" manifest:media-type="{ODF_MIME[fmt]}"/><manifest:file-entry manifest:full-path="content.xml" manifest:media-type="text/xml"/>'
                + "".join(f'<manifest:file-entry manifest:full-path="{_x(n)}" manifest:media-type="{ext_ctype(n)}"/>' for n in spec["media"]) + "</manifest:manifest>")
    b = io.BytesIO()
    with zipfile.ZipFile(b, "w", zipfile.ZIP_DEFLATED) as z:
        z.writestr(zipfile.ZipInfo("mimetype"), ODF_MIME[fmt])
        z.writestr("content.xml", content)
        z.writestr("META-INF/manifest.xml", manifest)
        for n, d in _media_members(spec):
            z.writestr(n, d)
    return b.getvalue()


# ----------------------------------------------------------------------------- EPUB
def epub_items(spec):
    """manifest items [(id, href, media type)] in manifest order"""
    items, seen, k = [], {}, 0
    for ui, unit in enumerate(spec["units"]):
        for a in unit:
            k += 1
            if a["ref"] not in seen:
                seen[a["ref"]] = f"img{k}"
                items.append((f"img{k}", a["ref"], a.get("media_type") or ext_ctype(a["ref"])))
        items.append((f"ch{ui + 1}", f"c{ui + 1}.xhtml", "application/xhtml+xml"))
    if spec.get("opts", {}).get("items_images_first"):
        items.sort(key=lambda it: not it[0].startswith("img"))
    return items


def build_epub(spec):
    """units = chapters; every anchor is a manifest item (href = a["ref"], relative to the OPF directory
    opts.opf_dir, default 'OEBPS/') and an <img> in its chapter."""
    opf_dir = spec.get("opts", {}).get("opf_dir", "OEBPS/")
    items, spine, mem = epub_items(spec), [], []
    for ui, unit in enumerate(spec["units"]):
        imgs = [f'<img src="{_x(a["ref"])}" alt="i"/>' for a in unit]
        spine.append(f"ch{ui + 1}")
        mem.append((opf_dir + f"c{ui + 1}.xhtml", f'<html xmlns="http://www.w3.org/1999/xhtml"><head><title>c</title></head><body><p>chapter {ui + 1}</p>' + "".join(imgs) + "</body></html>"))
    opf = ('<?xml version="1.0"?><package xmlns="http://www.idpf.org/2007/opf" version="3.0"><metadata xmlns:dc="http://purl.org/dc/elements/1.1/"><dc:title>T</dc:title></metadata><manifest>'
           + "".join(f'<item id="{i}" href="{_x(h)}" media-type="{m}"/>' for i, h, m in items) + "</manifest><spine>" + "".join(f'<itemref idref="{i}"/>' for i in spine) + "</spine></package>")
    head = [("mimetype", "application/epub+zip"),
            ("META-INF/container.xml", '<?xml version="1.0"?><container version="1.0" xmlns="urn:oasis:names:tc:opendocument:xmlns:container">'
             f'<rootfiles><rootfile full-path="{opf_dir}content.opf" media-type="application/oebps-package+xml"/></rootfiles></container>'),
            (opf_dir + "content.opf", opf)]
    return _zip(head + mem + _media_members(spec))


# ----------------------------------------------------------------------------- RTF
def build_rtf(spec):
    """units = pages (separated by \\page); media are inline (\\pict hex); anchors name a media key in a["part"]."""
    pages = []
    for ui, unit in enumerate(spec["units"]):
        s = f"page {ui + 1} "
        for a in unit:
            m = spec["media"][a["part"]]
            data = image_bytes(m)
            blip = {"png": "\\pngblip", "jpeg": "\\jpegblip", "jpg": "\\jpegblip"}.get(m["kind"], "\\pngblip")
            # physical form of the hex dump: what separates the last control word from the data (a space, or — as writers that
            # put the dump on its own lines do — a line break), and whether the dump is wrapped into lines of `rtf_wrap` digits
            sep = spec.get("opts", {}).get("rtf_sep", " ")
            hx = data.hex()
            wrap = spec.get("opts", {}).get("rtf_wrap")
            if wrap:
                hx = "\r\n".join(hx[i:i + wrap] for i in range(0, len(hx), wrap))
            s += "{\\pict" + blip + f"\\picw{m['w']}\\pich{m['h']}\\picwgoal{m['w'] * 15}\\pichgoal{m['h'] * 15}" + sep + hx + "}"
        pages.append(s)
    return ("{\\rtf1\\ansi " + "\\page ".join(pages) + "}").encode("ascii")


# ----------------------------------------------------------------------------- PDF
PDF_CODEC = {"jpeg": "/DCTDecode", "jpg": "/DCTDecode", "jp2": "/JPXDecode"}      # image codecs whose stream IS the image file


def pdf_filters(m):
    """decode chain of a media entry, outermost filter first (ISO 32000-1 7.4: the filters are applied in array order
    when READING, so the LAST one is the codec the image was compressed with, the ones before it are transport /
    general-purpose wrappers).  Default: the codec of the kind alone (raw samples: /FlateDecode)."""
    return list(m.get("filters") or [PDF_CODEC.get(m["kind"], "/FlateDecode")])


def pdf_filter_entry(m):
    """text of the /Filter value (+ /DecodeParms when asked for): a name for a single filter unless
    m["filter_form"] == "array"; always an array for a chain"""
    fl = pdf_filters(m)
    form = m.get("filter_form", "name")
    txt = fl[0] if (len(fl) == 1 and form != "array") else "[" + " ".join(fl) + "]"
    if m.get("parms"):
        txt += " /DecodeParms " + ("null" if not txt.startswith("[") else "[" + " ".join("null" for _ in fl) + "]")
    return txt


def _run_length(data):
    out = bytearray()
    for i in range(0, len(data), 128):
        c = data[i:i + 128]
        out.append(len(c) - 1)
        out += c
    out.append(128)
    return bytes(out)


def pdf_encode(filters, data):
    """stream bytes that the decode chain `filters` turns back into `data`; the image codecs (/DCTDecode, /JPXDecode)
    stand for the image file itself"""
    import base64
    for f in reversed(filters):
        if f in ("/DCTDecode", "/JPXDecode"):
            continue
        if f == "/FlateDecode":
            data = zlib.compress(data)
        elif f == "/LZWDecode":
            from pypdf._codecs._codecs import LzwCodec
            data = LzwCodec().encode(data)
        elif f == "/ASCII85Decode":
            data = base64.a85encode(data) + b"~>"
        elif f == "/ASCIIHexDecode":
            data = data.hex().encode() + b">"
        elif f == "/RunLengthDecode":
            data = _run_length(data)
        else:
            raise ValueError(f)
    return data


def build_pdf(spec):
    """units = pages; every anchor paints one image XObject (a["part"] names the media entry; kind jpeg is
    stored with /DCTDecode (the file itself), anything else as /FlateDecode of its bytes taken as raw samples).
    A media entry used by several anchors is one shared object."""
    objs = {}          # number -> bytes (without 'n 0 obj' framing)
    n_pages = len(spec["units"])
    nxt = [4]

    def alloc():
        nxt[0] += 1
        return nxt[0] - 1

    img_obj = {}
    for name, m in spec["media"].items():
        data = image_bytes(m)
        num = alloc()
        img_obj[name] = num
        flt, stream = pdf_filter_entry(m), pdf_encode(pdf_filters(m), data)
        objs[num] = (f"<< /Type /XObject /Subtype /Image /Width {m['w']} /Height {m['h']} /ColorSpace /DeviceRGB /BitsPerComponent 8 /Filter {flt} /Length {len(stream)} >>\nstream\n".encode()
                     + stream + b"\nendstream")
    kids = []
    for ui, unit in enumerate(spec["units"]):
        xo, ops = [], []
        for k, a in enumerate(unit):
            xo.append(f"/Im{k} {img_obj[a['part']]} 0 R")
            ops.append(f"q 50 0 0 50 {10 + 60 * k} 700 cm /Im{k} Do Q")
        content = ("BT /F1 12 Tf 50 760 Td (page %d) Tj ET\n" % (ui + 1) + "\n".join(ops)).encode()
        cnum = alloc()
        objs[cnum] = f"<< /Length {len(content)} >>\nstream\n".encode() + content + b"\nendstream"
        pnum = alloc()
        res = "<< /Font << /F1 3 0 R >>" + (" /XObject << " + " ".join(xo) + " >>" if xo else "") + " >>"
        objs[pnum] = f"<< /Type /Page /Parent 2 0 R /MediaBox [0 0 612 792] /Resources {res} /Contents {cnum} 0 R >>".encode()
        kids.append(pnum)
    objs[1] = b"<< /Type /Catalog /Pages 2 0 R >>"
    objs[2] = f"<< /Type /Pages /Kids [{' '.join(f'{k} 0 R' for k in kids)}] /Count {n_pages} >>".encode()
    objs[3] = b"<< /Type /Font /Subtype /Type1 /BaseFont /Helvetica >>"
    out = bytearray(b"%PDF-1.4\n%\xe2\xe3\xcf\xd3\n")
    offs = {}
    for num in sorted(objs):
        offs[num] = len(out)
        out += f"{num} 0 obj\n".encode() + objs[num] + b"\nendobj\n"
    xref = len(out)
    size = max(objs) + 1
    out += f"xref\n0 {size}\n".encode() + b"0000000000 65535 f \n"
    for num in range(1, size):
        out += f"{offs[num]:010d} 00000 n \n".encode()
    out += f"trailer\n<< /Size {size} /Root 1 0 R >>\nstartxref\n{xref}\n%%EOF\n".encode()
    return bytes(out)


BUILDERS = {"pptx": build_pptx, "docx": build_docx, "xlsx": build_xlsx, "odt": build_odf, "odp": build_odf, "ods": build_odf,
            "odg": build_odf, "epub": build_epub, "rtf": build_rtf, "pdf": build_pdf}


def build(spec) -> bytes:
    return BUILDERS[spec["fmt"]](spec)
