"""Reference writer for RFC 5322/MIME messages and mbox files (used by C16).

Every message comes with its *ground truth* (what was put in), kept independently of any
parser: decoded subject, (name, address) pairs, the instant of the Date header, message id,
the plain / HTML body texts and the list of attachments (name, type, bytes) in document order.

Messages are produced with the standard library's generator (`Message.as_bytes`) from
legacy MIME objects (explicit charset and transfer encoding per part) or from
`EmailMessage` (modern policy), plus a hand-folded variant of the Subject header.
"""
from __future__ import annotations

import base64
import datetime as dt
import email.charset
import email.encoders
import email.header
import email.utils
import io
import json
import quopri
import re
import zipfile
from email.message import EmailMessage, Message
from email.mime.multipart import MIMEMultipart
from email.mime.nonmultipart import MIMENonMultipart

# (python codec / MIME charset name, alphabet the charset can encode)
LATIN = "àéîõüßçñÆøÅ"
CYR = "ЖдиПривет"
JP = "日本語テキスト"
CN = "中文邮件"
SYMB = "—€…“”"
CHARSETS = [
    ("us-ascii", ""),
    ("utf-8", LATIN + CYR + JP + CN + SYMB + "😀"),
    ("iso-8859-1", LATIN),
    ("iso-8859-15", LATIN + "€"),
    ("windows-1252", LATIN + SYMB),
    ("koi8-r", CYR),
    ("shift_jis", JP),
    ("gb2312", CN),
    ("big5", "中文郵件"),
]

# ----------------------------------------------------------------------------- repertoires
# "any charset" = every part of what the charset can carry: for each charset the complete set of characters that
# round-trip strictly through the codec, cut into parts (single-byte charsets: the four 32-byte rows of the high half,
# so iso-8859-1 has its C1 controls U+0080..U+009F as a part of their own; multi-byte charsets: Unicode rows cp>>8).
# Left out: C0 controls and DEL (not text in a 7bit body), CR/LF (line structure is generated separately).
_REP_CACHE: dict = {}
_ASTRAL = [0x1F600, 0x1F64F, 0x10000, 0x1D11E, 0x20000, 0x2A6D6, 0xE0001, 0xFFFFD, 0x10FFFD]


def repertoire(charset):
    """[[chars of one part], ...] of everything `charset` encodes and decodes back to itself (non-ASCII only)."""
    if charset in _REP_CACHE:
        return _REP_CACHE[charset]
    parts: dict = {}
    if charset == "us-ascii":
        cps = []
    elif not any(len(d) == 1 and d != "\ufffd" for d in (bytes(q).decode(charset, "replace") for q in
                                                          ([0x81, 0x40], [0xB0, 0xA1], [0xA4, 0x40], [0xC3, 0xA9]))):   # single-byte charset
        for b in range(0x80, 0x100):
            try:
                ch = bytes([b]).decode(charset)
            except UnicodeDecodeError:
                continue
            if ch.encode(charset) == bytes([b]):
                parts.setdefault(b >> 5, []).append(ch)
        cps = None
    else:
        cps = list(range(0x80, 0xD800)) + list(range(0xE000, 0x10000)) + (_ASTRAL if charset == "utf-8" else [])
    for cp in cps or []:
        ch = chr(cp)
        try:
            if ch.encode(charset).decode(charset) != ch:
                continue
        except (UnicodeEncodeError, UnicodeDecodeError):
            continue
        parts.setdefault(cp >> 8, []).append(ch)
    _REP_CACHE[charset] = [parts[k] for k in sorted(parts)]
    return _REP_CACHE[charset]


def alphabet(rng, charset, base):
    """the fixed sample letters plus a dozen characters drawn part-uniformly from the whole repertoire"""
    parts = repertoire(charset)
    if not parts:
        return base
    return base + "".join(rng.choice(rng.choice(parts)) for _ in range(12))


# white space that must survive inside a decoded header / body line exactly as written
WS_ASCII = ["  ", "   ", "\t", " \t", "\t ", "\t\t", "    "]
WS_UNICODE = ["\u00a0", "\u3000", "\u2003", " \u00a0", "\u00a0 ", "\u00a0\u00a0", "\u3000 ", "\u2009", "\u0085", "\u2028", "\u1680"]


def _seps(rng, charset, n, p_ws=0.5):
    """n separators between words: single blanks, or (p_ws) runs of blanks, tabs, Unicode spaces the charset carries"""
    out = []
    uni = []
    if charset:
        for w in WS_UNICODE:
            try:
                if w.encode(charset).decode(charset) == w:
                    uni.append(w)
            except (UnicodeError, LookupError):
                pass
    for _ in range(n):
        r = rng.random()
        if r >= p_ws:
            out.append(" ")
        elif uni and r < p_ws * 0.5:
            out.append(rng.choice(uni))
        else:
            out.append(rng.choice(WS_ASCII))
    return out


def _ws_phrase(rng, alpha, charset, lo=2, hi=8):
    """words separated by interior white space runs; never white space at either end"""
    words = [_word(rng, alpha).strip() or "w" for _ in range(rng.randint(lo, hi))]
    seps = _seps(rng, charset, len(words) - 1)
    return "".join(w + s for w, s in zip(words, seps + [""]))


ASCII_WORDS = ["hello", "report", "Q3", "budget", "From", "re:", "the", "2024", "meeting", "x=y", "a_b", "100%",
               "=?not?=", "semi;colon", "it's", "(note)", "<tag>", "&amp;", "tab"]


def _word(rng, alpha):
    if alpha and rng.random() < 0.6:
        return "".join(rng.choice(alpha) for _ in range(rng.randint(1, 6)))
    return rng.choice(ASCII_WORDS)


def _phrase(rng, alpha, lo=1, hi=8):
    return " ".join(_word(rng, alpha) for _ in range(rng.randint(lo, hi)))


def _py_strip_ok(s):
    """no white space (str.isspace) at either end: EmailContent strips subject and plain body by design"""
    return s == s.strip()


def _text(rng, alpha, html=False):
    """Body text: 1..6 lines, no leading/trailing whitespace at either end (EmailContent strips)."""
    lines = []
    for _ in range(rng.randint(1, 6)):
        r = rng.random()
        if r < 0.12:
            lines.append("From " + _phrase(rng, alpha, 1, 3) + rng.choice(["", " 2024", " 1999"]))
        elif r < 0.18:
            lines.append("")
        elif r < 0.24:
            lines.append(">From " + _phrase(rng, alpha, 1, 2))
        elif r < 0.30:
            lines.append(_phrase(rng, alpha, 12, 30))  # long line (forces QP soft breaks)
        else:
            lines.append(_phrase(rng, alpha))
    while lines and not lines[0].strip():
        lines.pop(0)
    while lines and not lines[-1].strip():
        lines.pop()
    if not lines:
        lines = ["x"]
    body = "\n".join(l.strip() if i in (0, len(lines) - 1) else l for i, l in enumerate(lines))
    if html:
        body = "<html><body><p>" + body.replace("\n", "<br>\n") + "</p></body></html>"
    return body


def _leaf(maintype, subtype, data: bytes, cte: str, params=None, disposition=None, filename=None, cid=None,
          fn_style="plain"):
    p = MIMENonMultipart(maintype, subtype, **(params or {}))
    if cte == "base64":
        p.set_payload(base64.encodebytes(data).decode("ascii"))
        p["Content-Transfer-Encoding"] = "base64"
    elif cte == "quoted-printable":
        p.set_payload(quopri.encodestring(data, quotetabs=False).decode("ascii"))
        p["Content-Transfer-Encoding"] = "quoted-printable"
    else:
        p.set_payload(data.decode("ascii", "surrogateescape"))
        p["Content-Transfer-Encoding"] = cte
    if disposition:
        if filename is not None:
            if fn_style == "rfc2231" or any(ord(c) > 126 for c in filename):
                p.add_header("Content-Disposition", disposition, filename=("utf-8", "", filename))
            else:
                p.add_header("Content-Disposition", disposition, filename=filename)
        else:
            p.add_header("Content-Disposition", disposition)
    if cid:
        p["Content-ID"] = cid
    return p


def _text_leaf(rng, subtype, text, charset, cte=None, crlf=False):
    raw_lf = text.encode(charset)
    if cte is None:
        ascii_only = all(b < 128 for b in raw_lf)
        long_line = any(len(l) > 990 for l in raw_lf.split(b"\n"))
        opts = ["base64", "quoted-printable"]
        if not long_line:
            opts.append("8bit")
            if ascii_only:
                opts.append("7bit")
        cte = rng.choice(opts)
    # the stdlib generator rewrites the line ends of 7bit/8bit/QP payloads to the message's own, so a
    # body can only carry CRLF of its own under base64 (opaque) or when the whole message is CRLF
    data = text.replace("\n", "\r\n") if (crlf or (cte == "base64" and rng.random() < 0.3)) else text
    return _leaf("text", subtype, data.encode(charset), cte, params={"charset": charset}), data, cte


# ----------------------------------------------------------------------------- attachments
def _zip_bytes(name, content: bytes) -> bytes:
    bio = io.BytesIO()
    with zipfile.ZipFile(bio, "w", zipfile.ZIP_DEFLATED) as z:
        zi = zipfile.ZipInfo(name, date_time=(2024, 1, 1, 0, 0, 0))
        z.writestr(zi, content)
    return bio.getvalue()


def gen_document(rng):
    """(filename, canonical MIME type, bytes) of a small generated document."""
    alpha = rng.choice([LATIN, CYR, "", ""])
    kind = rng.choice(["txt", "csv", "tsv", "json", "md", "html", "rtf", "zip", "bin", "png", "txt", "csv"])
    stem = rng.choice(["report", "data", "notes v2", "a.b", "Übersicht", "résumé", "x", "From"])
    if kind == "txt":
        return stem + ".txt", "text/plain", (_text(rng, alpha) + "\n").encode("utf-8")
    if kind == "csv":
        rows = [[_word(rng, alpha) for _ in range(3)] for _ in range(rng.randint(1, 4))]
        return stem + ".csv", "text/csv", ("\n".join(",".join(w.replace(",", "") for w in r) for r in rows) + "\n").encode("utf-8")
    if kind == "tsv":
        rows = [[_word(rng, alpha) for _ in range(3)] for _ in range(rng.randint(1, 4))]
        return stem + ".tsv", "text/tab-separated-values", ("\n".join("\t".join(r) for r in rows) + "\n").encode("utf-8")
    if kind == "json":
        return stem + ".json", "application/json", json.dumps({"k": _phrase(rng, alpha), "n": rng.randint(0, 99)}).encode("utf-8")
    if kind == "md":
        return stem + ".md", "text/markdown", ("# " + _phrase(rng, alpha) + "\n\n" + _text(rng, alpha) + "\n").encode("utf-8")
    if kind == "html":
        return stem + ".html", "text/html", ("<html><body><h1>" + _phrase(rng, "") + "</h1><p>" + _phrase(rng, "") + "</p></body></html>").encode("utf-8")
    if kind == "rtf":
        return stem + ".rtf", "application/rtf", (r"{\rtf1\ansi " + _phrase(rng, "", 1, 4).replace("\\", "").replace("{", "").replace("}", "") + r"\par }").encode("ascii")
    if kind == "zip":
        return stem + ".zip", "application/zip", _zip_bytes("inner.txt", (_phrase(rng, "") + "\n").encode())
    if kind == "png":
        return stem + ".png", "image/png", b"\x89PNG\r\n\x1a\n" + bytes(rng.randrange(256) for _ in range(rng.randint(0, 40)))
    return stem + ".bin", "application/octet-stream", bytes(rng.randrange(256) for _ in range(rng.randint(0, 200)))


def _attachment_part(rng, name, mime, data, disposition="attachment", cid=None, crlf=False, decl="named"):
    maintype, subtype = mime.split("/", 1)
    if crlf:
        cte = "base64"
    elif maintype == "text" and b"\r" not in data and rng.random() < 0.4 \
            and all(len(l) < 900 for l in data.split(b"\n")):
        # line-oriented encodings only for LF text (the generator normalises their line ends)
        cte = rng.choice(["7bit", "quoted-printable"]) if all(b < 128 for b in data) else rng.choice(["8bit", "quoted-printable"])
    else:
        cte = "base64"
    params = {}
    if maintype == "text":
        params["charset"] = "utf-8"
    if decl == "ctype-name" and name.isascii():
        params["name"] = name            # the name stands only in the Content-Type
    p = _leaf(maintype, subtype, data, cte, params=params, disposition=disposition,
              filename=None if decl in ("bare", "ctype-name") and (decl == "bare" or name.isascii()) else name, cid=cid,
              fn_style=rng.choice(["plain", "plain", "rfc2231"]))
    if decl == "upper":
        v = p["Content-Disposition"]
        del p["Content-Disposition"]
        p["Content-Disposition"] = v.replace("attachment", "ATTACHMENT", 1)
    return p


# ----------------------------------------------------------------------------- headers
def _enc_header(rng, text, charset):
    """RFC 2047 header value via the stdlib Header class with an explicit charset."""
    try:
        text.encode("ascii")
        return text
    except UnicodeEncodeError:
        pass
    try:
        return email.header.Header(text, charset=charset, maxlinelen=rng.choice([40, 76, 200])).encode()
    except UnicodeError:    # the stdlib's output charset (iso-2022-jp for shift_jis) cannot carry the text
        return _hand_folded_subject(rng, text, charset)


def _hand_folded_subject(rng, text, charset):
    """All-encoded-words Subject, split on character boundaries, folded with LWSP by hand."""
    chunks, i = [], 0
    while i < len(text):
        k = rng.randint(1, 12)
        chunks.append(text[i:i + k])
        i += k
    words = []
    for c in chunks:
        raw = c.encode(charset)
        if rng.random() < 0.5:
            words.append("=?%s?B?%s?=" % (charset, base64.b64encode(raw).decode("ascii")))
        else:
            us = rng.random() < 0.5 and charset.lower() not in ("utf-16", "utf-32")   # '_' stands for byte 0x20 (RFC 2047 4.2)
            q = "".join(chr(b) if (48 <= b <= 57 or 65 <= b <= 90 or 97 <= b <= 122) else "_" if (b == 32 and us) else "=%02X" % b
                        for b in raw)
            words.append("=?%s?q?%s?=" % (charset.upper(), q))
    out = words[0] if words else ""
    for w in words[1:]:
        out += rng.choice(["\n ", "\n\t", " ", "\n  "]) + w
    return out


_EW = re.compile(r"=\?([^?\s]+)\?([bBqQ])\?([^?\s]*)\?=(?=[ \t]|$)")


def ref_unfold(value: str) -> str:
    """RFC 5322 2.2.3: unfolding removes the line break that is followed by white space — nothing else"""
    return re.sub(r"\r?\n(?=[ \t])", "", value)


def ref_decode_header(value: str) -> str:
    """RFC 2047 reading of an unstructured header value, written independently of email.header: unfold, decode each
    encoded word with its declared charset, drop the linear white space BETWEEN two encoded words (6.2), keep every
    other character as it is."""
    v = ref_unfold(value)
    out, pos, prev_ew = [], 0, False
    for m in _EW.finditer(v):
        if m.start() > 0 and v[m.start() - 1] not in " \t":
            continue
        gap = v[pos:m.start()]
        if not (prev_ew and gap.strip(" \t") == ""):
            out.append(gap)
        cs, enc, data = m.group(1), m.group(2).lower(), m.group(3)
        if enc == "b":
            raw = base64.b64decode(data)
        else:
            raw = re.sub(rb"=([0-9A-Fa-f]{2})", lambda k: bytes([int(k.group(1), 16)]), data.replace("_", " ").encode("ascii"))
        out.append(raw.decode(cs))
        pos, prev_ew = m.end(), True
    out.append(v[pos:])
    return "".join(out)


def _fold_literal(rng, text):
    """a literal (ASCII) header value, folded by hand before some of its white space characters: unfolding gives `text`"""
    out = []
    for i, c in enumerate(text):
        if c in " \t" and i > 0 and rng.random() < 0.25:
            out.append("\n")
        out.append(c)
    return "".join(out)


def _mixed_subject(rng, text, charset):
    """plain words around encoded words: the white space between a plain word and an encoded word
    is part of the text (RFC 2047 6.2).  -> (header value, decoded text)"""
    pre = rng.choice(["Re:", "Fwd:", "AW:", "[list]", ""])
    suf = rng.choice(["(2)", "was: x", "", ""])
    value = (pre + " " if pre else "") + _hand_folded_subject(rng, text, charset) + (" " + suf if suf else "")
    return value, (pre + " " if pre else "") + text + (" " + suf if suf else "")


def _addr(rng, alpha, charset=None):
    name = ""
    r = rng.random()
    if r < 0.25:
        name = ""
    elif r < 0.45:
        name = rng.choice(["Doe, John", "O'Neil", "Dr. A. Smith", "Team (ops)", "a \"q\" b", "J. R. \"Bob\" Dobbs",
                           # non-ASCII names with address-list specials: formataddr emits them as RFC 2047 encoded words,
                           # so the comma / angle bracket only exists AFTER decoding (decode-then-split would mangle them)
                           "M\u00fcller, Hans", "S\u00f8ren <ops>", "\u5f20, \u4f1f", "Jos\u00e9; Mar\u00eda, Jr."])
    elif r < 0.65:
        # interior runs of blanks, tabs, Unicode spaces — ASCII (quoted-string / encoded word) or in the header charset
        name = _ws_phrase(rng, alpha if rng.random() < 0.6 else "abcdefXYZ", charset, 2, 3).strip() or "x  y"
        name = re.sub(r'[()<>\[\]:;@\\,"]', "", name) or "x  y"
    else:
        name = " ".join("".join(rng.choice(alpha or "abcdef").upper() if i == 0 else rng.choice(alpha or "abcdef")
                                for i in range(rng.randint(2, 7))) for _ in range(rng.randint(1, 2)))
    name = name.strip()     # white space at the ends of a display name is not asked for (mailparser strips it)
    local = rng.choice(["john", "a.b", "x+tag", "info", "no-reply", "u_1"]) + str(rng.randint(0, 99))
    dom = rng.choice(["example.com", "mail.example.org", "x.io", "sub.domain.co.uk"])
    return name, f"{local}@{dom}"


def _ws_run(name):
    """interior white space other than single blanks"""
    return bool(re.search(r"\s\s|[^\S ]", name))


def _fmt_addrs(pairs, charset, sep=", ", rng=None):
    def one(p):
        cs = charset if charset != "us-ascii" else "utf-8"
        try:
            p[0].encode(cs)
        except (UnicodeEncodeError, LookupError):
            cs = "utf-8"
        if p[0].isascii() and _ws_run(p[0]):
            # white space inside a quoted-string is part of the name (RFC 5322 3.2.4); an unquoted phrase would only
            # be a sequence of words.  Or the ASCII name inside an encoded word.
            if rng is not None and rng.random() < 0.4:
                return "%s <%s>" % (_hand_folded_subject(rng, p[0], rng.choice(["utf-8", "us-ascii", "iso-8859-1"])).replace("\n", ""), p[1])
            return '"%s" <%s>' % (p[0].replace("\\", "\\\\").replace('"', '\\"'), p[1])
        if rng is not None and not p[0].isascii() and rng.random() < 0.4:
            # encoded words written by hand, in the declared charset itself (the stdlib converts shift_jis to iso-2022-jp)
            return "%s <%s>" % (_hand_folded_subject(rng, p[0], cs).replace("\n", ""), p[1])
        try:
            return email.utils.formataddr(p, charset=cs)
        except UnicodeEncodeError:      # the stdlib's output charset (iso-2022-jp for shift_jis) cannot carry the name
            return email.utils.formataddr(p, charset="utf-8")
    return sep.join(one(p) for p in pairs)


class Truth(dict):
    pass


def gen_message(rng, shape=None, for_mbox=False, max_att=3, crlf=False, mid=None, variants=True):
    """-> (raw bytes with LF line ends, truth).  `mid`: the Message-ID to write ("" = no Message-ID header at all,
    None = a fresh one; 6% of the messages have none).  `variants`: attachments are also DECLARED in the other ways
    MIME allows — a bare `Content-Disposition: attachment` without any file name (truth name "" = none declared),
    the name only as `name=` of the Content-Type, an upper-case disposition — and may stand BEFORE the body parts
    (shapes mixed-att-first / mixed-textatt-first: a nameless text/plain or text/html ATTACHMENT precedes the body)."""
    charset, alpha = rng.choice(CHARSETS)
    hcharset, halpha = rng.choice(CHARSETS[1:])
    # letters from every part of the two repertoires (C1 controls of iso-8859-1, every row of the CJK sets, ...)
    alpha, halpha = alphabet(rng, charset, alpha), alphabet(rng, hcharset, halpha)
    ws_subject = rng.random() < 0.4      # interior runs of blanks, tabs, Unicode spaces
    if rng.random() >= 0.9:
        subject = ""
    elif ws_subject:
        subject = _ws_phrase(rng, halpha if rng.random() < 0.7 else "", hcharset).strip() or "x"
    else:
        subject = _phrase(rng, halpha, 1, 10).strip() or "x"
    frm = _addr(rng, halpha, hcharset)
    to = [_addr(rng, halpha, hcharset) for _ in range(rng.choice([1, 1, 2, 3, 0]))]
    cc = [_addr(rng, halpha, hcharset) for _ in range(rng.choice([0, 0, 1, 2]))]
    bcc = [_addr(rng, halpha, hcharset) for _ in range(rng.choice([0, 0, 0, 1]))]
    rto = [_addr(rng, halpha, hcharset) for _ in range(rng.choice([0, 0, 1]))]
    when = dt.datetime(rng.randint(1990, 2035), rng.randint(1, 12), rng.randint(1, 28), rng.randint(0, 23),
                       rng.randint(0, 59), rng.randint(0, 59),
                       tzinfo=dt.timezone(dt.timedelta(minutes=rng.choice([0, 0, 60, -300, 330, 345, -720, 840]))))
    fresh_mid = "<%x.%d@%s>" % (rng.getrandbits(40), rng.randint(1, 9999), rng.choice(["example.com", "mail.local"]))
    if mid is None:
        mid = "" if (variants and rng.random() < 0.06) else fresh_mid

    shape = shape or rng.choice(["plain", "html", "alt", "mixed-plain", "mixed-alt", "alt-related", "mixed-alt-related",
                                 "mixed-html", "nested-mixed", "mixed-none", "single-attachment"]
                                + (["mixed-att-first", "mixed-textatt-first"] if variants else []))
    plain = html = None
    attachments = []   # (name, mime, bytes) in document order
    notes = {"shape": shape, "charset": charset, "hcharset": hcharset}

    def mk_plain():
        nonlocal plain
        p, plain, cte = _text_leaf(rng, "plain", _text(rng, alpha), charset, crlf=crlf)
        notes["cte_plain"] = cte
        return p

    def mk_html():
        nonlocal html
        p, html, cte = _text_leaf(rng, "html", _text(rng, alpha, html=True), charset, crlf=crlf)
        notes["cte_html"] = cte
        return p

    def mk_att(disposition="attachment", cid=None, image=False):
        name, mime, data = gen_document(rng)
        if image:
            name, mime, data = rng.choice(["logo.png", "img 1.png"]), "image/png", b"\x89PNG\r\n\x1a\n" + bytes(rng.randrange(256) for _ in range(12))
        r = rng.random()
        if not image and r < 0.1:
            mime = "application/octet-stream"
        elif not image and r < 0.15:
            mime = rng.choice(["text/plain", "application/pdf", "text/csv"])
        # a third of the later attachments declare the SAME MIME type as an earlier attachment with another extension
        # (notes.txt and page.html both sent as text/plain): routing must follow each attachment, not the type
        if not image and attachments and rng.random() < 0.34:
            pn, pm, _pd = rng.choice(attachments)
            if pn.rsplit(".", 1)[-1].lower() != name.rsplit(".", 1)[-1].lower() and not pm.startswith("image/"):
                mime = pm
        decl = "named"
        if variants and not image and disposition == "attachment":
            decl = rng.choice(["named"] * 5 + ["bare", "bare", "ctype-name", "upper"])
        attachments.append(("" if decl == "bare" else name, mime, data))
        if decl != "named":
            notes.setdefault("att_decl", []).append(decl)
        return _attachment_part(rng, name, mime, data, disposition=disposition, cid=cid, crlf=crlf, decl=decl)

    def mk_text_att():
        """a text/plain or text/html part that is an ATTACHMENT without a file name (what add_attachment(str) writes)"""
        sub = rng.choice(["plain", "plain", "html"])
        text = _text(rng, alpha, html=(sub == "html")) + "\n"
        data = text.encode("utf-8")
        attachments.append(("", "text/" + sub, data))
        notes.setdefault("att_decl", []).append("bare-text")
        return _leaf("text", sub, data, "base64", params={"charset": "utf-8"}, disposition="attachment", filename=None)

    def mk_related():
        rel = MIMEMultipart("related")
        rel.attach(mk_html())
        for i in range(rng.randint(1, 2)):
            rel.attach(mk_att(disposition="inline", cid="<img%d@x>" % i, image=True))
        return rel

    def mk_alt(related=False):
        alt = MIMEMultipart("alternative")
        alt.attach(mk_plain())
        alt.attach(mk_related() if related else mk_html())
        return alt

    n_att = rng.randint(1 if shape.startswith(("mixed", "nested")) else 0, max_att)
    if shape == "plain":
        root = mk_plain()
    elif shape == "html":
        root = mk_html()
    elif shape == "alt":
        root = mk_alt()
    elif shape == "alt-related":
        root = mk_alt(related=True)
    elif shape == "single-attachment":
        name, mime, data = gen_document(rng)
        attachments.append((name, mime, data))
        root = _attachment_part(rng, name, mime, data, crlf=crlf)
    else:
        root = MIMEMultipart("mixed")
        if shape == "mixed-plain":
            root.attach(mk_plain())
        elif shape == "mixed-html":
            root.attach(mk_html())
        elif shape == "mixed-alt":
            root.attach(mk_alt())
        elif shape == "mixed-alt-related":
            root.attach(mk_alt(related=True))
        elif shape == "mixed-att-first":
            for _ in range(rng.randint(1, 2)):
                root.attach(mk_att())
            root.attach(rng.choice([mk_plain, mk_alt, mk_html])())
            n_att = rng.randint(0, 1)
        elif shape == "mixed-textatt-first":
            root.attach(mk_text_att())
            root.attach(rng.choice([mk_plain, mk_alt, mk_html])())
            n_att = rng.randint(0, 1)
        elif shape == "nested-mixed":
            inner = MIMEMultipart("mixed")
            inner.attach(mk_alt(related=rng.random() < 0.5))
            inner.attach(mk_att())
            root.attach(inner)
        for _ in range(n_att):
            root.attach(mk_att())

    subj_style = rng.choice(["header", "header", "hand", "mixed"])
    hand_value = None
    if subject:
        root["Subject"] = "@@HAND@@"
        if subject.isascii() and subj_style in ("hand", "mixed") and rng.random() < 0.5:
            # ASCII text inside encoded words (blanks as '_', '=20' or base64)
            hand_value = _hand_folded_subject(rng, subject, rng.choice(["us-ascii", "utf-8", hcharset]))
            subj_style = "hand-ascii"
        elif subject.isascii() and rng.random() < 0.3:
            root.replace_header("Subject", subject)     # the stdlib generator folds it (checked on the wire below)
            subj_style = "header"
        elif subject.isascii():
            # literal text, on one line or folded by hand before white space (the stdlib generator is not asked to
            # fold: what is on the wire is exactly this)
            hand_value = _fold_literal(rng, subject) if rng.random() < 0.5 else subject
            subj_style = "literal-folded" if "\n" in hand_value else "literal"
        elif subj_style == "mixed":
            hand_value, subject = _mixed_subject(rng, subject, hcharset)
        elif subj_style == "hand":
            hand_value = _hand_folded_subject(rng, subject, hcharset)
        else:
            hand_value = _enc_header(rng, subject, hcharset)
            try:        # the Header class is the writer here; if it does not write this text (it may drop white
                ok = ref_decode_header(hand_value) == subject   # space at its own line breaks), write the words by hand
            except (UnicodeError, LookupError, ValueError):
                ok = False
            if not ok:
                hand_value = _hand_folded_subject(rng, subject, hcharset)
                subj_style = "hand"
    addr_values = {}

    def put_addrs(header, pairs):
        if any(_ws_run(n) for n, _ in pairs):
            # a display name with interior white space runs: one line (or folded between two addresses), by hand
            tag = "@@ADDR-%s@@" % header
            root[header] = tag
            addr_values[tag] = _fmt_addrs(pairs, hcharset, sep=rng.choice([", ", ", ", ",\n ", ",\n\t"]), rng=rng)
            notes["ws_names"] = True
        else:
            root[header] = _fmt_addrs(pairs, hcharset, rng=rng)

    put_addrs("From", [frm])
    if to:
        put_addrs("To", to)
    if cc:
        put_addrs("Cc", cc)
    if bcc:
        put_addrs("Bcc", bcc)
    if rto:
        put_addrs("Reply-To", rto)
    root["Date"] = email.utils.format_datetime(when)
    if mid:
        root["Message-ID"] = mid
    raw = root.as_bytes()
    if hand_value is not None:
        raw = raw.replace(b"Subject: @@HAND@@", b"Subject: " + hand_value.encode("ascii"), 1)
    elif subject:
        # written by the stdlib generator: if what is on the wire does not read back as the text (a writer that
        # re-spaces at its own line breaks), the text goes on the wire literally
        m = re.search(rb"^Subject: (.*(?:\n[ \t].*)*)$", raw, re.M)
        if not m or ref_decode_header(m.group(1).decode("ascii")) != subject:
            raw = raw[:m.start(1)] + subject.encode("ascii") + raw[m.end(1):]
            subj_style = "literal"
    for tag, value in addr_values.items():
        raw = raw.replace(tag.encode("ascii"), value.encode("ascii"), 1)
    notes["subject_style"] = subj_style if subject else "absent"
    t = Truth(subject=subject, from_=frm, to=to, cc=cc, bcc=bcc, reply_to=rto, when=when.isoformat(), message_id=mid,
              plain=plain or "", html=html or "", attachments=[(n, m, d) for n, m, d in attachments], notes=notes)
    return raw, t


def gen_repertoire_message(rng, charset):
    """-> (raw, truth): a message whose plain body carries EVERY character of the charset's repertoire (one part per
    line, base64 or quoted-printable) and so does the HTML body; Subject and sender name carry samples of the parts"""
    parts = repertoire(charset) or [list("abc")]
    body = "BEGIN\n" + "\n".join("|" + "".join(p) + "|" for p in parts) + "\nEND"
    html_t = "<html><body><p>" + "<br>\n".join("".join(p) for p in parts) + "</p></body></html>"
    subject = "all " + "".join(rng.choice(p) for p in rng.sample(parts, min(len(parts), 12))) + " parts"
    alt = MIMEMultipart("alternative")
    cte = rng.choice(["base64", "quoted-printable"])
    alt.attach(_leaf("text", "plain", body.encode(charset), cte, params={"charset": charset}))
    alt.attach(_leaf("text", "html", html_t.encode(charset), "base64", params={"charset": charset}))
    name = "N " + "".join(rng.choice(p) for p in rng.sample(parts, min(len(parts), 6))) + " n"
    hcs = charset if charset != "us-ascii" else "utf-8"
    alt["Subject"] = "@@HAND@@"
    alt["From"] = "%s <rep@example.com>" % _hand_folded_subject(rng, name, hcs).replace("\n", "")
    when = dt.datetime(2024, 1, 1, 10, 0, 0, tzinfo=dt.timezone.utc)
    alt["Date"] = email.utils.format_datetime(when)
    alt["Message-ID"] = "<rep.%s@example.com>" % charset
    raw = alt.as_bytes().replace(b"Subject: @@HAND@@", b"Subject: " + _hand_folded_subject(rng, subject, hcs).encode("ascii"), 1)
    t = Truth(subject=subject, from_=(name, "rep@example.com"), to=[], cc=[], bcc=[], reply_to=[], when=when.isoformat(),
              message_id="<rep.%s@example.com>" % charset, plain=body, html=html_t, attachments=[],
              notes={"shape": "repertoire", "charset": charset, "hcharset": hcs, "cte_plain": cte, "cte_html": "base64"})
    return raw, t


# ----------------------------------------------------------------------------- mbox
_FROM_LINE = re.compile(rb"^(>*From )", re.M)


def mboxrd_escape(raw: bytes) -> tuple[bytes, int]:
    """mboxrd quoting: every line matching ^>*From␠ gets one more '>'."""
    return _FROM_LINE.subn(rb">\1", raw)


def escape_text(text: str) -> str:
    return re.sub(r"^(>*From )", r">\1", text, flags=re.M)


def asctime(rng):
    d = dt.datetime(rng.randint(1990, 2035), rng.randint(1, 12), rng.randint(1, 28), rng.randint(0, 23), rng.randint(0, 59), rng.randint(0, 59))
    return d.strftime("%a %b ") + "%2d" % d.day + d.strftime(" %H:%M:%S %Y")


def gen_mbox(rng, n_msgs, crlf=False, max_att=2):
    """-> (mbox bytes, [truth per message]).  Truth bodies are those of the *stored* (escaped) message:
    mbox readers, this one included, do not undo From_ quoting."""
    out = []
    truths = []
    stored = []     # escaped bytes of the messages written so far
    import copy
    for _ in range(n_msgs):
        # histories inside ONE mailbox: a message may lack the Message-ID header (drafts, notifications), carry the
        # Message-ID of an earlier, different message (list copy / direct copy), or be an exact second copy of an
        # earlier message (one copy per label) — every stored message is one result, whatever came before it
        r = rng.random()
        mid = None
        if r < 0.15:
            mid = ""
        elif r < 0.27 and any(t0["message_id"] for t0 in truths):
            mid = rng.choice([t0["message_id"] for t0 in truths if t0["message_id"]])
        elif r < 0.35 and stored:
            k = rng.randrange(len(stored))
            t = copy.deepcopy(truths[k])
            t["notes"]["copy_of"] = k
            sender = rng.choice(["MAILER-DAEMON", t["from_"][1], "-", "user@host"])
            out.append(("From %s %s" % (sender, asctime(rng))).encode("ascii") + b"\n" + stored[k] + rng.choice([b"\n", b"\n\n", b""]))
            stored.append(stored[k])
            truths.append(t)
            continue
        for _attempt in range(20):
            raw, t = gen_message(rng, for_mbox=True, max_att=max_att, crlf=crlf, mid=mid)
            esc, n = mboxrd_escape(raw)
            # account for every escape in the ground truth: only 7bit/8bit text leaves may carry From_ lines
            tp, th = t["plain"], t["html"]
            m = 0
            if t["notes"].get("cte_plain") in ("7bit", "8bit", "quoted-printable") and tp:
                tp2 = escape_text(tp)
                m += len(tp2) - len(tp)
                tp = tp2
            if t["notes"].get("cte_html") in ("7bit", "8bit", "quoted-printable") and th:
                th2 = escape_text(th)
                m += len(th2) - len(th)
                th = th2
            if m == n:
                t["plain"], t["html"] = tp, th
                break
        else:
            raise RuntimeError("could not generate an mbox-safe message")
        sender = rng.choice(["MAILER-DAEMON", t["from_"][1], "-", "user@host"])
        sep = ("From %s %s" % (sender, asctime(rng))).encode("ascii")
        gap = rng.choice([b"\n", b"\n", b"\n\n", b""])
        if not esc.endswith(b"\n"):
            esc += b"\n"
        out.append(sep + b"\n" + esc + gap)
        stored.append(esc)
        truths.append(t)
    data = b"".join(out)
    if crlf:
        data = data.replace(b"\r\n", b"\n").replace(b"\n", b"\r\n")
        for t in truths:
            t["crlf"] = True
    return data, truths
