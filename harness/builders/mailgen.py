"""Reference writer for RFC 5322/MIME messages and mbox files (used by C16).

Every message comes with its *ground truth* (what was put in), kept independently of any
parser: decoded subject, (name, address) pairs, the instant of the Date header, message id,
the plain / HTML body texts and the list of attachments (name, type, bytes) in document order.

Messages are produced with the standard library's generator (`Message.as_bytes`) from
legacy MIME objects (explicit charset and transfer encoding per part) or from
`EmailMessage` (modern policy), plus a hand-folded variant of the Subject header.
"""
from __future__ import annotations

import base64
import datetime as dt
import email.charset
import email.encoders
import email.header
import email.utils
import io
import json
import quopri
import re
import zipfile
from email.message import EmailMessage, Message
from email.mime.multipart import MIMEMultipart
from email.mime.nonmultipart import MIMENonMultipart

# (python codec / MIME charset name, alphabet the charset can encode)
LATIN = "àéîõüßçñÆøÅ"
CYR = "ЖдиПривет"
JP = "日本語テキスト"
CN = "中文邮件"
SYMB = "—€…“”"
CHARSETS = [
    ("us-ascii", ""),
    ("utf-8", LATIN + CYR + JP + CN + SYMB + "😀"),
    ("iso-8859-1", LATIN),
    ("iso-8859-15", LATIN + "€"),
    ("windows-1252", LATIN + SYMB),
    ("koi8-r", CYR),
    ("shift_jis", JP),
    ("gb2312", CN),
    ("big5", "中文郵件"),
]
ASCII_WORDS = ["hello", "report", "Q3", "budget", "From", "re:", "the", "2024", "meeting", "x=y", "a_b", "100%",
               "=?not?=", "semi;colon", "it's", "(note)", "<tag>", "&amp;", "tab"]


def _word(rng, alpha):
    if alpha and rng.random() < 0.6:
        return "".join(rng.choice(alpha) for _ in range(rng.randint(1, 6)))
    return rng.choice(ASCII_WORDS)


def _phrase(rng, alpha, lo=1, hi=8):
    return " ".join(_word(rng, alpha) for _ in range(rng.randint(lo, hi)))


def _text(rng, alpha, html=False):
    """Body text: 1..6 lines, no leading/trailing whitespace at either end (EmailContent strips)."""
    lines = []
    for _ in range(rng.randint(1, 6)):
        r = rng.random()
        if r < 0.12:
            lines.append("From " + _phrase(rng, alpha, 1, 3) + rng.choice(["", " 2024", " 1999"]))
        elif r < 0.18:
            lines.append("")
        elif r < 0.24:
            lines.append(">From " + _phrase(rng, alpha, 1, 2))
        elif r < 0.30:
            lines.append(_phrase(rng, alpha, 12, 30))  # long line (forces QP soft breaks)
        else:
            lines.append(_phrase(rng, alpha))
    while lines and not lines[0].strip():
        lines.pop(0)
    while lines and not lines[-1].strip():
        lines.pop()
    if not lines:
        lines = ["x"]
    body = "\n".join(l.strip() if i in (0, len(lines) - 1) else l for i, l in enumerate(lines))
    if html:
        body = "<html><body><p>" + body.replace("\n", "<br>\n") + "</p></body></html>"
    return body


def _leaf(maintype, subtype, data: bytes, cte: str, params=None, disposition=None, filename=None, cid=None,
          fn_style="plain"):
    p = MIMENonMultipart(maintype, subtype, **(params or {}))
    if cte == "base64":
        p.set_payload(base64.encodebytes(data).decode("ascii"))
        p["Content-Transfer-Encoding"] = "base64"
    elif cte == "quoted-printable":
        p.set_payload(quopri.encodestring(data, quotetabs=False).decode("ascii"))
        p["Content-Transfer-Encoding"] = "quoted-printable"
    else:
        p.set_payload(data.decode("ascii", "surrogateescape"))
        p["Content-Transfer-Encoding"] = cte
    if disposition:
        if filename is not None:
            if fn_style == "rfc2231" or any(ord(c) > 126 for c in filename):
                p.add_header("Content-Disposition", disposition, filename=("utf-8", "", filename))
            else:
                p.add_header("Content-Disposition", disposition, filename=filename)
        else:
            p.add_header("Content-Disposition", disposition)
    if cid:
        p["Content-ID"] = cid
    return p


def _text_leaf(rng, subtype, text, charset, cte=None, crlf=False):
    raw_lf = text.encode(charset)
    if cte is None:
        ascii_only = all(b < 128 for b in raw_lf)
        long_line = any(len(l) > 990 for l in raw_lf.split(b"\n"))
        opts = ["base64", "quoted-printable"]
        if not long_line:
            opts.append("8bit")
            if ascii_only:
                opts.append("7bit")
        cte = rng.choice(opts)
    # the stdlib generator rewrites the line ends of 7bit/8bit/QP payloads to the message's own, so a
    # body can only carry CRLF of its own under base64 (opaque) or when the whole message is CRLF
    data = text.replace("\n", "\r\n") if (crlf or (cte == "base64" and rng.random() < 0.3)) else text
    return _leaf("text", subtype, data.encode(charset), cte, params={"charset": charset}), data, cte


# ----------------------------------------------------------------------------- attachments
def _zip_bytes(name, content: bytes) -> bytes:
    bio = io.BytesIO()
    with zipfile.ZipFile(bio, "w", zipfile.ZIP_DEFLATED) as z:
        zi = zipfile.ZipInfo(name, date_time=(2024, 1, 1, 0, 0, 0))
        z.writestr(zi, content)
    return bio.getvalue()


def gen_document(rng):
    """(filename, canonical MIME type, bytes) of a small generated document."""
    alpha = rng.choice([LATIN, CYR, "", ""])
    kind = rng.choice(["txt", "csv", "tsv", "json", "md", "html", "rtf", "zip", "bin", "png", "txt", "csv"])
    stem = rng.choice(["report", "data", "notes v2", "a.b", "Übersicht", "résumé", "x", "From"])
    if kind == "txt":
        return stem + ".txt", "text/plain", (_text(rng, alpha) + "\n").encode("utf-8")
    if kind == "csv":
        rows = [[_word(rng, alpha) for _ in range(3)] for _ in range(rng.randint(1, 4))]
        return stem + ".csv", "text/csv", ("\n".join(",".join(w.replace(",", "") for w in r) for r in rows) + "\n").encode("utf-8")
    if kind == "tsv":
        rows = [[_word(rng, alpha) for _ in range(3)] for _ in range(rng.randint(1, 4))]
        return stem + ".tsv", "text/tab-separated-values", ("\n".join("\t".join(r) for r in rows) + "\n").encode("utf-8")
    if kind == "json":
        return stem + ".json", "application/json", json.dumps({"k": _phrase(rng, alpha), "n": rng.randint(0, 99)}).encode("utf-8")
    if kind == "md":
        return stem + ".md", "text/markdown", ("# " + _phrase(rng, alpha) + "\n\n" + _text(rng, alpha) + "\n").encode("utf-8")
    if kind == "html":
        return stem + ".html", "text/html", ("<html><body><h1>" + _phrase(rng, "") + "</h1><p>" + _phrase(rng, "") + "</p></body></html>").encode("utf-8")
    if kind == "rtf":
        return stem + ".rtf", "application/rtf", (r"{\rtf1\ansi " + _phrase(rng, "", 1, 4).replace("\\", "").replace("{", "").replace("}", "") + r"\par }").encode("ascii")
    if kind == "zip":
        return stem + ".zip", "application/zip", _zip_bytes("inner.txt", (_phrase(rng, "") + "\n").encode())
    if kind == "png":
        return stem + ".png", "image/png", b"\x89PNG\r\n\x1a\n" + bytes(rng.randrange(256) for _ in range(rng.randint(0, 40)))
    return stem + ".bin", "application/octet-stream", bytes(rng.randrange(256) for _ in range(rng.randint(0, 200)))


def _attachment_part(rng, name, mime, data, disposition="attachment", cid=None, crlf=False):
    maintype, subtype = mime.split("/", 1)
    if crlf:
        cte = "base64"
    elif maintype == "text" and b"\r" not in data and rng.random() < 0.4 \
            and all(len(l) < 900 for l in data.split(b"\n")):
        # line-oriented encodings only for LF text (the generator normalises their line ends)
        cte = rng.choice(["7bit", "quoted-printable"]) if all(b < 128 for b in data) else rng.choice(["8bit", "quoted-printable"])
    else:
        cte = "base64"
    params = {}
    if maintype == "text":
        params["charset"] = "utf-8"
    return _leaf(maintype, subtype, data, cte, params=params, disposition=disposition, filename=name, cid=cid,
                 fn_style=rng.choice(["plain", "plain", "rfc2231"]))


# ----------------------------------------------------------------------------- headers
def _enc_header(rng, text, charset):
    """RFC 2047 header value via the stdlib Header class with an explicit charset."""
    try:
        text.encode("ascii")
        return text
    except UnicodeEncodeError:
        pass
    return email.header.Header(text, charset=charset, maxlinelen=rng.choice([40, 76, 200])).encode()


def _hand_folded_subject(rng, text, charset):
    """All-encoded-words Subject, split on character boundaries, folded with LWSP by hand."""
    chunks, i = [], 0
    while i < len(text):
        k = rng.randint(1, 12)
        chunks.append(text[i:i + k])
        i += k
    words = []
    for c in chunks:
        raw = c.encode(charset)
        if rng.random() < 0.5:
            words.append("=?%s?B?%s?=" % (charset, base64.b64encode(raw).decode("ascii")))
        else:
            q = "".join(chr(b) if (48 <= b <= 57 or 65 <= b <= 90 or 97 <= b <= 122) else "=%02X" % b for b in raw)
            words.append("=?%s?q?%s?=" % (charset.upper(), q))
    out = words[0] if words else ""
    for w in words[1:]:
        out += rng.choice(["\n ", "\n\t", " ", "\n  "]) + w
    return out


def _mixed_subject(rng, text, charset):
    """plain words around encoded words: the white space between a plain word and an encoded word
    is part of the text (RFC 2047 6.2).  -> (header value, decoded text)"""
    pre = rng.choice(["Re:", "Fwd:", "AW:", "[list]", ""])
    suf = rng.choice(["(2)", "was: x", "", ""])
    value = (pre + " " if pre else "") + _hand_folded_subject(rng, text, charset) + (" " + suf if suf else "")
    return value, (pre + " " if pre else "") + text + (" " + suf if suf else "")


def _addr(rng, alpha):
    name = ""
    r = rng.random()
    if r < 0.25:
        name = ""
    elif r < 0.45:
        name = rng.choice(["Doe, John", "O'Neil", "Dr. A. Smith", "Team (ops)", "a \"q\" b", "J. R. \"Bob\" Dobbs",
                           # non-ASCII names with address-list specials: formataddr emits them as RFC 2047 encoded words,
                           # so the comma / angle bracket only exists AFTER decoding (decode-then-split would mangle them)
                           "M\u00fcller, Hans", "S\u00f8ren <ops>", "\u5f20, \u4f1f", "Jos\u00e9; Mar\u00eda, Jr."])
    else:
        name = " ".join("".join(rng.choice(alpha or "abcdef").upper() if i == 0 else rng.choice(alpha or "abcdef")
                                for i in range(rng.randint(2, 7))) for _ in range(rng.randint(1, 2)))
    local = rng.choice(["john", "a.b", "x+tag", "info", "no-reply", "u_1"]) + str(rng.randint(0, 99))
    dom = rng.choice(["example.com", "mail.example.org", "x.io", "sub.domain.co.uk"])
    return name, f"{local}@{dom}"


def _fmt_addrs(pairs, charset):
    def one(p):
        cs = charset if charset != "us-ascii" else "utf-8"
        try:
            p[0].encode(cs)
        except (UnicodeEncodeError, LookupError):
            cs = "utf-8"
        return email.utils.formataddr(p, charset=cs)
    return ", ".join(one(p) for p in pairs)


class Truth(dict):
    pass


def gen_message(rng, shape=None, for_mbox=False, max_att=3, crlf=False):
    """-> (raw bytes with LF line ends, truth)."""
    charset, alpha = rng.choice(CHARSETS)
    hcharset, halpha = rng.choice(CHARSETS[1:])
    subject = _phrase(rng, halpha, 1, 10) if rng.random() < 0.9 else ""
    frm = _addr(rng, halpha)
    to = [_addr(rng, halpha) for _ in range(rng.choice([1, 1, 2, 3, 0]))]
    cc = [_addr(rng, halpha) for _ in range(rng.choice([0, 0, 1, 2]))]
    bcc = [_addr(rng, halpha) for _ in range(rng.choice([0, 0, 0, 1]))]
    rto = [_addr(rng, halpha) for _ in range(rng.choice([0, 0, 1]))]
    when = dt.datetime(rng.randint(1990, 2035), rng.randint(1, 12), rng.randint(1, 28), rng.randint(0, 23),
                       rng.randint(0, 59), rng.randint(0, 59),
                       tzinfo=dt.timezone(dt.timedelta(minutes=rng.choice([0, 0, 60, -300, 330, 345, -720, 840]))))
    mid = "<%x.%d@%s>" % (rng.getrandbits(40), rng.randint(1, 9999), rng.choice(["example.com", "mail.local"]))

    shape = shape or rng.choice(["plain", "html", "alt", "mixed-plain", "mixed-alt", "alt-related", "mixed-alt-related",
                                 "mixed-html", "nested-mixed", "mixed-none", "single-attachment"])
    plain = html = None
    attachments = []   # (name, mime, bytes) in document order
    notes = {"shape": shape, "charset": charset, "hcharset": hcharset}

    def mk_plain():
        nonlocal plain
        p, plain, cte = _text_leaf(rng, "plain", _text(rng, alpha), charset, crlf=crlf)
        notes["cte_plain"] = cte
        return p

    def mk_html():
        nonlocal html
        p, html, cte = _text_leaf(rng, "html", _text(rng, alpha, html=True), charset, crlf=crlf)
        notes["cte_html"] = cte
        return p

    def mk_att(disposition="attachment", cid=None, image=False):
        name, mime, data = gen_document(rng)
        if image:
            name, mime, data = rng.choice(["logo.png", "img 1.png"]), "image/png", b"\x89PNG\r\n\x1a\n" + bytes(rng.randrange(256) for _ in range(12))
        r = rng.random()
        if not image and r < 0.1:
            mime = "application/octet-stream"
        elif not image and r < 0.15:
            mime = rng.choice(["text/plain", "application/pdf", "text/csv"])
        # a third of the later attachments declare the SAME MIME type as an earlier attachment with another extension
        # (notes.txt and page.html both sent as text/plain): routing must follow each attachment, not the type
        if not image and attachments and rng.random() < 0.34:
            pn, pm, _pd = rng.choice(attachments)
            if pn.rsplit(".", 1)[-1].lower() != name.rsplit(".", 1)[-1].lower() and not pm.startswith("image/"):
                mime = pm
        attachments.append((name, mime, data))
        return _attachment_part(rng, name, mime, data, disposition=disposition, cid=cid, crlf=crlf)

    def mk_related():
        rel = MIMEMultipart("related")
        rel.attach(mk_html())
        for i in range(rng.randint(1, 2)):
            rel.attach(mk_att(disposition="inline", cid="<img%d@x>" % i, image=True))
        return rel

    def mk_alt(related=False):
        alt = MIMEMultipart("alternative")
        alt.attach(mk_plain())
        alt.attach(mk_related() if related else mk_html())
        return alt

    n_att = rng.randint(1 if shape.startswith(("mixed", "nested")) else 0, max_att)
    if shape == "plain":
        root = mk_plain()
    elif shape == "html":
        root = mk_html()
    elif shape == "alt":
        root = mk_alt()
    elif shape == "alt-related":
        root = mk_alt(related=True)
    elif shape == "single-attachment":
        name, mime, data = gen_document(rng)
        attachments.append((name, mime, data))
        root = _attachment_part(rng, name, mime, data, crlf=crlf)
    else:
        root = MIMEMultipart("mixed")
        if shape == "mixed-plain":
            root.attach(mk_plain())
        elif shape == "mixed-html":
            root.attach(mk_html())
        elif shape == "mixed-alt":
            root.attach(mk_alt())
        elif shape == "mixed-alt-related":
            root.attach(mk_alt(related=True))
        elif shape == "nested-mixed":
            inner = MIMEMultipart("mixed")
            inner.attach(mk_alt(related=rng.random() < 0.5))
            inner.attach(mk_att())
            root.attach(inner)
        for _ in range(n_att):
            root.attach(mk_att())

    subj_style = rng.choice(["header", "header", "hand", "mixed"])
    hand_value = None
    if subject:
        if subj_style in ("hand", "mixed"):
            try:
                subject.encode("ascii")
                root["Subject"] = subject
                subj_style = "header"
            except UnicodeEncodeError:
                root["Subject"] = "@@HAND@@"
                if subj_style == "mixed":
                    hand_value, subject = _mixed_subject(rng, subject, hcharset)
                else:
                    hand_value = _hand_folded_subject(rng, subject, hcharset)
        else:
            root["Subject"] = _enc_header(rng, subject, hcharset)
    root["From"] = _fmt_addrs([frm], hcharset)
    if to:
        root["To"] = _fmt_addrs(to, hcharset)
    if cc:
        root["Cc"] = _fmt_addrs(cc, hcharset)
    if bcc:
        root["Bcc"] = _fmt_addrs(bcc, hcharset)
    if rto:
        root["Reply-To"] = _fmt_addrs(rto, hcharset)
    root["Date"] = email.utils.format_datetime(when)
    root["Message-ID"] = mid
    raw = root.as_bytes()
    if hand_value is not None:
        raw = raw.replace(b"Subject: @@HAND@@", b"Subject: " + hand_value.encode("ascii"), 1)
    notes["subject_style"] = subj_style if subject else "absent"
    t = Truth(subject=subject, from_=frm, to=to, cc=cc, bcc=bcc, reply_to=rto, when=when.isoformat(), message_id=mid,
              plain=plain or "", html=html or "", attachments=[(n, m, d) for n, m, d in attachments], notes=notes)
    return raw, t


# ----------------------------------------------------------------------------- mbox
_FROM_LINE = re.compile(rb"^(>*From )", re.M)


def mboxrd_escape(raw: bytes) -> tuple[bytes, int]:
    """mboxrd quoting: every line matching ^>*From␠ gets one more '>'."""
    return _FROM_LINE.subn(rb">\1", raw)


def escape_text(text: str) -> str:
    return re.sub(r"^(>*From )", r">\1", text, flags=re.M)


def asctime(rng):
    d = dt.datetime(rng.randint(1990, 2035), rng.randint(1, 12), rng.randint(1, 28), rng.randint(0, 23), rng.randint(0, 59), rng.randint(0, 59))
    return d.strftime("%a %b ") + "%2d" % d.day + d.strftime(" %H:%M:%S %Y")


def gen_mbox(rng, n_msgs, crlf=False, max_att=2):
    """-> (mbox bytes, [truth per message]).  Truth bodies are those of the *stored* (escaped) message:
    mbox readers, this one included, do not undo From_ quoting."""
    out = []
    truths = []
    for _ in range(n_msgs):
        for _attempt in range(20):
            raw, t = gen_message(rng, for_mbox=True, max_att=max_att, crlf=crlf)
            esc, n = mboxrd_escape(raw)
            # account for every escape in the ground truth: only 7bit/8bit text leaves may carry From_ lines
            tp, th = t["plain"], t["html"]
            m = 0
            if t["notes"].get("cte_plain") in ("7bit", "8bit", "quoted-printable") and tp:
                tp2 = escape_text(tp)
                m += len(tp2) - len(tp)
                tp = tp2
            if t["notes"].get("cte_html") in ("7bit", "8bit", "quoted-printable") and th:
                th2 = escape_text(th)
                m += len(th2) - len(th)
                th = th2
            if m == n:
                t["plain"], t["html"] = tp, th
                break
        else:
            raise RuntimeError("could not generate an mbox-safe message")
        sender = rng.choice(["MAILER-DAEMON", t["from_"][1], "-", "user@host"])
        sep = ("From %s %s" % (sender, asctime(rng))).encode("ascii")
        gap = rng.choice([b"\n", b"\n", b"\n\n", b""])
        if not esc.endswith(b"\n"):
            esc += b"\n"
        out.append(sep + b"\n" + esc + gap)
        truths.append(t)
    data = b"".join(out)
    if crlf:
        data = data.replace(b"\r\n", b"\n").replace(b"\n", b"\r\n")
        for t in truths:
            t["crlf"] = True
    return data, truths
