"""C02 (part "ooxml"): reference writers.  XML trees come from the Lean renderer (ctx.drive) as JSON
{"t": name, "a": [[k, v]...], "x": text, "k": [...]}; this module only serialises them and packages the
result into real containers (DOCX / PPTX zip, HTML text, MHTML MIME wrapper, EPUB zip, XLSX via openpyxl)."""
from __future__ import annotations

import base64
import io
import quopri
import zipfile
from html import escape as hesc
from xml.etree import ElementTree as ET

NSMAP = {
    "w": "http://schemas.openxmlformats.org/wordprocessingml/2006/main",
    "mc": "http://schemas.openxmlformats.org/markup-compatibility/2006",
    "wp": "http://schemas.openxmlformats.org/drawingml/2006/wordprocessingDrawing",
    "wps": "http://schemas.microsoft.com/office/word/2010/wordprocessingShape",
    "a": "http://schemas.openxmlformats.org/drawingml/2006/main",
    "v": "urn:schemas-microsoft-com:vml",
    "p": "http://schemas.openxmlformats.org/presentationml/2006/main",
    "r": "http://schemas.openxmlformats.org/officeDocument/2006/relationships",
    "m": "http://schemas.openxmlformats.org/officeDocument/2006/math",
}
for _p, _u in NSMAP.items():
    ET.register_namespace(_p, _u)

_CTOR_ATTR = {  # Lean Tag constructor -> (module, attribute) holding the Clark name in the CURRENT source
    "wP": ("d", "W_P"), "wR": ("d", "W_R"), "wT": ("d", "W_T"), "wTab": ("d", "W_TAB"), "wBr": ("d", "W_BR"),
    "wCr": ("d", "W_CR"), "wTbl": ("d", "W_TBL"), "wTr": ("d", "W_TR"), "wTc": ("d", "W_TC"), "wSdt": ("d", "W_SDT"),
    "wSdtContent": ("d", "W_SDTCONTENT"), "wCustomXml": ("d", "W_CUSTOMXML"), "wTxbxContent": ("d", "W_TXBXCONTENT"),
    "choice": ("d", "MC_CHOICE"), "oMath": ("d", "M_OMATH"), "oMathPara": ("d", "M_OMATHPARA"),
    "aP": ("p", "A_P"), "aR": ("p", "A_R"), "aFld": ("p", "A_FLD"), "aT": ("p", "A_T"), "aBr": ("p", "A_BR"),
}
_FIXED = {  # names that do not depend on the source: what Word writes
    "wP": "w:p", "wR": "w:r", "wT": "w:t", "wTab": "w:tab", "wBr": "w:br", "wCr": "w:cr", "wTbl": "w:tbl", "wTr": "w:tr",
    "wTc": "w:tc", "wSdt": "w:sdt", "wSdtContent": "w:sdtContent", "wCustomXml": "w:customXml",
    "wTxbxContent": "w:txbxContent", "choice": "mc:Choice", "oMath": "m:oMath", "oMathPara": "m:oMathPara",
    "aP": "a:p", "aR": "a:r", "aFld": "a:fld", "aT": "a:t", "aBr": "a:br", "alt": "mc:AlternateContent",
    "fallback": "mc:Fallback",
}


def clark(name: str) -> str:
    if name.startswith("{"):
        return name
    if ":" in name:
        p, l = name.split(":", 1)
        if p in NSMAP:
            return "{%s}%s" % (NSMAP[p], l)
    return name


def tag_of(t: str) -> str:
    """the element name a producer (Word / PowerPoint) writes for a symbolic tag — independent of the library"""
    if t.startswith("#"):
        return clark(_FIXED[t[1:]])
    return clark(t)


def to_et(j: dict) -> ET.Element:
    e = ET.Element(tag_of(j["t"]))
    for k, v in j.get("a", []):
        e.set(clark(k), v)
    if j.get("x"):
        e.text = j["x"]
        if j["x"] != j["x"].strip():
            e.set("{http://www.w3.org/XML/1998/namespace}space", "preserve")
    for c in j.get("k", []):
        e.append(to_et(c))
    return e


def et_to_json(e: ET.Element) -> dict:
    """an arbitrary element (Clark names) in the wire format of `c02ooxml.docx_walk` / `pptx_walk`"""
    return {"t": e.tag, "a": [[k, v] for k, v in e.attrib.items()], "x": e.text or "", "k": [et_to_json(c) for c in e]}


def xml_bytes(root: ET.Element) -> bytes:
    return b'<?xml version="1.0" encoding="UTF-8" standalone="yes"?>\n' + ET.tostring(root, encoding="utf-8")


# ----------------------------------------------------------------------------- DOCX
def _wp(text: str) -> ET.Element:
    p = ET.Element(clark("w:p"))
    r = ET.SubElement(p, clark("w:r"))
    t = ET.SubElement(r, clark("w:t"))
    t.text = text
    return p


def docx_package(body_kids: list[ET.Element], outside: dict | None = None, title: str = "") -> bytes:
    """outside: {"comments":[s], "footnotes":[s], "endnotes":[s], "headers":[s], "footers":[s]} — plain
    paragraphs in the parts the default full text must not read"""
    outside = outside or {}
    doc = ET.Element(clark("w:document"))
    body = ET.SubElement(doc, clark("w:body"))
    for k in body_kids:
        body.append(k)
    rels = ['<Relationship Id="rIdS" Type="http://schemas.openxmlformats.org/officeDocument/2006/relationships/styles" Target="styles.xml"/>']
    ct = ['<Default Extension="rels" ContentType="application/vnd.openxmlformats-package.relationships+xml"/>',
          '<Default Extension="xml" ContentType="application/xml"/>',
          '<Override PartName="/word/document.xml" ContentType="application/vnd.openxmlformats-officedocument.wordprocessingml.document.main+xml"/>']
    parts: dict[str, bytes] = {}

    def notes_part(name, root_tag, item_tag, texts, first_id):
        root = ET.Element(clark(root_tag))
        for i, s in enumerate(texts):
            it = ET.SubElement(root, clark(item_tag))
            it.set(clark("w:id"), str(first_id + i))
            it.set(clark("w:author"), "A" + str(i))
            it.append(_wp(s))
        parts["word/" + name] = xml_bytes(root)
        rels.append(f'<Relationship Id="rId{name[:3]}" Type="http://schemas.openxmlformats.org/officeDocument/2006/relationships/{name[:-4]}" Target="{name}"/>')

    if outside.get("comments"):
        notes_part("comments.xml", "w:comments", "w:comment", outside["comments"], 1)
    if outside.get("footnotes"):
        notes_part("footnotes.xml", "w:footnotes", "w:footnote", outside["footnotes"], 1)
    if outside.get("endnotes"):
        notes_part("endnotes.xml", "w:endnotes", "w:endnote", outside["endnotes"], 1)
    for kind, root_tag in (("header", "w:hdr"), ("footer", "w:ftr")):
        for i, s in enumerate(outside.get(kind + "s", []), 1):
            root = ET.Element(clark(root_tag))
            root.append(_wp(s))
            parts[f"word/{kind}{i}.xml"] = xml_bytes(root)
            rels.append(f'<Relationship Id="rId{kind}{i}" Type="http://schemas.openxmlformats.org/officeDocument/2006/relationships/{kind}" Target="{kind}{i}.xml"/>')
    styles = ('<?xml version="1.0"?><w:styles xmlns:w="%s"><w:style w:type="paragraph" w:styleId="Heading1"><w:name w:val="heading 1"/></w:style></w:styles>' % NSMAP["w"])
    core = ('<?xml version="1.0"?><cp:coreProperties xmlns:cp="http://schemas.openxmlformats.org/package/2006/metadata/core-properties" '
            'xmlns:dc="http://purl.org/dc/elements/1.1/"><dc:title>%s</dc:title></cp:coreProperties>' % hesc(title))
    b = io.BytesIO()
    with zipfile.ZipFile(b, "w", zipfile.ZIP_DEFLATED) as z:
        z.writestr("[Content_Types].xml", '<?xml version="1.0"?><Types xmlns="http://schemas.openxmlformats.org/package/2006/content-types">' + "".join(ct) + "</Types>")
        z.writestr("_rels/.rels", '<?xml version="1.0"?><Relationships xmlns="http://schemas.openxmlformats.org/package/2006/relationships">'
                   '<Relationship Id="rId1" Type="http://schemas.openxmlformats.org/officeDocument/2006/relationships/officeDocument" Target="word/document.xml"/>'
                   '<Relationship Id="rId2" Type="http://schemas.openxmlformats.org/package/2006/relationships/metadata/core-properties" Target="docProps/core.xml"/></Relationships>')
        z.writestr("word/document.xml", xml_bytes(doc))
        z.writestr("word/styles.xml", styles)
        z.writestr("docProps/core.xml", core)
        z.writestr("word/_rels/document.xml.rels", '<?xml version="1.0"?><Relationships xmlns="http://schemas.openxmlformats.org/package/2006/relationships">' + "".join(rels) + "</Relationships>")
        for n, data in parts.items():
            z.writestr(n, data)
    return b.getvalue()


# ----------------------------------------------------------------------------- HTML family
VOID = {"br", "hr", "img", "input", "meta", "link", "area", "base", "col", "embed", "param", "source", "track", "wbr"}


def node_html(n: dict, xhtml: bool = False, bare: bool = False) -> str:
    """bare=True writes an attribute-less, childless <span>text</span> as plain character data: the same page
    with its text in the parents' text / the siblings' tail instead of in elements of its own"""
    tag = n["tag"]
    attrs = "".join(' %s="%s"' % (k, hesc(v, quote=True)) for k, v in n.get("attrs", {}).items())
    if tag == "root":
        return "".join(node_html(c, xhtml, bare) for c in n["children"])
    if tag in VOID:
        return ("<%s%s/>" if xhtml else "<%s%s>") % (tag, attrs) + hesc(n.get("tail", ""), quote=False)
    inner = hesc(n.get("text", ""), quote=False) + "".join(node_html(c, xhtml, bare) for c in n["children"])
    if bare and tag == "span" and not n.get("attrs") and not n["children"]:
        return inner + hesc(n.get("tail", ""), quote=False)
    return "<%s%s>%s</%s>%s" % (tag, attrs, inner, tag, hesc(n.get("tail", ""), quote=False))


def tighten(n: dict) -> dict:
    """'tight' lists and cells: a <p> that is the only child of an <li> / <td> is replaced by its content
    (the usual way lists and simple tables are written)"""
    kids = [tighten(c) for c in n["children"]]
    if n["tag"] in ("li", "td") and len(kids) == 1 and kids[0]["tag"] == "p" and not n.get("text"):
        p = kids[0]
        return {**n, "text": p.get("text", ""), "children": p["children"]}
    return {**n, "children": kids}


def html_bytes(tree: dict, bare: bool = False, tight: bool = False) -> bytes:
    if tight:
        tree = tighten(tree)
    return ("<!DOCTYPE html>\n" + node_html(tree, bare=bare)).encode("utf-8")


def mhtml_bytes(html: bytes, encoding: str) -> bytes:
    boundary = "----=_NextPart_000_0000_01D00000.00000000"
    if encoding == "quoted-printable":
        payload = quopri.encodestring(html)
    elif encoding == "base64":
        payload = base64.encodebytes(html)
    else:
        payload = html
    head = (f"From: <Saved by verif>\r\nSubject: page\r\nMIME-Version: 1.0\r\n"
            f'Content-Type: multipart/related;\r\n\ttype="text/html";\r\n\tboundary="{boundary}"\r\n\r\n'
            f"This is a multi-part message in MIME format.\r\n\r\n--{boundary}\r\n"
            f'Content-Type: text/html;\r\n\tcharset="utf-8"\r\nContent-Transfer-Encoding: {encoding}\r\n'
            f"Content-Location: file:///C:/page.htm\r\n\r\n").encode()
    img = (f"\r\n--{boundary}\r\nContent-Type: image/gif\r\nContent-Transfer-Encoding: base64\r\n"
           f"Content-Location: file:///C:/x.gif\r\n\r\nR0lGODlhAQABAAAAACw=\r\n--{boundary}--\r\n").encode()
    return head + payload + img


def epub_package(chapters: list[str], title: str = "Book") -> bytes:
    """chapters: XHTML body markup (already serialised) per chapter"""
    b = io.BytesIO()
    with zipfile.ZipFile(b, "w", zipfile.ZIP_DEFLATED) as z:
        z.writestr(zipfile.ZipInfo("mimetype"), "application/epub+zip")
        z.writestr("META-INF/container.xml", '<?xml version="1.0"?><container version="1.0" xmlns="urn:oasis:names:tc:opendocument:xmlns:container">'
                   '<rootfiles><rootfile full-path="OEBPS/content.opf" media-type="application/oebps-package+xml"/></rootfiles></container>')
        items = "".join(f'<item id="c{i}" href="ch{i}.xhtml" media-type="application/xhtml+xml"/>' for i in range(len(chapters)))
        spine = "".join(f'<itemref idref="c{i}"/>' for i in range(len(chapters)))
        z.writestr("OEBPS/content.opf", '<?xml version="1.0"?><package xmlns="http://www.idpf.org/2007/opf" version="3.0" unique-identifier="id">'
                   '<metadata xmlns:dc="http://purl.org/dc/elements/1.1/"><dc:identifier id="id">urn:x</dc:identifier>'
                   f"<dc:title>{hesc(title)}</dc:title><dc:language>en</dc:language></metadata><manifest>{items}</manifest><spine>{spine}</spine></package>")
        for i, ch in enumerate(chapters):
            z.writestr(f"OEBPS/ch{i}.xhtml", '<?xml version="1.0" encoding="utf-8"?>\n<html xmlns="http://www.w3.org/1999/xhtml">' + ch + "</html>")
    return b.getvalue()


# ----------------------------------------------------------------------------- PPTX
def _sp_xml(shape: dict, body: ET.Element, sid: int) -> ET.Element:
    P, A = NSMAP["p"], NSMAP["a"]
    sp = ET.Element(clark("p:sp"))
    nv = ET.SubElement(sp, clark("p:nvSpPr"))
    c = ET.SubElement(nv, clark("p:cNvPr"))
    c.set("id", str(sid))
    c.set("name", "Shape %d" % sid)
    ET.SubElement(nv, clark("p:cNvSpPr"))
    nvpr = ET.SubElement(nv, clark("p:nvPr"))
    role = shape["role"]
    ph_type = {"title": "title", "ctrTitle": "ctrTitle", "body": "body", "subTitle": "subTitle", "obj": "obj",
               "idxOnly": None, "sldNum": "sldNum", "unknown": shape.get("ty", ""), "footer": "ftr", "date": "dt",
               "header": "hdr"}
    if role != "plain":
        ph = ET.SubElement(nvpr, clark("p:ph"))
        if ph_type[role]:
            ph.set("type", ph_type[role])
        if shape.get("idx"):
            ph.set("idx", shape["idx"])
    sppr = ET.SubElement(sp, clark("p:spPr"))
    if shape.get("pos") is not None:
        xf = ET.SubElement(sppr, clark("a:xfrm"))
        off = ET.SubElement(xf, clark("a:off"))
        off.set("x", str(shape["pos"][1]))
        off.set("y", str(shape["pos"][0]))
        ext = ET.SubElement(xf, clark("a:ext"))
        ext.set("cx", "100")
        ext.set("cy", "100")
    sp.append(body)
    return sp


def _frame_xml(shape: dict, cells: list[list[ET.Element]], sid: int) -> ET.Element:
    fr = ET.Element(clark("p:graphicFrame"))
    nv = ET.SubElement(fr, clark("p:nvGraphicFramePr"))
    c = ET.SubElement(nv, clark("p:cNvPr"))
    c.set("id", str(sid))
    c.set("name", "Table %d" % sid)
    ET.SubElement(nv, clark("p:cNvGraphicFramePr"))
    ET.SubElement(nv, clark("p:nvPr"))
    if shape.get("pos") is not None:
        xf = ET.SubElement(fr, clark("p:xfrm"))
        off = ET.SubElement(xf, clark("a:off"))
        off.set("x", str(shape["pos"][1]))
        off.set("y", str(shape["pos"][0]))
    g = ET.SubElement(fr, clark("a:graphic"))
    gd = ET.SubElement(g, clark("a:graphicData"))
    gd.set("uri", "http://schemas.openxmlformats.org/drawingml/2006/table")
    tbl = ET.SubElement(gd, clark("a:tbl"))
    ET.SubElement(tbl, clark("a:tblPr"))
    for row in cells:
        tr = ET.SubElement(tbl, clark("a:tr"))
        for cell in row:
            tc = ET.SubElement(tr, clark("a:tc"))
            tc.append(cell)
            ET.SubElement(tc, clark("a:tcPr"))
    return fr


def pptx_package(slides: list[dict], bodies: list[list[dict]], title: str = "") -> bytes:
    """slides: the deck description sent to Lean (with optional "notes": str, "comments": [str], "group": bool);
    bodies: Lean's rendered text bodies, same shape order"""
    b = io.BytesIO()
    with zipfile.ZipFile(b, "w", zipfile.ZIP_DEFLATED) as z:
        ct = ['<Default Extension="rels" ContentType="application/vnd.openxmlformats-package.relationships+xml"/>',
              '<Default Extension="xml" ContentType="application/xml"/>',
              '<Override PartName="/ppt/presentation.xml" ContentType="application/vnd.openxmlformats-officedocument.presentationml.presentation.main+xml"/>']
        prels, sldids = [], []
        for i, (sl, bd) in enumerate(zip(slides, bodies), 1):
            root = ET.Element(clark("p:sld"))
            csld = ET.SubElement(root, clark("p:cSld"))
            tree = ET.SubElement(csld, clark("p:spTree"))
            ET.SubElement(tree, clark("p:nvGrpSpPr"))
            ET.SubElement(tree, clark("p:grpSpPr"))
            parent = tree
            for k, (sh, body) in enumerate(zip(sl["shapes"], bd)):
                if sh.get("group"):  # a group shape around this one: shapes inside groups are still shapes of the slide
                    grp = ET.SubElement(tree, clark("p:grpSp"))
                    ET.SubElement(grp, clark("p:nvGrpSpPr"))
                    ET.SubElement(grp, clark("p:grpSpPr"))
                    parent = grp
                else:
                    parent = tree
                if "txBody" in body:
                    parent.append(_sp_xml(sh, to_et(body["txBody"]), 10 + k))
                else:
                    parent.append(_frame_xml(sh, [[to_et(c) for c in row] for row in body["cells"]], 10 + k))
            z.writestr(f"ppt/slides/slide{i}.xml", xml_bytes(root))
            ct.append(f'<Override PartName="/ppt/slides/slide{i}.xml" ContentType="application/vnd.openxmlformats-officedocument.presentationml.slide+xml"/>')
            prels.append(f'<Relationship Id="rId{i}" Type="http://schemas.openxmlformats.org/officeDocument/2006/relationships/slide" Target="slides/slide{i}.xml"/>')
            sldids.append(f'<p:sldId id="{255 + i}" r:id="rId{i}"/>')
            srels = []
            if sl.get("notes"):
                nroot = ET.Element(clark("p:notes"))
                ncs = ET.SubElement(nroot, clark("p:cSld"))
                ntree = ET.SubElement(ncs, clark("p:spTree"))
                nb = ET.Element(clark("p:txBody"))
                ap = ET.SubElement(nb, clark("a:p"))
                ar = ET.SubElement(ap, clark("a:r"))
                at = ET.SubElement(ar, clark("a:t"))
                at.text = sl["notes"]
                ntree.append(_sp_xml({"role": "body", "idx": "1", "pos": None}, nb, 2))
                z.writestr(f"ppt/notesSlides/notesSlide{i}.xml", xml_bytes(nroot))
                srels.append(f'<Relationship Id="rIdN" Type="http://schemas.openxmlformats.org/officeDocument/2006/relationships/notesSlide" Target="../notesSlides/notesSlide{i}.xml"/>')
            if sl.get("comments"):
                cl = ET.Element(clark("p:cmLst"))
                for j, s in enumerate(sl["comments"]):
                    cm = ET.SubElement(cl, clark("p:cm"))
                    cm.set("authorId", "0")
                    cm.set("dt", "2020-01-01T00:00:00")
                    cm.set("idx", str(j + 1))
                    tx = ET.SubElement(cm, clark("p:text"))
                    tx.text = s
                z.writestr(f"ppt/comments/comment{i}.xml", xml_bytes(cl))
                srels.append(f'<Relationship Id="rIdC" Type="http://schemas.openxmlformats.org/officeDocument/2006/relationships/comments" Target="../comments/comment{i}.xml"/>')
            z.writestr(f"ppt/slides/_rels/slide{i}.xml.rels", '<?xml version="1.0"?><Relationships xmlns="http://schemas.openxmlformats.org/package/2006/relationships">' + "".join(srels) + "</Relationships>")
        z.writestr("[Content_Types].xml", '<?xml version="1.0"?><Types xmlns="http://schemas.openxmlformats.org/package/2006/content-types">' + "".join(ct) + "</Types>")
        z.writestr("_rels/.rels", '<?xml version="1.0"?><Relationships xmlns="http://schemas.openxmlformats.org/package/2006/relationships">'
                   '<Relationship Id="rId1" Type="http://schemas.openxmlformats.org/officeDocument/2006/relationships/officeDocument" Target="ppt/presentation.xml"/></Relationships>')
        z.writestr("ppt/presentation.xml", '<?xml version="1.0"?><p:presentation xmlns:p="%s" xmlns:r="%s"><p:sldIdLst>%s</p:sldIdLst></p:presentation>'
                   % (NSMAP["p"], NSMAP["r"], "".join(sldids)))
        z.writestr("ppt/_rels/presentation.xml.rels", '<?xml version="1.0"?><Relationships xmlns="http://schemas.openxmlformats.org/package/2006/relationships">' + "".join(prels) + "</Relationships>")
        z.writestr("docProps/core.xml", '<?xml version="1.0"?><cp:coreProperties xmlns:cp="http://schemas.openxmlformats.org/package/2006/metadata/core-properties" '
                   'xmlns:dc="http://purl.org/dc/elements/1.1/"><dc:title>%s</dc:title></cp:coreProperties>' % hesc(title))
    return b.getvalue()


# ----------------------------------------------------------------------------- XLSX
def xlsx_package(sheets: list[dict]) -> bytes:
    import openpyxl
    wb = openpyxl.Workbook()
    wb.remove(wb.active)
    for sh in sheets:
        ws = wb.create_sheet(title=sh["name"])
        for r, row in enumerate(sh["rows"], 1):
            for c, v in enumerate(row, 1):
                if v is not None:
                    ws.cell(row=r, column=c, value=v)
    b = io.BytesIO()
    wb.save(b)
    return b.getvalue()
