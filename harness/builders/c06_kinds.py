"""C06 generators for two input classes on which a hidden dependence on process state / object identity shows.

1. encoding variants.  Text formats are decoded by sniffing a byte-order mark / declaration first.  `encodings(name,
   data)` re-encodes a UTF-8 decodable document as UTF-8 with BOM, UTF-16 LE / BE with BOM (and UTF-32 LE with BOM);
   `marked_html(rng)` builds small HTML documents with a heading, a paragraph and a table in each of those encodings
   plus one without any mark.  A sniffing table that is used up, reordered or cached by an earlier extraction makes
   such a document yield something else when it is not the first one of the process.

2. cell kinds.  `xlsx_kinds(rng)` writes workbooks (with the installed openpyxl, never recalculated, so formulas
   carry NO cached value) that hold every kind of cell value the reader can hand out: numbers, strings, booleans,
   dates, times, durations, error literals, hyperlinks, rich text, plain / array / data-table formulas, and the same
   with cached values.  A rendering that falls back to `str(object)` shows an address: never twice the same.

3. optional names absent.  `odf_unnamed(data)` drops every `draw:name` of an ODF fixture with images: fallback names
   made up from a process-wide counter / memo depend on what was extracted before.
"""
from __future__ import annotations

import codecs
import datetime
import io

BOMS = [("utf8sig", codecs.BOM_UTF8, "utf-8"), ("utf16le", codecs.BOM_UTF16_LE, "utf-16-le"),
        ("utf16be", codecs.BOM_UTF16_BE, "utf-16-be"), ("utf32le", codecs.BOM_UTF32_LE, "utf-32-le")]


def encodings(name, data):
    """(kind, bytes): the same text under another byte-order mark"""
    for bom, _, _ in [(b, None, None) for _, b, _ in BOMS]:
        if data.startswith(bom):
            return
    try:
        text = data.decode("utf-8")
    except UnicodeDecodeError:
        return
    if not text.strip() or "\x00" in text:
        return
    for kind, bom, enc in BOMS:
        yield kind, bom + text.encode(enc)


def marked_html(rng):
    """[(name, bytes)]: one small document per mark + one unmarked; distinct texts, so no two digests agree by accident"""
    out = []
    words = ["Übersicht", "Umsatz", "Quartal", "naïve", "coût", "€", "Ωμέγα", "данные", "表", "plain"]
    for kind, bom, enc in [("plain", b"", "utf-8")] + BOMS[:3]:
        w = rng.sample(words, 4)
        n = rng.randint(100, 999)
        doc = (f"<html><head><title>{w[0]} {n}</title></head><body><h1>{w[1]} {n}</h1><p>{w[2]}: {n} € – ok</p>"
               f"<table><tr><th>Q</th><th>{w[3]}</th></tr><tr><td>Q1</td><td>{n}</td></tr></table></body></html>")
        out.append((f"generated/marked-{kind}.html", bom + doc.encode(enc)))
    return out


def xlsx_kinds(rng):
    """[(name, bytes)] workbooks over the alphabet of cell values (uncached formulas of every kind, cached values)"""
    import warnings
    warnings.filterwarnings("ignore")
    from openpyxl import Workbook
    from openpyxl.worksheet.formula import ArrayFormula, DataTableFormula
    out = []
    for variant in ("formulas", "array-only", "mixed"):
        wb = Workbook()
        ws = wb.active
        ws.title = "Calc"
        a, b = rng.randint(2, 9), rng.randint(2, 9)
        ws.append(["qty", "price", "total", "when", "flag"])
        ws.append([a, b + 0.5, "=A2*B2", datetime.datetime(2020 + a, 1 + b, 3, 4, 5, 6), True])
        ws.append([b, a + 0.25, "=A3*B3", datetime.time(a, b, 7), False])
        if variant != "array-only":
            ws.append(["dur", datetime.timedelta(hours=24 + a, minutes=b), "#N/A", datetime.date(2019, 2, 3), None])
        ws["A6"] = "sum of products"
        ws["C6"] = ArrayFormula("C6", "=SUM(A2:A3*B2:B3)")
        if variant != "array-only":
            try:
                ws["D6"] = DataTableFormula(ref="D6:D6", dt2D=False, r1="A2")
            except Exception:
                pass
            ws["E6"] = "link"
            ws["E6"].hyperlink = f"https://example.org/{a}{b}"
        if variant == "mixed":
            try:
                from openpyxl.cell.rich_text import CellRichText, TextBlock
                from openpyxl.cell.text import InlineFont
                ws["A7"] = CellRichText("plain ", TextBlock(InlineFont(b=True), f"bold{a}"))
            except Exception:
                pass
            ws2 = wb.create_sheet("Second")
            ws2.append(["k", "v"])
            ws2.append(["x", ArrayFormula("B2:B3", "=TRANSPOSE(Calc!A2:B2)")])
            ws2.merge_cells("A4:B4")
            ws2["A4"] = "merged"
        buf = io.BytesIO()
        wb.save(buf)
        out.append((f"generated/kinds-{variant}.xlsx", buf.getvalue()))
    return out


def odf_unnamed(data):
    """the same ODF package with every optional `draw:name` / `svg:title` of its frames dropped (images, shapes and
    frames then get whatever fallback name the extractor makes up) — None when there is nothing to drop"""
    import re
    import zipfile
    from builders.c06_decls import _rezip
    try:
        z = zipfile.ZipFile(io.BytesIO(data))
        xml = z.read("content.xml").decode("utf-8")
    except Exception:
        return None
    new = re.sub(r'\sdraw:name="[^"]*"', "", xml)
    if new == xml or "draw:image" not in xml:
        return None
    return _rezip(data, {"content.xml": new.encode("utf-8")})
