"""C03: reference writer for multi-page PDFs whose pages SHARE objects (content streams, resource dictionaries,
fonts, form XObjects, page-tree nodes) in every combination a producer can emit.

A document is a JSON-able spec; the text each page shows is known by construction (`shown(spec)`), so the property
oracle needs no model and no second PDF reader:

  spec = {"pages": [page, ...], "tree": "flat" | "nested"}   (nested: every page under its own intermediate /Pages node)
  page = {"how":  "direct"  own content stream "(TOKk) Tj"
                | "form"    content stream "q /Fm0 Do Q"; /Fm0 is this page's form XObject showing TOKk
                | "font"    content stream "(TOK#) Tj"; '#' is this page's digit through the /Differences of its font /F1
                | "empty"   no text at all (see "empty": "nocontents" | "emptystream" | "blank" | "image")
                | "repeat"  the very same /Contents AND /Resources objects as page `of` (0-based) - shows what that page shows,
          "share": "object" | "bytes" | "own"   the content stream is the SAME indirect object as that of the other pages
                                                with the same `how`, an equal-bytes copy, or a private stream (padding comment),
          "res":  "inline" | "ref" | "inherit"  /Resources is a direct dictionary in the page, an indirect object, or
                                                absent from the page and inherited from its own intermediate /Pages node,
          "sub":  "inline" | "ref"              the /XObject or /Font sub-dictionary inside /Resources is direct or indirect,
          "contents": "ref" | "array" | "refarray"   /Contents n 0 R | [a 0 R n 0 R z 0 R] | m 0 R -> [ ... ],
          "k": digit shown (1..9)}

Pages with the same `how` and share="object" reference ONE stream object while each has its own resources: the shape
produced by imposition / stamping / mail-merge tools.
"""
from __future__ import annotations

DIGIT_NAMES = ["zero", "one", "two", "three", "four", "five", "six", "seven", "eight", "nine"]
PNG_1PX_GRAY = b"\x80"


def shown(spec):
    """tokens each page shows, in page order (list of lists)."""
    out = []
    for p in spec["pages"]:
        if p["how"] == "empty":
            out.append([])
        elif p["how"] == "repeat":
            out.append(list(out[p["of"]]))
        else:
            out.append([f"TOK{p['k']}"])
    return out


class _W:
    def __init__(self):
        self.objs = {}
        self.n = 0

    def new(self, body: bytes | None = None) -> int:
        self.n += 1
        self.objs[self.n] = body
        return self.n

    def put(self, num: int, body: bytes):
        self.objs[num] = body


def _stream(dic: bytes, data: bytes) -> bytes:
    return b"<< " + dic + b" /Length " + str(len(data)).encode() + b" >>\nstream\n" + data + b"\nendstream"


def build_pdf(spec) -> bytes:
    w = _W()
    catalog, root = w.new(), w.new()
    plain_font = w.new(b"<< /Type /Font /Subtype /Type1 /BaseFont /Helvetica /Encoding /WinAnsiEncoding >>")
    shared = {}                     # how -> shared stream object

    def content_stream(how, data, share, idx):
        if share == "object":
            if how not in shared:
                shared[how] = w.new(_stream(b"", data))
            return shared[how]
        if share == "bytes":
            return w.new(_stream(b"", data))
        return w.new(_stream(b"", data + b"\n%% page %d" % idx))

    q_open = q_close = None
    page_objs = []                  # (page object number, parent number placeholder, dict bytes without /Parent)
    built = []                      # per page: (contents entry bytes, resources bytes or None, inherit resources bytes or None)
    for idx, p in enumerate(spec["pages"]):
        how = p["how"]
        if how == "repeat":
            built.append(built[p["of"]])
            continue
        res_inner = b""
        data = None
        if how == "direct":
            data = b"BT /F1 14 Tf 72 700 Td (TOK%d) Tj ET" % p["k"]
            fonts = b"<< /F1 %d 0 R >>" % plain_font
            share = "own" if p.get("share") == "object" else p.get("share", "own")     # a direct token cannot be shared
            cs = w.new(_stream(b"", data)) if share != "own" else w.new(_stream(b"", data + b"\n%% page %d" % idx))
            sub = (b"%d 0 R" % w.new(fonts)) if p.get("sub") == "ref" else fonts
            res_inner = b"/Font " + sub
        elif how == "form":
            form = w.new(_stream(b"/Type /XObject /Subtype /Form /BBox [0 0 612 792] /Resources << /Font << /F1 %d 0 R >> >>" % plain_font,
                                 b"BT /F1 14 Tf 72 700 Td (TOK%d) Tj ET" % p["k"]))
            cs = content_stream(how, b"q /Fm0 Do Q", p.get("share", "object"), idx)
            xo = b"<< /Fm0 %d 0 R >>" % form
            sub = (b"%d 0 R" % w.new(xo)) if p.get("sub") == "ref" else xo
            res_inner = b"/XObject " + sub
        elif how == "font":
            font = w.new(b"<< /Type /Font /Subtype /Type1 /BaseFont /Helvetica /Encoding << /Type /Encoding /BaseEncoding /WinAnsiEncoding "
                         b"/Differences [35 /%s] >> >>" % DIGIT_NAMES[p["k"]].encode())
            cs = content_stream(how, b"BT /F1 14 Tf 72 700 Td (TOK#) Tj ET", p.get("share", "object"), idx)
            fonts = b"<< /F1 %d 0 R >>" % font
            sub = (b"%d 0 R" % w.new(fonts)) if p.get("sub") == "ref" else fonts
            res_inner = b"/Font " + sub
        else:                       # empty
            kind = p.get("empty", "nocontents")
            cs = None
            if kind == "emptystream":
                cs = content_stream("empty", b"", p.get("share", "object"), idx)
            elif kind == "blank":
                cs = content_stream("blank", b"BT /F1 14 Tf 72 700 Td ( ) Tj ET", p.get("share", "object"), idx)
                res_inner = b"/Font << /F1 %d 0 R >>" % plain_font
            elif kind == "image":
                img = w.new(_stream(b"/Type /XObject /Subtype /Image /Width 1 /Height 1 /ColorSpace /DeviceGray /BitsPerComponent 8", PNG_1PX_GRAY))
                cs = content_stream("image", b"q 10 0 0 10 72 700 cm /Im0 Do Q", p.get("share", "object"), idx)
                res_inner = b"/XObject << /Im0 %d 0 R >>" % img
        resources = b"<< " + res_inner + b" >>"
        if cs is None:
            contents = None
        else:
            form_ = p.get("contents", "ref")
            if form_ == "ref":
                contents = b"%d 0 R" % cs
            else:
                if q_open is None:
                    q_open, q_close = w.new(_stream(b"", b"q")), w.new(_stream(b"", b"Q"))
                arr = b"[%d 0 R %d 0 R %d 0 R]" % (q_open, cs, q_close)
                contents = arr if form_ == "array" else b"%d 0 R" % w.new(arr)
        mode = p.get("res", "inline")
        if mode == "ref":
            built.append((contents, b"%d 0 R" % w.new(resources), None))
        elif mode == "inherit":
            built.append((contents, None, resources))
        else:
            built.append((contents, resources, None))
    kids = []
    nested = spec.get("tree") == "nested"
    for idx, (contents, res, inh) in enumerate(built):
        pg = w.new()
        parent = root
        if inh is not None or nested:
            node = w.new()
            w.put(node, b"<< /Type /Pages /Parent %d 0 R /Kids [%d 0 R] /Count 1" % (root, pg) + (b" /Resources " + inh if inh is not None else b"") + b" >>")
            parent = node
            kids.append(node)
        else:
            kids.append(pg)
        d = b"<< /Type /Page /Parent %d 0 R /MediaBox [0 0 612 792]" % parent
        if contents is not None:
            d += b" /Contents " + contents
        if res is not None:
            d += b" /Resources " + res
        w.put(pg, d + b" >>")
    w.put(root, b"<< /Type /Pages /Kids [" + b" ".join(b"%d 0 R" % k for k in kids) + b"] /Count %d >>" % len(built))
    w.put(catalog, b"<< /Type /Catalog /Pages %d 0 R >>" % root)
    out = bytearray(b"%PDF-1.4\n%\xe2\xe3\xcf\xd3\n")
    offsets = {}
    for num in sorted(w.objs):
        offsets[num] = len(out)
        out += b"%d 0 obj\n" % num + w.objs[num] + b"\nendobj\n"
    xref = len(out)
    size = w.n + 1
    out += b"xref\n0 %d\n0000000000 65535 f \n" % size
    for num in range(1, size):
        out += b"%010d 00000 n \n" % offsets[num]
    out += b"trailer\n<< /Size %d /Root %d 0 R >>\nstartxref\n%d\n%%%%EOF\n" % (size, catalog, xref)
    return bytes(out)


def gen_pdf_spec(rng, wild=True):
    """1..6 pages; every page draws its mechanism, the sharing of its content stream and the placement of its
    resources independently of the other pages (so equal streams with different resources, equal resources with
    different streams, and genuinely repeated pages all occur)."""
    n = rng.randint(1, 6)
    pages = []
    # a document usually has one dominant mechanism (that is what makes streams shared): draw it, then deviate per page
    main = rng.choice(["form", "font", "direct", "form", "font"])
    for i in range(n):
        how = main if rng.random() < 0.65 else rng.choice(["direct", "form", "font", "empty", "empty"])
        if i and rng.random() < 0.12:
            pages.append({"how": "repeat", "of": rng.randrange(i)})
            continue
        p = {"how": how, "k": rng.randint(1, 9) if (wild and rng.random() < 0.25) else (i + 1),
             "share": rng.choice(["object", "object", "bytes", "own"]),
             "res": rng.choice(["inline", "inline", "ref", "inherit"]),
             "sub": rng.choice(["inline", "ref"]),
             "contents": rng.choice(["ref", "ref", "array", "refarray"])}
        if how == "empty":
            p["empty"] = rng.choice(["nocontents", "emptystream", "blank", "image"])
        pages.append(p)
    return {"pages": pages, "tree": rng.choice(["flat", "flat", "nested"])}
