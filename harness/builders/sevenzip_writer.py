"""Minimal independent 7z *writer* (reference packer for C10), after 7-Zip's 7zFormat.txt.

Only the standard library is used (lzma with FORMAT_RAW filters, zlib.crc32).  It produces the
layouts real packers produce:

  * coders COPY (00), LZMA (03 01 01, 5 property bytes), LZMA2 (21, 1 property byte);
  * solid (one folder for all files), one folder per file, or any mixed grouping, each folder
    with its own coder and its own pack stream;
  * directories and empty files interleaved anywhere (EmptyStream / EmptyFile vectors);
  * CRCs in SubStreamsInfo (as 7-Zip / p7zip / py7zr write them), optional pack-stream CRCs;
  * NumUnpackStream omitted when every folder holds exactly one file (as 7-Zip does);
  * attributes (Windows style or p7zip unix style), optional MTime property, optional kDummy padding;
  * plain header or encoded (compressed) header like 7-Zip's default.

This file shares no code with sharepoint2text.
"""
from __future__ import annotations

import lzma
import struct
import zlib

MAGIC = b"7z\xbc\xaf\x27\x1c"

K_END, K_HEADER, K_MAIN_STREAMS, K_FILES = 0x00, 0x01, 0x04, 0x05
K_PACK_INFO, K_UNPACK_INFO, K_SUBSTREAMS = 0x06, 0x07, 0x08
K_SIZE, K_CRC, K_FOLDER, K_CODERS_UNPACK_SIZE, K_NUM_UNPACK_STREAM = 0x09, 0x0A, 0x0B, 0x0C, 0x0D
K_EMPTY_STREAM, K_EMPTY_FILE, K_NAMES, K_MTIME, K_ATTRS = 0x0E, 0x0F, 0x11, 0x14, 0x15
K_ENCODED_HEADER, K_DUMMY = 0x17, 0x19

ID_COPY, ID_LZMA, ID_LZMA2 = b"\x00", b"\x03\x01\x01", b"\x21"


def number(n: int) -> bytes:
    """7z variable-length UINT64 (REAL_UINT64 in 7zFormat.txt)."""
    assert 0 <= n < 1 << 64
    for k in range(8):  # k = number of extra bytes
        if n < 1 << (7 * (k + 1)):
            first_mask = (0xFF00 >> k) & 0xFF  # k leading one bits
            high = n >> (8 * k)
            return bytes([first_mask | high]) + (n & ((1 << (8 * k)) - 1)).to_bytes(k, "little")
    return b"\xff" + n.to_bytes(8, "little")


def bitvector(bits) -> bytes:
    out = bytearray()
    cur, mask = 0, 0x80
    for b in bits:
        if b:
            cur |= mask
        mask >>= 1
        if mask == 0:
            out.append(cur)
            cur, mask = 0, 0x80
    if mask != 0x80:
        out.append(cur)
    return bytes(out)


def _lzma1_props(lc=3, lp=0, pb=2, dict_size=1 << 16) -> bytes:
    return bytes([(pb * 5 + lp) * 9 + lc]) + struct.pack("<I", dict_size)


def _lzma2_prop(dict_size: int) -> int:
    for p in range(40):
        if ((2 | (p & 1)) << (p // 2 + 11)) >= dict_size:
            return p
    return 40


def lzma2_dict(prop: int) -> int:
    """dictionary size an LZMA2 property byte stands for (xz file format / 7-Zip Lzma2Dec.c): 40 = 4 GiB - 1"""
    return 0xFFFFFFFF if prop == 40 else (2 | (prop & 1)) << (prop // 2 + 11)


def coder_base(coder: str) -> str:
    return coder.split(":")[0]


def encode(coder: str, data: bytes):
    """-> (coder id, properties or None, packed bytes).
    coder: "copy" | "lzma" | "lzma2" | "lzma2:<property byte 0..39>" (the encoder uses exactly the dictionary the byte
    stands for, as 7-Zip does when it shrinks the dictionary to the data) | "lzma:<lc>:<lp>:<pb>:<dictionary size>"."""
    base, *par = coder.split(":")
    if base == "copy":
        return ID_COPY, None, data
    if base == "lzma":
        lc, lp, pb, ds = (int(x) for x in par) if par else (3, 0, 2, 1 << 16)
        flt = {"id": lzma.FILTER_LZMA1, "dict_size": ds, "lc": lc, "lp": lp, "pb": pb}
        return ID_LZMA, _lzma1_props(lc, lp, pb, ds), lzma.compress(data, format=lzma.FORMAT_RAW, filters=[flt])
    if base == "lzma2":
        prop = int(par[0]) if par else _lzma2_prop(1 << 16)
        flt = {"id": lzma.FILTER_LZMA2, "dict_size": lzma2_dict(prop)}
        return ID_LZMA2, bytes([prop]), lzma.compress(data, format=lzma.FORMAT_RAW, filters=[flt])
    raise ValueError(coder)


def _folder(coder_id: bytes, props) -> bytes:
    out = number(1)  # one coder
    flags = len(coder_id) | (0x20 if props is not None else 0)
    out += bytes([flags]) + coder_id
    if props is not None:
        out += number(len(props)) + props
    return out  # no bind pairs, one packed stream


def _digests(crcs) -> bytes:
    return bytes([K_CRC, 1]) + b"".join(struct.pack("<I", c) for c in crcs)


def _streams_info(pack_pos, folders, with_pack_crc=False, folder_crc=False, substreams=True, always_num_streams=False) -> bytes:
    """folders: list of dict(coder_id, props, packed, sizes=[file sizes], crcs=[file crcs], data=bytes)"""
    out = bytes([K_PACK_INFO]) + number(pack_pos) + number(len(folders))
    out += bytes([K_SIZE]) + b"".join(number(len(f["packed"])) for f in folders)
    if with_pack_crc:
        out += _digests([zlib.crc32(f["packed"]) for f in folders])
    out += bytes([K_END])
    out += bytes([K_UNPACK_INFO, K_FOLDER]) + number(len(folders)) + b"\x00"
    out += b"".join(_folder(f["coder_id"], f["props"]) for f in folders)
    out += bytes([K_CODERS_UNPACK_SIZE]) + b"".join(number(len(f["data"])) for f in folders)
    if folder_crc:
        out += _digests([zlib.crc32(f["data"]) for f in folders])
    out += bytes([K_END])
    if substreams:
        out += bytes([K_SUBSTREAMS])
        if always_num_streams or any(len(f["sizes"]) != 1 for f in folders):
            out += bytes([K_NUM_UNPACK_STREAM]) + b"".join(number(len(f["sizes"])) for f in folders)
        if any(len(f["sizes"]) > 1 for f in folders):
            out += bytes([K_SIZE]) + b"".join(number(s) for f in folders for s in f.get("declared", f["sizes"])[:-1])
        # digests for every stream whose CRC is not already known from the folder
        crcs = [c for f in folders for c in f["crcs"] if not (folder_crc and len(f["sizes"]) == 1)]
        if crcs:
            out += _digests(crcs)
        out += bytes([K_END])
    out += bytes([K_END])
    return out


def _prop(pid: int, body: bytes) -> bytes:
    return bytes([pid]) + number(len(body)) + body


def build_7z(entries, groups=None, coders="copy", *, encode_header=None, attrs="win", mtime=False, dummy=0,
             with_pack_crc=False, folder_crc=False, always_num_streams=False, names_first=False, skew=None,
             attr_values=None) -> bytes:
    """entries: [(name, kind, data)] with kind in {"dir", "file"}; files with data == b"" are 7z *empty files*.
    groups: sizes of consecutive groups of the non-empty files (one folder each); None = solid.
    coders: one coder name or one per group.  encode_header: None | "copy" | "lzma" | "lzma2".
    attr_values: explicit 32-bit attribute values, one per entry (overrides the win / unix defaults)."""
    nonempty = [(n, d) for (n, k, d) in entries if k == "file" and d]
    if groups is None:
        groups = [len(nonempty)] if nonempty else []
    assert sum(groups) == len(nonempty) and all(g >= 1 for g in groups)
    if isinstance(coders, str):
        coders = [coders] * len(groups)
    folders, i = [], 0
    for g, c in zip(groups, coders):
        files = nonempty[i:i + g]
        i += g
        data = b"".join(d for _, d in files)
        cid, props, packed = encode(c, data)
        folders.append(dict(coder_id=cid, props=props, packed=packed, data=data,
                            sizes=[len(d) for _, d in files], crcs=[zlib.crc32(d) for _, d in files]))
    if skew:  # NOT a standard layout: declared substream sizes that do not match the files (malformed-stream generator)
        for f in folders:
            if len(f["sizes"]) > 1:
                d = list(f["sizes"])
                if skew == "zero-last":      # explicit sizes already add up to the folder size
                    d[-2] += d[-1]
                elif skew == "overflow":     # explicit sizes exceed the folder size
                    d[0] += sum(d)
                else:                        # "short": the last file gets more than its share
                    d[0] = max(0, d[0] - 1)
                f["declared"] = d
                break
    packed_streams = b"".join(f["packed"] for f in folders)

    hdr = bytes([K_HEADER])
    if folders:
        hdr += bytes([K_MAIN_STREAMS]) + _streams_info(0, folders, with_pack_crc, folder_crc, True, always_num_streams)
    if entries:
        fi = number(len(entries))
        empty_stream = [not (k == "file" and d) for (_, k, d) in entries]
        props = []
        if any(empty_stream):
            props.append(_prop(K_EMPTY_STREAM, bitvector(empty_stream)))
            empty_file = [k == "file" for (_, k, d) in entries if not (k == "file" and d)]
            if any(empty_file):
                props.append(_prop(K_EMPTY_FILE, bitvector(empty_file)))
        names = _prop(K_NAMES, b"\x00" + b"".join(n.encode("utf-16-le") + b"\x00\x00" for (n, _, _) in entries))
        if names_first:
            props.insert(0, names)
        else:
            props.append(names)
        if dummy:
            props.append(_prop(K_DUMMY, b"\x00" * dummy))
        if mtime:
            props.append(_prop(K_MTIME, b"\x01\x00" + b"".join(struct.pack("<Q", 0x01DC7D4A6F24B200 + 7 * j) for j in range(len(entries)))))
        if attrs:
            vals = []
            for (_, k, _) in entries:
                if attrs == "win":
                    vals.append(0x10 if k == "dir" else 0x20)
                else:  # p7zip: unix mode << 16 | 0x8000 | windows attribute
                    vals.append(((0o040755 << 16) | 0x8000 | 0x10) if k == "dir" else ((0o100644 << 16) | 0x8000 | 0x20))
            if attr_values is not None:
                assert len(attr_values) == len(entries)
                vals = list(attr_values)
            props.append(_prop(K_ATTRS, b"\x01\x00" + b"".join(struct.pack("<I", v) for v in vals)))
        hdr += bytes([K_FILES]) + fi + b"".join(props) + bytes([K_END])
    hdr += bytes([K_END])

    body = packed_streams
    if encode_header:
        cid, props, packed = encode(encode_header, hdr)
        hf = dict(coder_id=cid, props=props, packed=packed, data=hdr, sizes=[len(hdr)], crcs=[zlib.crc32(hdr)])
        enc = bytes([K_ENCODED_HEADER]) + _streams_info(len(body), [hf], False, True, False)
        # _streams_info ends with kEnd of the StreamsInfo; an encoded header is exactly one StreamsInfo
        body += packed
        hdr = enc
    start = struct.pack("<QQI", len(body), len(hdr), zlib.crc32(hdr))
    return MAGIC + b"\x00\x04" + struct.pack("<I", zlib.crc32(start)) + start + body + hdr
