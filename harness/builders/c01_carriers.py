"""C01 input builders.

(1) carriers: real documents that hand a chosen text to the library's own regular expressions through an
    extractor — EPUB (nav document, NCX, OPF metadata, chapter body), RTF body, HTML, MHTML, mbox.
(2) late-failure inputs: multi-result files (archives, mailboxes) built so that a failure can only surface
    AFTER an earlier result was produced (later member with a CRC mismatch / unsupported method / truncated
    data / damaged folder), for the CLI discipline.
"""
from __future__ import annotations

import gzip
import io
import os
import struct
import sys
import tarfile
import zipfile

HERE = os.path.dirname(os.path.abspath(__file__))
if HERE not in sys.path:
    sys.path.insert(0, HERE)

_CONTAINER = b"""<?xml version="1.0"?>
<container version="1.0" xmlns="urn:oasis:names:tc:opendocument:xmlns:container">
  <rootfiles><rootfile full-path="OEBPS/content.opf" media-type="application/oebps-package+xml"/></rootfiles>
</container>"""

_OPF = """<?xml version="1.0" encoding="utf-8"?>
<package xmlns="http://www.idpf.org/2007/opf" version="3.0" unique-identifier="id">
  <metadata xmlns:dc="http://purl.org/dc/elements/1.1/">
    <dc:title>%(title)s</dc:title><dc:language>en</dc:language><dc:identifier id="id">x</dc:identifier>
    <dc:creator>%(title)s</dc:creator><dc:description>%(title)s</dc:description>
  </metadata>
  <manifest>
    <item id="nav" href="nav.xhtml" media-type="application/xhtml+xml" properties="nav"/>
    <item id="ncx" href="toc.ncx" media-type="application/x-dtbncx+xml"/>
    <item id="c1" href="c1.xhtml" media-type="application/xhtml+xml"/>
  </manifest>
  <spine toc="ncx"><itemref idref="c1"/></spine>
</package>"""

_NAV = (b'<?xml version="1.0" encoding="utf-8"?>\n<html xmlns="http://www.w3.org/1999/xhtml" xmlns:epub="http://www.idpf.org/2007/ops">'
        b'<body><nav epub:type="toc"><ol><li><a href="c1.xhtml">One</a></li><li>')
_NCX = ('<?xml version="1.0" encoding="utf-8"?><ncx xmlns="http://www.daisy.org/z3986/2005/ncx/" version="2005-1"><navMap>'
        '<navPoint id="p1" playOrder="1"><navLabel><text>%s</text></navLabel><content src="c1.xhtml"/></navPoint></navMap></ncx>')
_CHAPTER = b'<html xmlns="http://www.w3.org/1999/xhtml"><head><title>One</title></head><body><p>Hello.</p><p>'


def _xml_escape(b: bytes) -> bytes:
    out = b.replace(b"&", b"&amp;").replace(b"<", b"&lt;").replace(b">", b"&gt;").replace(b'"', b"&quot;")
    return bytes(c for c in out if c >= 0x20 or c in (9, 10, 13))


def epub(nav: bytes | None = None, ncx: bytes | None = None, title: bytes = b"T", chapter: bytes | None = None, nav_no_ncx=False) -> bytes:
    buf = io.BytesIO()
    with zipfile.ZipFile(buf, "w", zipfile.ZIP_DEFLATED) as zf:
        zf.writestr("mimetype", b"application/epub+zip", compress_type=zipfile.ZIP_STORED)
        zf.writestr("META-INF/container.xml", _CONTAINER)
        zf.writestr("OEBPS/content.opf", (_OPF % {"title": "@@T@@"}).encode().replace(b"@@T@@", title))
        zf.writestr("OEBPS/nav.xhtml", nav if nav is not None else _NAV + b"</li></ol></nav></body></html>")
        zf.writestr("OEBPS/toc.ncx", ncx if ncx is not None else (_NCX % "One").encode())
        zf.writestr("OEBPS/c1.xhtml", chapter if chapter is not None else _CHAPTER + b"</p></body></html>")
    return buf.getvalue()


def _b(text) -> bytes:
    return text if isinstance(text, (bytes, bytearray)) else text.encode("utf-8", "surrogatepass")


# file of the package -> [(carrier label, extractor file-type, build(text) -> document bytes)]
def carriers():
    E = "sharepoint2text/parsing/extractors/"
    return {
        E + "epub_extractor.py": [
            ("epub-nav-body", "epub", lambda t: epub(nav=_NAV + _b(t))),                      # nav document cut right after the text
            ("epub-nav-closed", "epub", lambda t: epub(nav=_NAV + _b(t) + b"</li></ol></nav></body></html>")),
            ("epub-nav-raw", "epub", lambda t: epub(nav=_b(t))),
            ("epub-ncx-label", "epub", lambda t: epub(nav=b"<html/>", ncx=(_NCX % "@@").encode().replace(b"@@", _xml_escape(_b(t))))),
            ("epub-opf-title", "epub", lambda t: epub(title=_xml_escape(_b(t)))),
            ("epub-chapter-body", "epub", lambda t: epub(chapter=_CHAPTER + _b(t))),
            ("epub-chapter-escaped", "epub", lambda t: epub(chapter=_CHAPTER + _xml_escape(_b(t)) + b"</p></body></html>")),
        ],
        E + "ms_legacy/rtf_extractor.py": [
            ("rtf-body", "rtf", lambda t: b"{\\rtf1\\ansi " + _b(t) + b"}"),
            ("rtf-body-open", "rtf", lambda t: b"{\\rtf1\\ansi " + _b(t)),
            ("rtf-after-text", "rtf", lambda t: b"{\\rtf1\\ansi hello\\par " + _b(t) + b"\\par bye}"),
            # inside the \\info group (the metadata patterns are applied to that group's content only); the group's own
            # closing brace directly follows the text, so a cut text stays cut inside the group
            ("rtf-info", "rtf", lambda t: b"{\\rtf1\\ansi{\\info " + _b(t) + b"}\\pard hello\\par}"),
            ("rtf-info-after", "rtf", lambda t: b"{\\rtf1\\ansi{\\info{\\author a}" + _b(t) + b"}{\\fonttbl{\\f0 Arial;}}\\pard hello\\par}"),
        ],
        E + "html_extractor.py": [
            ("html-body", "html", lambda t: b"<html><head><title>t</title></head><body><p>" + _b(t) + b"</p></body></html>"),
            ("html-head", "html", lambda t: b"<html><head>" + _b(t) + b"</head><body><p>x</p></body></html>"),
            ("html-raw", "html", lambda t: _b(t)),
        ],
        E + "mhtml_extractor.py": [
            ("mhtml-part", "mhtml", lambda t: b"MIME-Version: 1.0\r\nContent-Type: multipart/related; boundary=\"b\"\r\n\r\n--b\r\n" + _b(t) + b"\r\n--b--\r\n"),
            ("mhtml-body", "mhtml", lambda t: b"MIME-Version: 1.0\r\nContent-Type: multipart/related; boundary=\"b\"\r\n\r\n--b\r\nContent-Type: text/html\r\n\r\n<html><body>" + _b(t) + b"</body></html>\r\n--b--\r\n"),
            ("mhtml-raw", "mhtml", lambda t: _b(t)),
        ],
        E + "mail/mbox_email_extractor.py": [
            ("mbox-lines", "mbox", lambda t: b"From a@b Thu Jan  1 00:00:00 1970\nSubject: s\n\n" + _b(t) + b"\n"),
            ("mbox-header", "mbox", lambda t: b"From a@b Thu Jan  1 00:00:00 1970\nSubject: " + _b(t).replace(b"\n", b"\n ") + b"\n\nbody\n"),
            ("mbox-raw", "mbox", lambda t: _b(t)),
        ],
    }


# ----------------------------------------------------------------------------- late-failure inputs
A = b"first member: perfectly fine text\n"
B = b"second member: this payload gets damaged\n"


def _zip(members, method=zipfile.ZIP_STORED):
    buf = io.BytesIO()
    with zipfile.ZipFile(buf, "w", method) as z:
        for n, c in members:
            z.writestr(n, c)
    return bytearray(buf.getvalue())


def _nth(d, sig, k):
    i = -1
    for _ in range(k + 1):
        i = d.index(sig, i + 1)
    return i


def _tar(members):
    buf = io.BytesIO()
    with tarfile.open(fileobj=buf, mode="w", format=tarfile.USTAR_FORMAT) as t:
        for n, c in members:
            ti = tarfile.TarInfo(n)
            ti.size = len(c)
            t.addfile(ti, io.BytesIO(c))
    return buf.getvalue()


def late_failure_inputs(rng):
    """[(file name, bytes, what is damaged)] — the first supported member / message is intact, a later one is not"""
    out = []
    filler = bytes(rng.randrange(32, 127) for _ in range(4000))
    # ZIP, stored: one bit of member k's data flipped (CRC mismatch when that member is read)
    for k, names in ((1, ("a.txt", "b.txt")), (1, ("a.txt", "b.txt", "c.txt")), (2, ("a.md", "b.csv", "c.txt"))):
        members = [(n, A if i != k else B) for i, n in enumerate(names)]
        d = _zip(members)
        d[d.index(B) + rng.randrange(len(B))] ^= 1 << rng.randrange(8)
        out.append((f"crc{k}of{len(names)}.zip", bytes(d), f"bit flip in stored member {k}"))
    # ZIP, deflated: a flipped bit inside member 1's compressed stream
    d = _zip([("a.txt", A), ("b.txt", filler)], zipfile.ZIP_DEFLATED)
    i = _nth(d, b"PK\x03\x04", 1)
    d[i + 30 + 5 + 100 + rng.randrange(200)] ^= 0x10
    out.append(("deflate.zip", bytes(d), "bit flip in deflated member 1"))
    # ZIP: unsupported compression method on member 1 (local + central header)
    for meth in (99, 1, 6):
        d = _zip([("a.txt", A), ("b.txt", B)])
        i = _nth(d, b"PK\x03\x04", 1)
        d[i + 8:i + 10] = struct.pack("<H", meth)
        j = _nth(d, b"PK\x01\x02", 1)
        d[j + 10:j + 12] = struct.pack("<H", meth)
        out.append((f"method{meth}.zip", bytes(d), f"member 1 uses compression method {meth}"))
    # ZIP: member 1 declares a larger size than it has (truncated member data)
    d = _zip([("a.txt", A), ("b.txt", B)])
    j = _nth(d, b"PK\x01\x02", 1)
    d[j + 20:j + 28] = struct.pack("<II", len(B) + 40, len(B) + 40)
    out.append(("size.zip", bytes(d), "member 1's central sizes exceed its data"))
    # ZIP: good text, then a nested archive that is damaged, then good text
    inner = _zip([("x.txt", A), ("y.txt", B)])
    inner[inner.index(B) + 3] ^= 4
    out.append(("nested.zip", bytes(_zip([("a.txt", A), ("in.zip", bytes(inner)), ("z.txt", A)])), "nested archive with a CRC mismatch in its member 1"))
    # TAR: later member truncated / later header damaged; tar.gz / tgz / tar.bz2 with a damaged tail
    t = _tar([("a.txt", A), ("b.txt", filler), ("c.txt", A)])
    out.append(("cut.tar", t[:512 + 512 + 512 + 700], "member 1 truncated"))
    tb = bytearray(t)
    tb[1024 + 150] ^= 0x55
    out.append(("hdr.tar", bytes(tb), "checksum field of header 1 damaged"))
    g = bytearray(gzip.compress(t))
    g[len(g) * 2 // 3] ^= 0xFF
    out.append(("tail.tar.gz", bytes(g), "gzip stream damaged in its last third"))
    out.append(("tail.tgz", bytes(g[: len(g) * 2 // 3]), "gzip stream truncated"))
    import bz2
    bz = bytearray(bz2.compress(t))
    bz[len(bz) * 2 // 3] ^= 0xFF
    out.append(("tail.tar.bz2", bytes(bz), "bzip2 stream damaged in its last third"))
    # 7z: one folder per file, the later folder's packed stream damaged
    try:
        import sevenzip_writer as szw
        for coder in ("copy", "lzma", "lzma2"):
            blob = bytearray(szw.build_7z([("a.txt", "file", A), ("b.txt", "file", B * 20)], groups=[1, 1], coders=["copy", coder]))
            for k in range(6, 30):
                blob[32 + len(A) + k] ^= 0xFF
            out.append((f"folder1-{coder}.7z", bytes(blob), f"packed stream of folder 1 ({coder}) damaged"))
    except Exception:  # noqa: the writer is another property's builder
        pass
    # mbox: second message broken (bad multipart / undecodable bytes)
    out.append(("late.mbox", b"From a@b Thu Jan  1 00:00:00 1970\nSubject: one\n\nbody one\n\n"
                             b"From c@d Thu Jan  1 00:00:00 1970\nContent-Type: multipart/mixed; boundary=\nContent-Transfer-Encoding: base64\n\n\xff\xfe\x00garbage===\n",
                "second message has an empty multipart boundary and undecodable bytes"))
    return out
