"""C12: observations of the REAL code on (1) histories call / resize / consume of read_file on one path and
(2) compressed streams that are not the container the dispatcher expects and understate what they expand to.

Plain data out; the comparison with the Lean models (S2T.ReadHistory, S2T.Inflate) and the property oracle live in
harness/props/c12.py.  SAFETY: files <= 1 MiB for histories; streams expand to <= 8 MiB (one default-limit case: 24 MiB)."""
from __future__ import annotations

import bz2
import gzip
import io
import lzma
import os
import tempfile
import tracemalloc

from builders.c12_limits import _Config, tar_archive

MB = 1024 * 1024
MAX_HISTORY_SIZE = MB
RESIZE_MODES = ("rewrite", "grow", "replace")


# ------------------------------------------------------------------ histories of read_file on one path
def _resize(fp, n, mode, fill):
    n = min(n, MAX_HISTORY_SIZE)
    if mode == "replace":                    # a new file takes the path (new inode)
        tmp = fp + ".new"
        with open(tmp, "wb") as fh:
            fh.write(fill * n)
        os.replace(tmp, fp)
    elif mode == "grow":                     # append / truncate in place (same inode, same leading bytes)
        cur = os.path.getsize(fp)
        if n >= cur:
            with open(fp, "ab") as fh:
                fh.write(fill * (n - cur))
        else:
            with open(fp, "r+b") as fh:
                fh.truncate(n)
    else:
        with open(fp, "wb") as fh:
            fh.write(fill * n)


def read_file_history(size0, events, name="f.txt"):
    """events: {"ev": "call", "limit": L} | {"ev": "resize", "size": n, "mode": m} | {"ev": "consume", "i": k}.
    -> one observation per event: "none" | "reject" | "stale" | {"read": characters of text delivered} | "ERR:<class>".
    The read_file() call itself belongs to the observation (a guard that runs at call time raises there)."""
    import sharepoint2text
    from sharepoint2text.parsing.exceptions import ExtractionFileTooLargeError
    obs, pending = [], []
    with tempfile.TemporaryDirectory(prefix="s2t_c12h_") as td:
        fp = os.path.join(td, name)
        _resize(fp, size0, "rewrite", b"a")
        for k, e in enumerate(events):
            if e["ev"] == "resize":
                _resize(fp, e["size"], e.get("mode", "rewrite"), b"abcdefgh"[k % 8:k % 8 + 1])
                obs.append("none")
            elif e["ev"] == "call":
                try:
                    pending.append(sharepoint2text.read_file(fp, max_file_size=e["limit"]))
                    obs.append("none")
                except ExtractionFileTooLargeError:
                    pending.append(None)
                    obs.append("reject")
                except Exception as ex:
                    pending.append(None)
                    obs.append("ERR:" + type(ex).__name__)
            else:
                i = e["i"]
                gen = pending[i] if i < len(pending) else None
                if gen is None:
                    obs.append("stale")
                    continue
                pending[i] = None
                try:
                    obs.append({"read": sum(len(r.get_full_text()) for r in gen)})
                except ExtractionFileTooLargeError:
                    obs.append("reject")
                except Exception as ex:
                    obs.append("ERR:" + type(ex).__name__)
        for g in pending:                   # do not leave suspended generators holding files
            if g is not None and hasattr(g, "close"):
                try:
                    g.close()
                except Exception:
                    pass
    return obs


def history_windows(size0, events):
    """per call: (limit, sizes the file had from the call up to its consumption), independent of any implementation"""
    size, calls = size0, []
    for e in events:
        if e["ev"] == "resize":
            size = min(e["size"], MAX_HISTORY_SIZE)
            for c in calls:
                if c["open"]:
                    c["sizes"].append(size)
        elif e["ev"] == "call":
            calls.append({"limit": e["limit"], "sizes": [size], "open": True})
        elif e["i"] < len(calls):
            calls[e["i"]]["open"] = False
    return calls


def gen_history(rng):
    lim = rng.choice([0, -1, 7, 1000, 1000, 4096, 4096])
    base = lim if lim > 0 else 50

    def size():
        return max(0, rng.choice([0, 1, base - 1, base, base + 1, 2 * base, 16 * base, rng.randint(0, 3 * base)]))
    size0, events, n_calls, consumed = size(), [], 0, set()
    for _ in range(rng.randint(2, 8)):
        r = rng.random()
        if r < 0.35 or n_calls == 0:
            events.append({"ev": "call", "limit": lim if rng.random() < 0.8 else rng.choice([0, 7, 1000, 4096])})
            n_calls += 1
        elif r < 0.7:
            events.append({"ev": "resize", "size": size(), "mode": rng.choice(RESIZE_MODES)})
        else:
            i = rng.randrange(n_calls) if rng.random() < 0.9 else n_calls
            events.append({"ev": "consume", "i": i})
            consumed.add(i)
    for i in range(n_calls):                # every result is consumed in the end
        if i not in consumed and rng.random() < 0.8:
            events.append({"ev": "consume", "i": i})
    return size0, events


def fixed_histories():
    C, R, U = (lambda l: {"ev": "call", "limit": l}), (lambda n, m="rewrite": {"ev": "resize", "size": n, "mode": m}), (lambda i: {"ev": "consume", "i": i})
    hs = []
    for mode in RESIZE_MODES:
        hs += [(512, [C(4096), R(65536, mode), U(0)]),                                  # call -> grows -> consume
               (10, [C(1000), R(1001, mode), U(0)]),
               (1000, [C(1000), U(0), R(5000, mode), C(1000), U(1)]),                   # consumed once, grows, asked again
               (5000, [C(1000), R(10, mode), U(0)]),                                    # too large at the call, small when read
               (10, [C(1000), C(1000), R(2000, mode), U(1), R(20, mode), U(0)]),        # two results, consumed out of order
               (10, [C(7), R(8, mode), C(0), U(1), U(0)]),                              # different limits on one path
               (10, [C(1000), R(5000, mode), R(900, mode), U(0)])]                      # above the limit only in between
    hs += [(10, [C(1000), U(0), U(0)]), (5, [C(0), R(50000), U(0)]), (7, [C(7), U(0)]), (8, [C(7), U(0)])]
    return hs


# ------------------------------------------------------------------ compressed streams
_CODECS = {"gz": lambda b: gzip.compress(b, compresslevel=6, mtime=0), "bz2": lambda b: bz2.compress(b, 9),
           "xz": lambda b: lzma.compress(b, preset=1)}
_STREAM_CACHE = {}


def stream_bytes(codec, members, forge_isize=None):
    """concatenated <codec> streams, member k expanding to members[k] bytes of text (RFC 1952 §2.2 for gzip; bz2 / xz
    files are sequences of streams too).  forge_isize: overwrite the last four bytes (gzip ISIZE)."""
    key = (codec, tuple(members), forge_isize)
    if key not in _STREAM_CACHE:
        if sum(members) > 64 * MB:
            raise ValueError("refusing a stream that expands to more than 64 MiB")
        data = b"".join(_CODECS[codec](b"a" * n) for n in members)
        if forge_isize is not None and codec == "gz":
            data = data[:-4] + int(forge_isize).to_bytes(4, "little")
        _STREAM_CACHE[key] = data
    return _STREAM_CACHE[key]


def tar_then_stream(members):
    """a genuine .tar.gz (one small member) followed by further gzip members"""
    return tar_archive([{"name": "a.txt", "type": "reg", "size": 20}], gz=True) + stream_bytes("gz", members)


def gzip_facts(members, limit):
    """what CPython's gzip says about a multi-member file: ISIZE of the trailer, bytes it expands to, bytes a read(limit+1) yields"""
    data = stream_bytes("gz", members) if members else b""
    if not members:
        return {"isize": 0, "inflated": 0, "bounded_read": 0}
    return {"isize": int.from_bytes(data[-4:], "little"), "inflated": len(gzip.decompress(data)),
            "bounded_read": len(gzip.GzipFile(fileobj=io.BytesIO(data)).read(limit + 1))}


def stream_run(limit, data, name, via):
    """run the library on `data` (via = "read_archive": read_archive(BytesIO, path=name); "read_file": a real file of that name)
    -> {"outcome", "chars": characters of text returned, "peak": tracemalloc peak of additional Python memory}"""
    from sharepoint2text.parsing.exceptions import ExtractionError
    from sharepoint2text.parsing.extractors.archive_extractor import read_archive
    import sharepoint2text

    def once(blob):
        if via == "read_file":
            with tempfile.TemporaryDirectory(prefix="s2t_c12s_") as td:
                fp = os.path.join(td, name)
                with open(fp, "wb") as fh:
                    fh.write(blob)
                return list(sharepoint2text.read_file(fp))
        return list(read_archive(io.BytesIO(blob), path=name))
    with _Config(limit):
        codec = "bz2" if data[:3] == b"BZh" else "xz" if data[:6] == b"\xfd7zXZ\x00" else "gz"
        try:                                # warm-up on an honest 3-byte stream: imports, caches, logging set-up
            once(stream_bytes(codec, [3]))
        except Exception:
            pass
        was = tracemalloc.is_tracing()
        if not was:
            tracemalloc.start()
        tracemalloc.reset_peak()
        base = tracemalloc.get_traced_memory()[0]
        chars, outcome = 0, ""
        try:
            res = once(data)
            chars = sum(len(r.get_full_text()) for r in res)
            outcome = f"{len(res)} result(s)"
            del res
        except ExtractionError as ex:
            outcome = f"refused ({type(ex).__name__})"
        except Exception as ex:
            outcome = f"ERR:{type(ex).__name__}"
        peak = tracemalloc.get_traced_memory()[1] - base
        if not was:
            tracemalloc.stop()
    return {"outcome": outcome, "chars": chars, "peak": max(0, peak)}
