"""C13 builder: RTF tables written with every separator the format allows between the table tokens.

In RTF a control word ends at a space (which belongs to the control word), at any other character that is not a letter
or digit (the next backslash, a brace), or at a line end; CR / LF between tokens carry no meaning, and any run of
tokens may be wrapped in a group.  So between two table tokens a writer may put nothing at all (`\\row\\trowd`,
`\\cellx3000\\pard`, `\\cell\\row` - compact writers do), one space, a line end (LF or CR LF), or group braces.  A row
layout names the choice for every slot of a written row; all slots are independent:

  defs_open   after \\trowd                         ""  |  more row-definition control words
  cellx_sep   between two \\cellxN                   ""  |  " "  |  LF
  defs_close  after the last \\cellxN                " "  |  ""  |  LF  |  CR LF
  cell_open / cell_close   around the paragraphs of a cell   \\pard\\intbl + space / LF / a group
  par         between the paragraphs of a cell      \\par + space / LF / CR LF / next control word
  cell_wrap   a group around the whole cell INCLUDING its \\cell ({\\pard\\intbl a\\cell}: a brace follows \\cell)
  cell_end    the \\cell and what follows it         \\cell + space / nothing / LF / CR LF
  row_open / row_close     a group around the whole row        nothing | { }
  before_row  between the last cell and \\row        nothing | \\pard\\intbl | the row definition once more (\\trowd\\cellxN…:
                                                    Word writes two \\trowd in front of one \\row)
  row_end     after \\row (and the closing brace)    LF  |  nothing  |  space  |  CR LF

`DEFAULT` is the layout of `c13b.rtf_table` (what the Lean theorems of the first round were stated for).
"""
from __future__ import annotations

from builders import c13b

SLOTS = {
    "defs_open": ["", "\\trgaph108\\trleft-108"],
    "cellx_sep": ["", " ", "\n"],
    "defs_close": [" ", "", "\n", "\r\n"],
    "cell_open": ["\\pard\\intbl ", "\\pard\\intbl\n", "\\pard\\intbl{", "\\pard\\plain\\intbl\\f0\\fs20 "],
    "par": ["\\par ", "\\par\n", "\\par\r\n", "\\par\\pard\\intbl "],
    "cell_wrap": ["", "{"],
    "cell_end": ["\\cell ", "\\cell", "\\cell\n", "\\cell\r\n"],
    "row_open": ["", "{"],
    "before_row": ["", "\\pard\\intbl", "\\pard\\intbl \\trowd\\trgaph108\\cellx1500\\cellx3000"],
    "row_end": ["\n", "", " ", "\r\n"],
}
DEFAULT = {k: v[0] for k, v in SLOTS.items()}
KEYS = list(SLOTS)


def norm(layout) -> dict:
    o = dict(DEFAULT)
    o.update(layout or {})
    return o


def cell_close(L) -> str:
    return "}" if L["cell_open"].endswith("{") else ""


def row_close(L) -> str:
    return "}" if L["row_open"].endswith("{") else ""


def rtf_row(r, layout=None) -> str:
    L = norm(layout)
    cellx = L["cellx_sep"].join(f"\\cellx{1500 * (i + 1)}" for i in range(len(r)))
    wrap_close = "}" if L["cell_wrap"].endswith("{") else ""
    cells = "".join(L["cell_wrap"] + L["cell_open"] + L["par"].join(c13b._rtf_esc(p) for p in c) + cell_close(L) + L["cell_end"] + wrap_close
                    for c in r)
    return L["row_open"] + "\\trowd" + L["defs_open"] + cellx + L["defs_close"] + cells + L["before_row"] + "\\row" + row_close(L) + L["row_end"]


def rtf_table(rows, layouts=None) -> str:
    """layouts: one layout per row (None = DEFAULT)"""
    layouts = list(layouts or [])
    layouts += [None] * (len(rows) - len(layouts))
    return "".join(rtf_row(r, L) for r, L in zip(rows, layouts))


def rtf_doc(blocks) -> bytes:
    """blocks: ["p", text] | ["t", rows] | ["tl", rows, layouts]"""
    out = ["{\\rtf1\\ansi\\deff0 {\\fonttbl{\\f0 Times New Roman;}}\n"]
    for b in blocks:
        if b[0] == "p":
            out.append("\\pard " + c13b._rtf_esc(b[1]) + "\\par\n")
        elif b[0] == "t":
            out.append(c13b.rtf_table(b[1]))
        else:
            out.append(rtf_table(b[1], b[2]))
    out.append("}")
    return "".join(out).encode("ascii")


def rtf_text(blocks) -> str:
    return rtf_doc(blocks).decode("ascii")


def gen_layout(rng) -> dict:
    """every slot chosen independently"""
    return {k: rng.choice(v) for k, v in SLOTS.items()}


def gen_layouts(rng, n_rows: int):
    """layouts of the rows of one table: only what follows \\row varies (the layouts the Lean theorems speak about), one
    layout for all rows (what one writer does), rows differing only in what follows \\row, or every row its own layout"""
    k = rng.random()
    if k < 0.3:
        one = rng.choice(SLOTS["row_end"]) if rng.random() < 0.5 else None
        return [{"row_end": one if one is not None else rng.choice(SLOTS["row_end"])} for _ in range(n_rows)]
    if k < 0.6:
        L = gen_layout(rng)
        return [dict(L) for _ in range(n_rows)]
    if k < 0.8:
        L = gen_layout(rng)
        return [dict(L, row_end=rng.choice(SLOTS["row_end"])) for _ in range(n_rows)]
    return [gen_layout(rng) for _ in range(n_rows)]
