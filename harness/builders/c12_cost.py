"""C12 — COST observations on whole archives through the public entry point `read_archive` (no Lean model involved).

Two quantities the property statement bounds by the (uncompressed) input size and that no result comparison sees:

* WORK PER INPUT BYTE (`reread_run`): the archive is handed over as a BytesIO whose every read / rewind is counted.
  A container is a forward stream (tar.gz / tar.bz2 / tar.xz inflate from the start after every step BACK; a ZIP / plain TAR
  seeks); the statement allows a fixed number of passes, so `bytes read from the input <= c * len(input)` and the number of
  rewinds to offset 0 does not grow with the number of members — whatever the STORED ORDER of the members is
  (ascending / descending / shuffled / two interleaved directories / round-robin over ten directories).
* NESTING (`nested_run`): a member that is itself a compressed archive (by CONTENT: zip / tar.gz / tar.bz2 / tar.xz), under ANY
  member name (the name universe is everything `mimetypes` knows + every string that looks like an extension in the
  router's / archive extractor's tables + compound and upper-case forms), must not be unpacked recursively: depth d with
  fan-out f would hand f^d documents to extractors from an archive of ~1 KB.  Detection uses depth 1 (a marker text in the
  inner archive's documents must not come back); the witness is a depth <= 4, fan-out <= 3 nest judged by text per byte.

SAFETY: depth <= 4, fan-out <= 3, leaf 4 KB (81 leaves = 324 KB of text at most); the order archives hold <= 200 members of
2 KB (a quadratic re-reader reads ~30 MB).
"""
from __future__ import annotations

import io
import mimetypes
import random
import tarfile
import zipfile

MARKER = "C12-NESTED-LEAF-MARKER"
MAX_DEPTH, MAX_FAN = 4, 3
LEAF = (MARKER + " all work and no play makes jack a dull boy\n") * 60          # ~4 KB
INNER_KINDS = ("tar.gz", "zip", "tar.bz2", "tar.xz")     # COMPRESSED containers only: a plain tar read as text shows its members' text legitimately and cannot amplify
OUTER_KINDS = ("zip", "tar.gz")
ORDER_KINDS = ("tar.gz", "tar.bz2", "tar.xz", "tar", "zip")
ORDERS = ("ascending", "descending", "shuffled", "interleaved", "dirs")


class CountingBytesIO(io.BytesIO):
    """the input archive; counts the bytes the library reads from it and its rewinds to the start"""

    def __init__(self, data):
        super().__init__(data)
        self.n_read, self.rewinds = 0, 0

    def read(self, *a):
        d = super().read(*a)
        self.n_read += len(d)
        return d

    def read1(self, *a):
        d = super().read1(*a)
        self.n_read += len(d)
        return d

    def readinto(self, b):
        n = super().readinto(b)
        self.n_read += n or 0
        return n

    def readline(self, *a):
        d = super().readline(*a)
        self.n_read += len(d)
        return d

    def getvalue(self):
        d = super().getvalue()
        self.n_read += len(d)
        return d

    def getbuffer(self):
        self.n_read += len(super().getvalue())
        return super().getbuffer()

    def seek(self, pos, whence=0):
        if whence == 0 and pos == 0 and self.tell() > 0:
            self.rewinds += 1
        return super().seek(pos, whence)


def pack(kind, members):
    """members: [(name, bytes)] in STORED order -> archive bytes of `kind` (zip | tar | tar.gz | tar.bz2 | tar.xz)"""
    buf = io.BytesIO()
    if kind == "zip":
        with zipfile.ZipFile(buf, "w", zipfile.ZIP_DEFLATED) as zf:
            for nm, d in members:
                zf.writestr(zipfile.ZipInfo(nm, date_time=(2020, 1, 1, 0, 0, 0)), d, compress_type=zipfile.ZIP_DEFLATED)
        return buf.getvalue()
    mode = {"tar": "w", "tar.gz": "w:gz", "tar.bz2": "w:bz2", "tar.xz": "w:xz"}[kind]
    kw = {"compresslevel": 1} if kind in ("tar.gz", "tar.bz2") else {"preset": 0} if kind == "tar.xz" else {}
    with tarfile.open(fileobj=buf, mode=mode, **kw) as tf:
        for nm, d in members:
            ti = tarfile.TarInfo(nm)
            ti.size = len(d)
            tf.addfile(ti, io.BytesIO(d))
    return buf.getvalue()


def unpacked_len(kind, data):
    """one level of decompression of the container (what the statement calls the uncompressed input size)"""
    import bz2
    import gzip
    import lzma
    if kind == "tar.gz":
        return len(gzip.decompress(data))
    if kind == "tar.bz2":
        return len(bz2.decompress(data))
    if kind == "tar.xz":
        return len(lzma.decompress(data))
    if kind == "zip":
        with zipfile.ZipFile(io.BytesIO(data)) as zf:
            return sum(i.file_size for i in zf.infolist()) + len(data)
    return len(data)


def _run(data, path):
    """read_archive on counted input -> dict"""
    from sharepoint2text.parsing.extractors.archive_extractor import read_archive
    f = CountingBytesIO(data)
    docs, chars, marked, err = 0, 0, 0, None
    try:
        for r in read_archive(f, path=path):
            docs += 1
            t = r.get_full_text()
            chars += len(t)
            if MARKER in t:
                marked += 1
            if chars > 64 * 2**20:
                err = "harness: stopped above 64 MB of text"
                break
    except Exception as e:                                      # a refusal is fine for the statement
        err = type(e).__name__
    return {"docs": docs, "chars": chars, "marked": marked, "err": err, "n_read": f.n_read, "rewinds": f.rewinds, "len": len(data)}


# ---------------------------------------------------------------------------- stored order vs. work
def order_names(order, n, seed=0):
    names = [f"doc_{i:04d}.txt" for i in range(n)]
    if order == "descending":
        names.reverse()
    elif order == "shuffled":
        random.Random(seed).shuffle(names)
    elif order == "interleaved":                # b/…, a/…, b/…, a/… : every second step goes back when sorted by path
        names = [("b/" if i % 2 == 0 else "a/") + nm for i, nm in enumerate(names)]
    elif order == "dirs":                       # round-robin over ten directories: grouping by directory goes back once per directory
        names = [f"d{i % 10}/{nm}" for i, nm in enumerate(names)]
    return names


def order_archive(kind, order, n, size=2048, seed=0):
    if n > 200 or size > 8192:
        raise ValueError("order archive too large for the harness")
    rng = random.Random(1000 + seed)
    members = []
    for i, nm in enumerate(order_names(order, n, seed)):
        # printable but hardly compressible text: the archive stays close to n * size bytes
        body = "".join(rng.choice("abcdefghijklmnopqrstuvwxyzABCDEFGHIJKLMNOPQRSTUVWXYZ0123456789 \n") for _ in range(size))
        members.append((nm, body.encode()))
    return pack(kind, members)


def reread_run(kind, order, n, size=2048, seed=0):
    data = order_archive(kind, order, n, size, seed)
    got = _run(data, "bundle." + kind)
    got.update(kind=kind, order=order, n=n, size=size)
    return got


# ---------------------------------------------------------------------------- nesting
def name_universe():
    """every suffix a member name might carry that some table of the interpreter or of the library knows"""
    mimetypes.init()
    exts = set(mimetypes.types_map) | set(mimetypes.common_types) | set(mimetypes.suffix_map) | set(mimetypes.encodings_map)
    try:
        from sharepoint2text.parsing import router as R
        from sharepoint2text.parsing.extractors import archive_extractor as A
        for mod in (R, A):
            for v in vars(mod).values():
                items = list(v.keys()) + list(v.values()) if isinstance(v, dict) else list(v) if isinstance(v, (set, frozenset, tuple, list)) else []
                for x in items:
                    if isinstance(x, str) and 0 < len(x) <= 12 and "/" not in x and " " not in x and x.replace(".", "").replace("_", "").isalnum():
                        exts.add(x if x.startswith(".") else "." + x)
    except Exception:
        pass
    exts |= {".tar", ".tgz", ".taz", ".tz", ".tbz", ".tbz2", ".tb2", ".txz", ".tlz", ".tzst", ".zip", ".7z", ".gz", ".bz2", ".xz", ".z",
             ".jar", ".war", ".ear", ".apk", ".whl", ".egg", ".cbz", ".cbt", ".cb7", ".zipx", ".gtar", ".ustar", ".cpio", ".lzma", ".zst"}
    enc = sorted(set(mimetypes.encodings_map) | {".gz", ".bz2", ".xz"})
    exts |= {".tar" + e for e in enc} | {".zip" + e for e in enc[:2]} | {".txt" + e for e in enc}
    exts = {e.lower() for e in exts if e and e != "."}
    out = sorted(exts) + sorted({e.upper() for e in exts if e.upper() != e and e in (".tar.gz", ".tgz", ".taz", ".tz", ".zip", ".gz", ".tar", ".7z", ".tbz2", ".txz")})
    out += ["", ".backup.taz", ".v1.tz"]
    return out


_LEAF_BLOBS = {}


def leaf_blob(kind):
    if kind not in _LEAF_BLOBS:
        _LEAF_BLOBS[kind] = pack(kind, [("leaf0.txt", LEAF.encode()), ("leaf1.txt", LEAF.encode())])
    return _LEAF_BLOBS[kind]


def probe_archive(outer, inner, suffixes):
    return pack(outer, [(f"d{i}/n{i}{sfx}", leaf_blob(inner)) for i, sfx in enumerate(suffixes)] + [("readme.txt", b"top-level document\n")])


def leaking_suffixes(outer, inner, suffixes):
    """the suffixes under which an inner archive's documents come back (depth-1 probe, bisected)"""
    def leaks(sub):
        return _run(probe_archive(outer, inner, sub), "outer." + outer)["marked"] > 0
    found, todo = [], [list(suffixes)]
    if not leaks(todo[0]):
        return found
    while todo and len(found) < 3:
        cur = todo.pop()
        if len(cur) == 1:
            found.append(cur[0])
            continue
        lo, hi = cur[:len(cur) // 2], cur[len(cur) // 2:]
        for part in (hi, lo):
            if leaks(part):
                todo.append(part)
    return found


def nested_archive(outer, inner, suffix, depth, fan):
    if depth > MAX_DEPTH or fan > MAX_FAN or depth < 0 or fan < 1:
        raise ValueError("nest too large for the harness")
    blob = pack(inner, [("leaf.txt", LEAF.encode())])
    for level in range(depth):
        kind = outer if level == depth - 1 else inner
        blob = pack(kind, [(f"part{i}{suffix}", blob) for i in range(fan)] + [("readme.txt", b"top-level document\n")])
    return blob


def nested_run(outer, inner, suffix, depth, fan):
    data = nested_archive(outer, inner, suffix, depth, fan)
    got = _run(data, "outer." + outer)
    got.update(unpacked=unpacked_len(outer if depth > 0 else inner, data), outer=outer, inner=inner, suffix=suffix, depth=depth, fan=fan)
    return got
