"""XLSX package around worksheet parts rendered by the Lean driver (C02 part 'sheets'):
[Content_Types].xml, _rels/.rels, xl/workbook.xml (+ rels) and one xl/worksheets/sheetN.xml per rendered sheet."""
from __future__ import annotations

import io
import zipfile
from xml.sax.saxutils import quoteattr

_CT = ('<?xml version="1.0" encoding="UTF-8" standalone="yes"?>'
       '<Types xmlns="http://schemas.openxmlformats.org/package/2006/content-types">'
       '<Default Extension="rels" ContentType="application/vnd.openxmlformats-package.relationships+xml"/>'
       '<Default Extension="xml" ContentType="application/xml"/>'
       '<Override PartName="/xl/workbook.xml" ContentType="application/vnd.openxmlformats-officedocument.spreadsheetml.sheet.main+xml"/>'
       '%s</Types>')
_RELS = ('<?xml version="1.0" encoding="UTF-8" standalone="yes"?>'
         '<Relationships xmlns="http://schemas.openxmlformats.org/package/2006/relationships">'
         '<Relationship Id="rId1" Type="http://schemas.openxmlformats.org/officeDocument/2006/relationships/officeDocument" Target="xl/workbook.xml"/>'
         '</Relationships>')


def xlsx_package(sheet_xmls: list[str], names: list[str]) -> bytes:
    n = len(sheet_xmls)
    overrides = "".join('<Override PartName="/xl/worksheets/sheet%d.xml" ContentType="application/vnd.openxmlformats-officedocument.spreadsheetml.worksheet+xml"/>' % (i + 1)
                        for i in range(n))
    wb = ('<?xml version="1.0" encoding="UTF-8" standalone="yes"?>'
          '<workbook xmlns="http://schemas.openxmlformats.org/spreadsheetml/2006/main" '
          'xmlns:r="http://schemas.openxmlformats.org/officeDocument/2006/relationships"><sheets>'
          + "".join('<sheet name=%s sheetId="%d" r:id="rId%d"/>' % (quoteattr(names[i]), i + 1, i + 1) for i in range(n))
          + '</sheets></workbook>')
    wrels = ('<?xml version="1.0" encoding="UTF-8" standalone="yes"?>'
             '<Relationships xmlns="http://schemas.openxmlformats.org/package/2006/relationships">'
             + "".join('<Relationship Id="rId%d" Type="http://schemas.openxmlformats.org/officeDocument/2006/relationships/worksheet" Target="worksheets/sheet%d.xml"/>' % (i + 1, i + 1)
                       for i in range(n))
             + '</Relationships>')
    buf = io.BytesIO()
    with zipfile.ZipFile(buf, "w", zipfile.ZIP_DEFLATED) as z:
        z.writestr("[Content_Types].xml", _CT % overrides)
        z.writestr("_rels/.rels", _RELS)
        z.writestr("xl/workbook.xml", wb)
        z.writestr("xl/_rels/workbook.xml.rels", wrels)
        for i, x in enumerate(sheet_xmls):
            z.writestr("xl/worksheets/sheet%d.xml" % (i + 1), '<?xml version="1.0" encoding="UTF-8" standalone="yes"?>' + x)
    return buf.getvalue()
