"""C12, fourth part: XML entity / DTD constructs inside the XML parts of every ZIP-container format
(DOCX / PPTX / XLSX / ODT / ODS / ODP / ODG / ODF / EPUB), behind every kind of leading bytes.

Three layers:
* `part_bytes(desc)`  — one XML part from the abstract description the Lean model `S2T.XmlEnt` is stated over
  (BOM, leading whitespace, XML declaration, DOCTYPE, internal general entities, character data of the root);
* base packages (hand-written minimal ones + the small fixtures of the repository), the set of XML members an
  extractor really READS (observed through ZipFile.read / ZipFile.open), `inject` = put leading bytes / a DTD with
  entities / a reference into ONE such member of a package;
* `measure` — text length and peak traced memory of one real extraction.

SAFETY: the largest expansion any input built here can reach — also under a library that expands entities — is
FAN**MAX_LEVELS * len(SENTINEL) = 2 MiB per reference, one reference per input (`Unsafe` otherwise); expat itself
stops at an amplification of 100 above 8 MiB.
"""
from __future__ import annotations

import io
import os
import re
import tracemalloc
import zipfile

FAN = 16
MAX_LEVELS = 4
SENTINEL = "c12-laughs-are-bounded-by-input-"          # 32 characters
QUAD_MAX = 300                                          # quadratic blow-up: entity of a chars referenced m times, a, m <= 300
XML_DECL = b'<?xml version="1.0" encoding="UTF-8"?>'
BOM = b"\xef\xbb\xbf"
LEADS = {"none": b"", "bom": BOM, "lf": b"\n", "crlf": b"\r\n", "space": b" ", "tab-lf": b"\t\n", "bom-lf": BOM + b"\n",
         "bom-crlf-crlf": BOM + b"\r\n\r\n",
         # not leading bytes but the other way to make a parser give up BEFORE it sees the DTD: a declared encoding
         # that neither expat nor Python knows (defusedxml / ElementTree raise LookupError for it)
         "enc-unknown": b""}
DECLS = {"enc-unknown": b'<?xml version="1.0" encoding="utf8mb4"?>'}


class Unsafe(ValueError):
    pass


# ------------------------------------------------------------------ one part from the model's description
# desc = {"bom": bool, "ws": int, "decl": bool, "doctype": bool, "ents": [[item]], "body": [item]}
# item = ["lit", n] | ["ref", i] | ["amp"]
ENT_NAME = "e{}"
ROOT = ("<r>", "</r>")
DOCTYPE = ("<!DOCTYPE r [", "]>")
ENT_DECL = ('<!ENTITY {} "', '">')
SIZES = {"decl": len(XML_DECL), "dtd": len(DOCTYPE[0]) + len(DOCTYPE[1]), "ent": len('<!ENTITY  "">'), "root": len(ROOT[0]) + len(ROOT[1])}


def _items(items):
    out = []
    for it in items:
        if it[0] == "lit":
            out.append("x" * it[1])
        elif it[0] == "ref":
            out.append("&" + ENT_NAME.format(it[1]) + ";")
        else:
            out.append("&amp;")
    return "".join(out)


def worst_case_len(desc):
    """expanded length of the body if every reference is expanded (plain recursion over EARLIER entities)"""
    lens = []
    def ln(items):
        return sum(it[1] if it[0] == "lit" else (lens[it[1]] if it[0] == "ref" and it[1] < len(lens) else 1) for it in items)
    for v in desc["ents"]:
        lens.append(ln(v))
    return ln(desc["body"])


def part_bytes(desc) -> bytes:
    if worst_case_len(desc) > 4 * 2 ** 20:
        raise Unsafe("expansion above 4 MiB")
    out = [BOM if desc["bom"] else b"", b"\n" * desc["ws"], XML_DECL if desc["decl"] else b""]
    if desc["doctype"]:
        out.append(DOCTYPE[0].encode())
        for i, v in enumerate(desc["ents"]):
            out.append((ENT_DECL[0].format(ENT_NAME.format(i)) + _items(v) + ENT_DECL[1]).encode())
        out.append(DOCTYPE[1].encode())
    out.append((ROOT[0] + _items(desc["body"]) + ROOT[1]).encode())
    return b"".join(out)


def model_request(desc, site):
    return {"op": "c12.xml_part", "site": site, "sizes": SIZES, **desc}


def classify_exc(e) -> str:
    """ParseError-class / forbidden-class / other, by the real exception hierarchy"""
    from xml.etree.ElementTree import ParseError
    import defusedxml
    if isinstance(e, defusedxml.DefusedXmlException):
        return "forbidden"
    if isinstance(e, ParseError):
        return "parse-error"
    return "other:" + type(e).__name__


def read_part(data: bytes):
    """the real `read_zip_xml_root` (through ZipContext.read_xml_root, as the extractors call it) on a stored
    one-member ZIP -> ("ok", characters of the tree) | ("parse-error",) | ("forbidden",) | ("other:…",)"""
    from sharepoint2text.parsing.extractors.util.zip_context import ZipContext
    b = io.BytesIO()
    with zipfile.ZipFile(b, "w", zipfile.ZIP_STORED) as z:
        z.writestr("p.xml", data)
    ctx = ZipContext(io.BytesIO(b.getvalue()))
    try:
        try:
            root = ctx.read_xml_root("p.xml")
        except Exception as e:  # noqa
            return (classify_exc(e),)
        return ("ok", sum(len(t) for t in root.itertext()))
    finally:
        ctx.close()


def read_part_lenient(data: bytes):
    """the reference chain of the Lean counterexample theorems on the REAL parsers: defusedxml first; on ParseError the
    stripped bytes through the plain xml.etree parser (what `S2T.XmlEnt.lenientFallback` models)"""
    from xml.etree.ElementTree import ParseError, XMLParser
    from defusedxml import ElementTree as DET
    try:
        try:
            root = DET.fromstring(data)
        except ParseError:
            parser = XMLParser()
            parser.feed(data.lstrip(BOM + b" \t\r\n"))
            root = parser.close()
    except Exception as e:  # noqa
        return (classify_exc(e),)
    return ("ok", sum(len(t) for t in root.itertext()))


# ------------------------------------------------------------------ base packages
def _zip(parts, compress=zipfile.ZIP_DEFLATED) -> bytes:
    b = io.BytesIO()
    with zipfile.ZipFile(b, "w", compress) as z:
        for name, data in parts.items():
            z.writestr(name, data, zipfile.ZIP_STORED if name == "mimetype" else compress)
    return b.getvalue()


def unzip(data: bytes) -> dict:
    with zipfile.ZipFile(io.BytesIO(data)) as z:
        return {i.filename: z.read(i.filename) for i in z.infolist() if not i.is_dir()}


_D = '<?xml version="1.0" encoding="UTF-8" standalone="yes"?>\n'
_PKG = "http://schemas.openxmlformats.org/package/2006"
_OD = "http://schemas.openxmlformats.org/officeDocument/2006/relationships"
_CORE = (_D + '<cp:coreProperties xmlns:cp="http://schemas.openxmlformats.org/package/2006/metadata/core-properties" '
         'xmlns:dc="http://purl.org/dc/elements/1.1/" xmlns:dcterms="http://purl.org/dc/terms/" '
         'xmlns:xsi="http://www.w3.org/2001/XMLSchema-instance"><dc:title>core title</dc:title><dc:creator>someone</dc:creator>'
         '<dcterms:created xsi:type="dcterms:W3CDTF">2020-01-01T00:00:00Z</dcterms:created>'
         '<dcterms:modified xsi:type="dcterms:W3CDTF">2020-01-02T00:00:00Z</dcterms:modified></cp:coreProperties>')


def _rels(*rs):
    return (_D + f'<Relationships xmlns="{_PKG}/relationships">' + "".join(
        f'<Relationship Id="{i}" Type="{t}" Target="{g}"/>' for i, t, g in rs) + "</Relationships>")


def _types(*overrides):
    return (_D + f'<Types xmlns="{_PKG}/content-types"><Default Extension="rels" ContentType="application/vnd.openxmlformats-package.relationships+xml"/>'
            '<Default Extension="xml" ContentType="application/xml"/>' + "".join(
                f'<Override PartName="{p}" ContentType="{c}"/>' for p, c in overrides) + "</Types>")


def base_docx():
    w = "http://schemas.openxmlformats.org/wordprocessingml/2006/main"
    wt = "application/vnd.openxmlformats-officedocument.wordprocessingml."
    def doc(root, inner, extra=""):
        return _D + f'<w:{root} xmlns:w="{w}" xmlns:r="{_OD}"{extra}>{inner}</w:{root}>'
    p = lambda t: f"<w:p><w:r><w:t>{t}</w:t></w:r></w:p>"
    return {
        "[Content_Types].xml": _types(("/word/document.xml", wt + "document.main+xml"), ("/word/styles.xml", wt + "styles+xml"),
                                      ("/word/footnotes.xml", wt + "footnotes+xml"), ("/word/header1.xml", wt + "header+xml"),
                                      ("/word/footer1.xml", wt + "footer+xml"), ("/word/comments.xml", wt + "comments+xml"),
                                      ("/word/numbering.xml", wt + "numbering+xml"),
                                      ("/docProps/core.xml", "application/vnd.openxmlformats-package.core-properties+xml")),
        "_rels/.rels": _rels(("rId1", _OD + "/officeDocument", "word/document.xml"),
                             ("rId2", _PKG + "/relationships/metadata/core-properties", "docProps/core.xml")),
        "docProps/core.xml": _CORE,
        "word/document.xml": doc("document", "<w:body>" + p("first paragraph") + p("second paragraph") +
                                 '<w:sectPr><w:headerReference w:type="default" r:id="rId3"/><w:footerReference w:type="default" r:id="rId4"/></w:sectPr></w:body>'),
        "word/_rels/document.xml.rels": _rels(("rId1", _OD + "/styles", "styles.xml"), ("rId2", _OD + "/footnotes", "footnotes.xml"),
                                              ("rId3", _OD + "/header", "header1.xml"), ("rId4", _OD + "/footer", "footer1.xml"),
                                              ("rId5", _OD + "/comments", "comments.xml"), ("rId6", _OD + "/numbering", "numbering.xml")),
        "word/styles.xml": doc("styles", '<w:style w:type="paragraph" w:styleId="Heading1"><w:name w:val="heading 1"/></w:style>'),
        "word/numbering.xml": doc("numbering", '<w:abstractNum w:abstractNumId="0"><w:lvl w:ilvl="0"><w:numFmt w:val="decimal"/></w:lvl></w:abstractNum>'),
        "word/footnotes.xml": doc("footnotes", '<w:footnote w:id="1">' + p("a footnote") + "</w:footnote>"),
        "word/comments.xml": doc("comments", '<w:comment w:id="0" w:author="me">' + p("a comment") + "</w:comment>"),
        "word/header1.xml": doc("hdr", p("page header")),
        "word/footer1.xml": doc("ftr", p("page footer")),
    }


def base_pptx():
    a = "http://schemas.openxmlformats.org/drawingml/2006/main"
    pm = "http://schemas.openxmlformats.org/presentationml/2006/main"
    pt = "application/vnd.openxmlformats-officedocument.presentationml."
    def sp(t):
        return ('<p:sp><p:nvSpPr><p:cNvPr id="2" name="Title 1"/><p:cNvSpPr/><p:nvPr><p:ph type="title"/></p:nvPr></p:nvSpPr><p:spPr/>'
                f"<p:txBody><a:bodyPr/><a:p><a:r><a:t>{t}</a:t></a:r></a:p></p:txBody></p:sp>")
    def sld(root, t):
        return (_D + f'<p:{root} xmlns:a="{a}" xmlns:p="{pm}" xmlns:r="{_OD}"><p:cSld><p:spTree><p:nvGrpSpPr><p:cNvPr id="1" name=""/>'
                f"<p:cNvGrpSpPr/><p:nvPr/></p:nvGrpSpPr><p:grpSpPr/>{sp(t)}</p:spTree></p:cSld></p:{root}>")
    return {
        "[Content_Types].xml": _types(("/ppt/presentation.xml", pt + "presentation.main+xml"), ("/ppt/slides/slide1.xml", pt + "slide+xml"),
                                      ("/ppt/notesSlides/notesSlide1.xml", pt + "notesSlide+xml"), ("/ppt/comments/comment1.xml", pt + "comments+xml"),
                                      ("/docProps/core.xml", "application/vnd.openxmlformats-package.core-properties+xml")),
        "_rels/.rels": _rels(("rId1", _OD + "/officeDocument", "ppt/presentation.xml"),
                             ("rId2", _PKG + "/relationships/metadata/core-properties", "docProps/core.xml")),
        "docProps/core.xml": _CORE,
        "ppt/presentation.xml": _D + f'<p:presentation xmlns:p="{pm}" xmlns:r="{_OD}"><p:sldIdLst><p:sldId id="256" r:id="rId1"/></p:sldIdLst></p:presentation>',
        "ppt/_rels/presentation.xml.rels": _rels(("rId1", _OD + "/slide", "slides/slide1.xml")),
        "ppt/slides/slide1.xml": sld("sld", "slide title"),
        "ppt/slides/_rels/slide1.xml.rels": _rels(("rId1", _OD + "/notesSlide", "../notesSlides/notesSlide1.xml"),
                                                   ("rId2", _OD + "/comments", "../comments/comment1.xml")),
        "ppt/notesSlides/notesSlide1.xml": sld("notes", "speaker notes"),
        "ppt/comments/comment1.xml": _D + f'<p:cmLst xmlns:p="{pm}"><p:cm authorId="0" dt="2020-01-01T00:00:00" idx="1"><p:pos x="1" y="1"/><p:text>a comment</p:text></p:cm></p:cmLst>',
    }


def base_xlsx():
    s = "http://schemas.openxmlformats.org/spreadsheetml/2006/main"
    st = "application/vnd.openxmlformats-officedocument.spreadsheetml."
    xdr = "http://schemas.openxmlformats.org/drawingml/2006/spreadsheetDrawing"
    return {
        "[Content_Types].xml": _types(("/xl/workbook.xml", st + "sheet.main+xml"), ("/xl/worksheets/sheet1.xml", st + "worksheet+xml"),
                                      ("/xl/sharedStrings.xml", st + "sharedStrings+xml"), ("/xl/styles.xml", st + "styles+xml"),
                                      ("/xl/drawings/drawing1.xml", "application/vnd.openxmlformats-officedocument.drawing+xml"),
                                      ("/docProps/core.xml", "application/vnd.openxmlformats-package.core-properties+xml")),
        "_rels/.rels": _rels(("rId1", _OD + "/officeDocument", "xl/workbook.xml"),
                             ("rId2", _PKG + "/relationships/metadata/core-properties", "docProps/core.xml")),
        "docProps/core.xml": _CORE,
        "xl/workbook.xml": _D + f'<workbook xmlns="{s}" xmlns:r="{_OD}"><sheets><sheet name="S" sheetId="1" r:id="rId1"/></sheets></workbook>',
        "xl/_rels/workbook.xml.rels": _rels(("rId1", _OD + "/worksheet", "worksheets/sheet1.xml"), ("rId2", _OD + "/sharedStrings", "sharedStrings.xml"),
                                            ("rId3", _OD + "/styles", "styles.xml")),
        "xl/styles.xml": _D + f'<styleSheet xmlns="{s}"><fonts count="1"><font><sz val="11"/><name val="Calibri"/></font></fonts>'
                         '<fills count="1"><fill><patternFill patternType="none"/></fill></fills><borders count="1"><border/></borders>'
                         '<cellStyleXfs count="1"><xf numFmtId="0" fontId="0" fillId="0" borderId="0"/></cellStyleXfs>'
                         '<cellXfs count="1"><xf numFmtId="0" fontId="0" fillId="0" borderId="0" xfId="0"/></cellXfs></styleSheet>',
        "xl/sharedStrings.xml": _D + f'<sst xmlns="{s}" count="1" uniqueCount="1"><si><t>shared text</t></si></sst>',
        "xl/worksheets/sheet1.xml": _D + f'<worksheet xmlns="{s}" xmlns:r="{_OD}"><dimension ref="A1:B1"/><sheetData><row r="1"><c r="A1" t="s"><v>0</v></c>'
                                    '<c r="B1" t="inlineStr"><is><t>inline text</t></is></c></row></sheetData><drawing r:id="rId1"/></worksheet>',
        "xl/worksheets/_rels/sheet1.xml.rels": _rels(("rId1", _OD + "/drawing", "../drawings/drawing1.xml")),
        "xl/drawings/drawing1.xml": _D + f'<xdr:wsDr xmlns:xdr="{xdr}" xmlns:a="http://schemas.openxmlformats.org/drawingml/2006/main"><xdr:twoCellAnchor>'
                                    '<xdr:from><xdr:col>0</xdr:col><xdr:row>0</xdr:row></xdr:from><xdr:to><xdr:col>1</xdr:col><xdr:row>1</xdr:row></xdr:to>'
                                    '<xdr:sp><xdr:nvSpPr><xdr:cNvPr id="2" name="shape"/><xdr:cNvSpPr/></xdr:nvSpPr><xdr:spPr/><xdr:txBody><a:bodyPr/><a:p><a:r><a:t>shape text</a:t></a:r></a:p></xdr:txBody></xdr:sp>'
                                    "<xdr:clientData/></xdr:twoCellAnchor></xdr:wsDr>",
        "xl/drawings/_rels/drawing1.xml.rels": _rels(),
    }


_ODF_NS = ('xmlns:office="urn:oasis:names:tc:opendocument:xmlns:office:1.0" xmlns:table="urn:oasis:names:tc:opendocument:xmlns:table:1.0" '
           'xmlns:text="urn:oasis:names:tc:opendocument:xmlns:text:1.0" xmlns:draw="urn:oasis:names:tc:opendocument:xmlns:drawing:1.0" '
           'xmlns:style="urn:oasis:names:tc:opendocument:xmlns:style:1.0" xmlns:meta="urn:oasis:names:tc:opendocument:xmlns:meta:1.0" '
           'xmlns:dc="http://purl.org/dc/elements/1.1/" xmlns:presentation="urn:oasis:names:tc:opendocument:xmlns:presentation:1.0"')
_ODF_BODY = {
    "odt": ("text", "<office:text><text:h text:outline-level=\"1\">heading</text:h><text:p>body paragraph</text:p></office:text>"),
    "odp": ("presentation", '<office:presentation><draw:page draw:name="p1"><draw:frame><draw:text-box><text:p>slide text</text:p></draw:text-box></draw:frame>'
                            "<presentation:notes><draw:frame><draw:text-box><text:p>notes text</text:p></draw:text-box></draw:frame></presentation:notes></draw:page></office:presentation>"),
    "ods": ("spreadsheet", '<office:spreadsheet><table:table table:name="S"><table:table-row><table:table-cell office:value-type="string"><text:p>cell text</text:p>'
                           "</table:table-cell></table:table-row></table:table></office:spreadsheet>"),
    "odg": ("graphics", '<office:drawing><draw:page draw:name="p1"><draw:frame><draw:text-box><text:p>drawing text</text:p></draw:text-box></draw:frame></draw:page></office:drawing>'),
    "odf": ("formula", "<office:formula><text:p>formula text</text:p></office:formula>"),
}


def base_odf(fmt):
    kind, body = _ODF_BODY[fmt]
    mime = "application/vnd.oasis.opendocument." + kind
    m = "urn:oasis:names:tc:opendocument:xmlns:manifest:1.0"
    return {
        "mimetype": mime,
        "content.xml": _D + f"<office:document-content {_ODF_NS}><office:body>{body}</office:body></office:document-content>",
        "meta.xml": _D + f"<office:document-meta {_ODF_NS}><office:meta><dc:title>meta title</dc:title><dc:creator>someone</dc:creator>"
                         "<meta:keyword>kw</meta:keyword></office:meta></office:document-meta>",
        "styles.xml": _D + f'<office:document-styles {_ODF_NS}><office:styles><style:style style:name="Heading_20_1" style:family="paragraph"/></office:styles>'
                           '<office:master-styles><style:master-page style:name="Standard"><style:header><text:p>page header</text:p></style:header>'
                           "<style:footer><text:p>page footer</text:p></style:footer></style:master-page></office:master-styles></office:document-styles>",
        "META-INF/manifest.xml": _D + f'<manifest:manifest xmlns:manifest="{m}"><manifest:file-entry manifest:full-path="/" manifest:media-type="{mime}"/>'
                                      '<manifest:file-entry manifest:full-path="content.xml" manifest:media-type="text/xml"/></manifest:manifest>',
    }


def base_epub():
    return {
        "mimetype": "application/epub+zip",
        "META-INF/container.xml": _D + '<container version="1.0" xmlns="urn:oasis:names:tc:opendocument:xmlns:container"><rootfiles>'
                                       '<rootfile full-path="OEBPS/content.opf" media-type="application/oebps-package+xml"/></rootfiles></container>',
        "OEBPS/content.opf": _D + '<package xmlns="http://www.idpf.org/2007/opf" version="2.0" unique-identifier="id"><metadata xmlns:dc="http://purl.org/dc/elements/1.1/">'
                                  '<dc:title>book title</dc:title><dc:creator>an author</dc:creator><dc:identifier id="id">urn:x</dc:identifier><dc:language>en</dc:language></metadata>'
                                  '<manifest><item id="ncx" href="toc.ncx" media-type="application/x-dtbncx+xml"/><item id="c1" href="ch1.xhtml" media-type="application/xhtml+xml"/></manifest>'
                                  '<spine toc="ncx"><itemref idref="c1"/></spine></package>',
        "OEBPS/toc.ncx": _D + '<ncx xmlns="http://www.daisy.org/z3986/2005/ncx/" version="2005-1"><navMap><navPoint id="n1" playOrder="1"><navLabel><text>chapter one</text></navLabel>'
                              '<content src="ch1.xhtml"/></navPoint></navMap></ncx>',
        "OEBPS/ch1.xhtml": _D + '<html xmlns="http://www.w3.org/1999/xhtml"><head><title>chapter one</title></head><body><h1>chapter one</h1><p>chapter text</p></body></html>',
    }


HAND_BASES = {"docx": base_docx, "pptx": base_pptx, "xlsx": base_xlsx, "epub": base_epub,
              **{f: (lambda f=f: base_odf(f)) for f in _ODF_BODY}}
FORMATS = tuple(HAND_BASES)
FIXTURE_MAX = 100_000


def _enc(parts):
    return {k: (v.encode() if isinstance(v, str) else v) for k, v in parts.items()}


def bases(with_fixtures=True):
    """[(label, fmt, {member: bytes})]: the hand-written packages, then every ZIP-container fixture of the
    repository up to FIXTURE_MAX bytes (real-world part sets: themes, settings, notes, layouts, …)"""
    out = [("hand/" + fmt, fmt, _enc(mk())) for fmt, mk in HAND_BASES.items()]
    if with_fixtures:
        res = os.path.join(os.environ.get("S2T_REPO", "/repo"), "sharepoint2text", "tests", "resources")
        for root, dirs, files in os.walk(res):
            dirs[:] = sorted(d for d in dirs if d != "password_protected")
            for fn in sorted(files):
                ext = fn.rsplit(".", 1)[-1].lower()
                fmt = {"docm": "docx", "pptm": "pptx", "xlsm": "xlsx"}.get(ext, ext)
                p = os.path.join(root, fn)
                if fmt in HAND_BASES and os.path.getsize(p) <= FIXTURE_MAX:
                    with open(p, "rb") as fh:
                        data = fh.read()
                    try:
                        out.append(("fixture/" + fn, fmt, unzip(data)))
                    except zipfile.BadZipFile:
                        pass
    return out


def reader_of(fmt):
    import importlib
    from sharepoint2text.parsing import router
    mod, fn = router._EXTRACTOR_REGISTRY[fmt]
    return getattr(importlib.import_module(mod), fn)


# ------------------------------------------------------------------ the XML members of a package
def looks_like_xml(data: bytes) -> bool:
    head = data[:200].lstrip(BOM).lstrip()
    return head.startswith(b"<") and not head.lower().startswith(b"<!doctype html")


def xml_members(parts) -> list:
    """every member that holds an XML document (sorted): which of them an extractor parses, and with what, is the
    library's business — a member it does not parse costs nothing, whatever is written into it"""
    return sorted(n for n, d in parts.items() if n != "mimetype" and looks_like_xml(d))


# ------------------------------------------------------------------ injection
_DOCTYPE_RE = re.compile(rb"<!DOCTYPE[^>\[]*(\[.*?\])?\s*>", re.S)
_DECL_RE = re.compile(rb"^<\?xml[^>]*\?>\s*", re.S)
_ROOT_RE = re.compile(rb"<([A-Za-z_][\w:.\-]*)")
_TEXT_RE = re.compile(rb">([^<>&\s][^<>]*)<")


def dtd_for(root: bytes, construct) -> tuple[bytes, bytes]:
    """-> (DOCTYPE with an internal subset, the reference(s) to put into the document).
    construct: ("laughs", levels, fan) | ("quad", a, m) | ("declared-only", levels) | ("empty-dtd",) | ("none",)"""
    kind = construct[0]
    if kind == "none":                          # leading bytes only
        return b"", b""
    if kind == "empty-dtd":
        return b"<!DOCTYPE " + root + b" [\n]>\n", b""
    if kind == "quad":
        _, a, m = construct
        if a > QUAD_MAX or m > QUAD_MAX:
            raise Unsafe("quadratic blow-up above the harness's bound")
        return b"<!DOCTYPE " + root + b' [\n<!ENTITY c12q "' + b"q" * a + b'">\n]>\n', b"&c12q;" * m
    levels, fan = construct[1], (construct[2] if len(construct) > 2 else FAN)
    if levels > MAX_LEVELS or fan > FAN:
        raise Unsafe("entity chain above the harness's bound")
    lines = [f'<!ENTITY c12e0 "{SENTINEL}">']
    for k in range(1, levels + 1):
        lines.append(f'<!ENTITY c12e{k} "' + f"&c12e{k - 1};" * fan + '">')
    dtd = ("<!DOCTYPE " + root.decode() + " [\n" + "\n".join(lines) + "\n]>\n").encode()
    return dtd, (b"" if kind == "declared-only" else f"&c12e{levels};".encode())


def _root_tag_end(x: bytes, start: int) -> int:
    """index of the `>` closing the start tag that begins at `start` (quotes respected)"""
    q = None
    for i in range(start, len(x)):
        c = x[i:i + 1]
        if q:
            if c == q:
                q = None
        elif c in (b'"', b"'"):
            q = c
        elif c == b">":
            return i
    return -1


def inject_part(x: bytes, lead_name: str, construct, where: str):
    """leading bytes + XML declaration + DOCTYPE/entities + a reference at `where` (root | text | attr) -> new
    part bytes, or None if the part has no element to work on"""
    x = x.lstrip(BOM).lstrip()
    decl = _DECL_RE.match(x)
    if decl:
        x = x[decl.end():]
    x = _DOCTYPE_RE.sub(b"", x, count=1).lstrip()
    m = _ROOT_RE.match(x)
    if not m:                                  # comment / PI before the root: keep it simple, skip such parts
        return None
    root = m.group(1)
    end = _root_tag_end(x, 0)
    if end < 0:
        return None
    dtd, ref = dtd_for(root, construct)
    selfclosing = x[end - 1:end] == b"/"
    if ref:
        if where == "attr":
            cut = end - 1 if selfclosing else end
            x = x[:cut] + b' c12x="' + ref + b'"' + x[cut:]
        else:
            mt = _TEXT_RE.search(x, end) if where == "text" else None
            if mt:
                x = x[:mt.start(1)] + ref + x[mt.start(1):]
            elif selfclosing:
                x = x[:end - 1] + b">" + ref + b"</" + root + b">" + x[end + 1:]
            else:
                x = x[:end + 1] + ref + x[end + 1:]
    return LEADS[lead_name] + DECLS.get(lead_name, XML_DECL) + b"\n" + dtd + x


def noisy_part(x: bytes, lead_name: str) -> bytes:
    """the same part with leading bytes in front of its XML declaration (nothing else changes)"""
    x = x.lstrip(BOM).lstrip()
    if lead_name in DECLS:
        m = _DECL_RE.match(x)
        return DECLS[lead_name] + b"\n" + (x[m.end():] if m else x)
    return LEADS[lead_name] + (x if _DECL_RE.match(x) else XML_DECL + b"\n" + x)


def build_case(parts: dict, case: dict):
    """case = {"member", "lead", "construct", "where", "others_lead"} -> (package bytes, uncompressed size) or None"""
    new = dict(parts)
    tgt = inject_part(parts[case["member"]], case["lead"], tuple(case["construct"]), case["where"])
    if tgt is None:
        return None
    new[case["member"]] = tgt
    ol = case.get("others_lead", "none")
    if ol != "none":
        for n, d in parts.items():
            if n != case["member"] and n != "mimetype" and looks_like_xml(d):
                new[n] = noisy_part(d, ol)
    return _zip(new), sum(len(d) for d in new.values())


# ------------------------------------------------------------------ one real extraction, measured
def measure(fmt, data: bytes, trace=True):
    """-> {"refused": exception class or None, "text_len", "sentinels", "peak"} (peak: traced bytes above the level
    at the start of the call; text = get_full_text of every result + the characters of its metadata / units)"""
    import gc
    from sharepoint2text.parsing.exceptions import ExtractionError
    reader = reader_of(fmt)
    gc.collect()
    if trace:
        tracemalloc.start()
        tracemalloc.reset_peak()
        base = tracemalloc.get_traced_memory()[0]
    refused, text_len, sent = None, 0, 0
    try:
        try:
            results = list(reader(io.BytesIO(data), "case." + fmt))
            for r in results:
                t = r.get_full_text()
                try:
                    extra = repr(r.get_metadata())
                except Exception:  # noqa
                    extra = ""
                text_len += len(t) + len(extra)
                sent += t.count(SENTINEL) + extra.count(SENTINEL)
        except ExtractionError as e:
            refused = type(e).__name__
        peak = (tracemalloc.get_traced_memory()[1] - base) if trace else 0
    finally:
        if trace:
            tracemalloc.stop()
    return {"refused": refused, "text_len": text_len, "sentinels": sent, "peak": peak}
