"""C06 generator: every OPTIONAL MEMBER of a document's metadata facet dropped on its own.

Code that fills in something for a missing member (a date, an id, a name) is where ambient inputs sneak in — the
current time for a missing date, a fresh uuid for a missing identifier, the host name for a missing sender.  Fixtures
state nearly everything, so for one document per format every member is removed individually:

* zip containers: each child element of the metadata parts (docProps/core.xml, docProps/app.xml, meta.xml →
  office:meta, *.opf → metadata) — removed in the raw XML text, so prefixes / xsi:type values stay as written;
* mails (.eml, .mbox): each header field (with its continuation lines);
* HTML: each <meta …> and the <title>.

`drops(rng, name, data, cap)` yields (kind, bytes); the caller keeps what the extractor accepts.
"""
from __future__ import annotations

import io
import re
import zipfile
import xml.etree.ElementTree as ET

META_PARTS = re.compile(r"(^|/)(core\.xml|app\.xml|custom\.xml|meta\.xml|[^/]+\.opf|[^/]+\.psmdcp)$", re.I)
CONTAINERS = ("meta", "metadata")


def _children(raw: bytes):
    """local names of the member elements of a metadata part (children of the root, or of its meta/metadata child)"""
    try:
        root = ET.fromstring(raw)
    except ET.ParseError:
        return []
    box = root
    for ch in root:
        if ch.tag.rsplit("}", 1)[-1] in CONTAINERS:
            box = ch
            break
    return [c.tag.rsplit("}", 1)[-1] for c in box if isinstance(c.tag, str)]


def _remove_nth(text: str, local: str, nth: int):
    pat = re.compile(r"<((?:[\w.-]+:)?)" + re.escape(local) + r"(?=[\s/>])[^>]*?(?:/>|>.*?</\1" + re.escape(local) + r"\s*>)", re.S)
    ms = list(pat.finditer(text))
    if nth >= len(ms):
        return None
    m = ms[nth]
    return text[: m.start()] + text[m.end():]


def _zip_drops(data: bytes):
    z = zipfile.ZipFile(io.BytesIO(data))
    for info in z.infolist():
        if not META_PARTS.search(info.filename):
            continue
        raw = z.read(info.filename)
        try:
            text = raw.decode("utf-8")
        except UnicodeDecodeError:
            continue
        seen = {}
        for local in _children(raw):
            k = seen.get(local, 0)
            seen[local] = k + 1
            new = _remove_nth(text, local, k)
            if new is None:
                continue
            out = io.BytesIO()
            with zipfile.ZipFile(out, "w", zipfile.ZIP_DEFLATED) as w:
                for i2 in z.infolist():
                    body = new.encode("utf-8") if i2.filename == info.filename else z.read(i2.filename)
                    zi = zipfile.ZipInfo(i2.filename, date_time=(2020, 1, 2, 3, 4, 6))
                    zi.compress_type = zipfile.ZIP_STORED if i2.filename == "mimetype" else zipfile.ZIP_DEFLATED
                    w.writestr(zi, body)
            yield f"{info.filename.rsplit('/', 1)[-1]}-{local}{k or ''}", out.getvalue()


def _mail_drops(data: bytes):
    sep = b"\r\n" if b"\r\n" in data[:2000] else b"\n"
    lines = data.split(sep)
    start = 1 if lines and lines[0].startswith(b"From ") else 0      # mbox envelope line stays
    end = next((i for i in range(start, len(lines)) if lines[i] == b""), len(lines))
    fields = []
    for i in range(start, end):
        if lines[i][:1] in (b" ", b"\t") and fields:
            fields[-1][1] = i + 1
        else:
            fields.append([i, i + 1])
    seen = {}
    for a, b in fields:
        name = lines[a].split(b":", 1)[0].decode("latin-1").strip()
        k = seen.get(name.lower(), 0)
        seen[name.lower()] = k + 1
        yield f"hdr-{name}{k or ''}", sep.join(lines[:a] + lines[b:])


def _html_drops(data: bytes):
    try:
        text = data.decode("utf-8")
    except UnicodeDecodeError:
        return
    for i, m in enumerate(re.finditer(r"<meta\b[^>]*>|<title\b[^>]*>.*?</title\s*>", text, re.S | re.I)):
        yield f"head{i}", (text[: m.start()] + text[m.end():]).encode("utf-8")


def drops(rng, name: str, data: bytes, cap=None):
    low = name.lower()
    try:
        if data[:2] == b"PK":
            cands = list(_zip_drops(data))
        elif low.endswith((".eml", ".mbox")):
            cands = list(_mail_drops(data))
        elif low.endswith((".html", ".htm", ".xhtml")):
            cands = list(_html_drops(data))
        else:
            cands = []
    except Exception:
        cands = []
    if cap is not None and len(cands) > cap:
        cands = rng.sample(cands, cap)
    yield from cands
