"""Minimal 7z *writer* for the C09 check (COPY coder only; no external 7z binary needed).

Layout written (7-Zip `7zFormat.txt`):
  signature header (32 bytes) | packed streams | header
  header = Header [MainStreamsInfo [PackInfo] [UnpackInfo] [SubStreamsInfo]] [FilesInfo] End

An archive is described by a list of entries, each a dict
  {"name": str, "kind": "file" | "dir" | "empty" | "orphan" | "attrdir", "data": bytes}
    file    : entry with a data stream (member of a folder, is written by extractall)
    dir     : emptyStream entry (what 7-Zip writes for a directory)
    empty   : emptyStream + emptyFile entry (what 7-Zip writes for a 0-byte file)
    orphan  : entry WITHOUT the emptyStream flag that is listed beyond the streams the folders
              provide (hostile: a "file" for which the archive carries no data stream)
    attrdir : entry without emptyStream flag whose attribute word has FILE_ATTRIBUTE_DIRECTORY
  optional "attr": the entry's 32-bit attribute word (see `attr_words`), varied independently of kind / name / data
and a layout: "solid" (one folder holding every file stream), "perfile" (one folder per file stream)
or "nofolders" (no MainStreamsInfo at all; every non-empty-stream entry is then an orphan).

Entries keep their order, except that stream-bearing `file` entries must be mapped to folder streams
in order, which the 7z format does by position: the i-th entry without emptyStream flag owns the
i-th substream.  Orphans are therefore only meaningful after the last `file` entry; the writer does
not reorder — `plan()` tells which entries the reader will map to a folder.
"""
from __future__ import annotations

import struct
import zlib

MAGIC = b"7z\xbc\xaf\x27\x1c"


def number(n: int) -> bytes:
    """7z variable-length number."""
    assert 0 <= n < 1 << 64
    for extra in range(9):
        if n < (1 << (7 * (extra + 1))) or extra == 8:
            break
    if extra == 8:
        return b"\xff" + struct.pack("<Q", n)
    first_mask = (0xFF00 >> extra) & 0xFF
    low = n & ((1 << (8 * extra)) - 1)
    high = n >> (8 * extra)
    return bytes([first_mask | high]) + low.to_bytes(extra, "little")


def bitvector(bits) -> bytes:
    out = bytearray()
    cur, mask = 0, 0x80
    for b in bits:
        if b:
            cur |= mask
        mask >>= 1
        if mask == 0:
            out.append(cur)
            cur, mask = 0, 0x80
    if mask != 0x80:
        out.append(cur)
    return bytes(out)


def _prop(pid: int, body: bytes) -> bytes:
    return bytes([pid]) + number(len(body)) + body


def attr_words(entries):
    """the attribute word written for each entry (None = not defined for that entry), or None if the archive carries no
    attribute property at all.  An entry may name its word itself (`"attr": int`, any 32-bit value: Windows attribute
    bits, the p7zip unix extension 0x8000 | st_mode << 16, reparse points, …) INDEPENDENTLY of its kind, name and data;
    `"attr": "undef"` leaves the entry out of the defined-vector.  Without any `attr` the words are what they always
    were: 0x10 for `attrdir`/`dir`, 0x20 otherwise, and only if an `attrdir` entry exists."""
    if not any(e["kind"] == "attrdir" or e.get("attr") is not None for e in entries):
        return None
    out = []
    for e in entries:
        a = e.get("attr")
        if a == "undef":
            out.append(None if e["kind"] != "attrdir" else 0x10)
        elif a is None:
            out.append(0x10 if e["kind"] in ("attrdir", "dir") else 0x20)
        else:
            a = int(a) & 0xFFFFFFFF
            if e["kind"] == "attrdir":
                a |= 0x10          # what makes the entry an `attrdir`
            elif e["kind"] in ("file", "orphan"):
                a &= ~0x10 & 0xFFFFFFFF   # a stream-bearing entry stays one (the reader maps streams by position)
            out.append(a)
    return out


def build(entries, layout: str = "solid", with_crc: bool = True, corrupt: str | None = None) -> bytes:
    """Return the bytes of a 7z archive.  `corrupt`: None | "header-crc" | "truncate" | "short-stream"."""
    has_stream = [e["kind"] in ("file", "orphan", "attrdir") for e in entries]
    files = [e for e in entries if e["kind"] == "file"]
    # the reader maps the i-th non-directory entry (no emptyStream flag, no dir attribute) to a stream,
    # so `file` entries after the first orphan would be shifted; keep the writer honest about it
    packed = b"".join(e.get("data", b"") for e in files)
    if corrupt == "short-stream" and packed:
        packed_written = packed[: len(packed) // 2]
    else:
        packed_written = packed

    hdr = bytearray([0x01])  # Header
    if layout != "nofolders" and files:
        hdr.append(0x04)  # MainStreamsInfo
        if layout == "solid":
            pack_sizes = [len(packed)]
            folders = [files]
        else:
            pack_sizes = [len(f["data"]) for f in files]
            folders = [[f] for f in files]
        # PackInfo
        hdr += bytes([0x06]) + number(0) + number(len(pack_sizes))
        hdr += bytes([0x09]) + b"".join(number(s) for s in pack_sizes)
        hdr += bytes([0x00])
        # UnpackInfo
        hdr += bytes([0x07, 0x0B]) + number(len(folders)) + bytes([0x00])
        for _ in folders:
            hdr += number(1) + bytes([0x01, 0x00])  # one coder, id size 1, COPY
        hdr += bytes([0x0C])
        for fl in folders:
            hdr += number(sum(len(f["data"]) for f in fl))
        hdr += bytes([0x00])
        # SubStreamsInfo
        hdr += bytes([0x08, 0x0D]) + b"".join(number(len(fl)) for fl in folders)
        sizes = b"".join(number(len(f["data"])) for fl in folders for f in fl[:-1])
        hdr += bytes([0x09]) + sizes
        if with_crc:
            n = sum(len(fl) for fl in folders)
            hdr += bytes([0x0A, 0x01]) + b"".join(struct.pack("<I", zlib.crc32(f["data"]) & 0xFFFFFFFF) for fl in folders for f in fl)
            assert n == len(files)
        hdr += bytes([0x00])  # end substreams
        hdr += bytes([0x00])  # end streams info
    # FilesInfo
    hdr.append(0x05)
    hdr += number(len(entries))
    if not all(has_stream):
        empties = [not h for h in has_stream]
        hdr += _prop(0x0E, bitvector(empties))
        ef = [e["kind"] == "empty" for e, h in zip(entries, has_stream) if not h]
        if any(ef):
            hdr += _prop(0x0F, bitvector(ef))
    names = b"\x00" + b"".join(e["name"].encode("utf-16-le", "surrogatepass") + b"\x00\x00" for e in entries)
    hdr += _prop(0x11, names)
    words = attr_words(entries)
    if words is not None and all(w is not None for w in words):
        # all-defined byte, External byte (0), then one attribute word per entry
        body = b"\x01\x00" + b"".join(struct.pack("<I", w) for w in words)
        hdr += _prop(0x15, body)
    elif words is not None:
        # attributes defined for some entries only: defined-vector, External byte (0), one word per defined entry
        body = b"\x00" + bitvector([w is not None for w in words]) + b"\x00" + b"".join(struct.pack("<I", w) for w in words if w is not None)
        hdr += _prop(0x15, body)
    hdr.append(0x00)  # end files info
    hdr.append(0x00)  # end header
    hdr = bytes(hdr)

    next_crc = zlib.crc32(hdr) & 0xFFFFFFFF
    if corrupt == "header-crc":
        next_crc ^= 0x1
    start = struct.pack("<QQI", len(packed_written), len(hdr), next_crc)
    start_crc = zlib.crc32(start) & 0xFFFFFFFF
    blob = MAGIC + bytes([0, 4]) + struct.pack("<I", start_crc) + start + packed_written + hdr
    if corrupt == "truncate":
        blob = blob[: 32 + len(packed_written) + max(1, len(hdr) // 2)]
    return blob
