"""C12, third part: inputs whose output follows a NUMBER written in them (ODF `text:s text:c`, XLSX far cell).

SAFETY: every input built here is bounded — the callers never ask for more than 10^5 characters (text:s) or
400 x 400 / ZZ1000 cells (XLSX); the functions refuse anything larger (`Unsafe`), also under a mutated library the
worst case is the declared number itself.
"""
from __future__ import annotations

import io
import zipfile

MAX_SPACES = 200_000          # characters one text:s may declare in anything this module builds
MAX_RECT = 750_000            # cells of the rectangle a sheet built here may span (ZZ1000 = 702 000)


class Unsafe(ValueError):
    pass


# ------------------------------------------------------------------ ODF
ODF_NS = ('xmlns:office="urn:oasis:names:tc:opendocument:xmlns:office:1.0" '
          'xmlns:table="urn:oasis:names:tc:opendocument:xmlns:table:1.0" '
          'xmlns:text="urn:oasis:names:tc:opendocument:xmlns:text:1.0" '
          'xmlns:draw="urn:oasis:names:tc:opendocument:xmlns:drawing:1.0"')
ODF_MIME = {"odt": "text", "odp": "presentation", "ods": "spreadsheet", "odg": "graphics", "odf": "formula"}
ODF_FORMATS = tuple(ODF_MIME)
TEXT_S = ('<text:s text:c="', '"/>')
PARA = ("<text:p>", "</text:p>")
TEXT_S_TAGS = len(TEXT_S[0]) + len(TEXT_S[1])          # 19 (S2T.Amplify.Inline.markupLen)
PARA_TAGS = len(PARA[0]) + len(PARA[1])                # 17 (S2T.Amplify.paraMarkupLen)


def paragraph(inlines):
    """inlines: [("text", str) | ("space", digit string) | ("el", local name, digit string)]  (`el`: another empty
    text:* element carrying a text:c attribute — a control, the format gives a count only to text:s)"""
    parts = [PARA[0]]
    for it in inlines:
        if it[0] == "text":
            parts.append(it[1])
        elif it[0] == "space":
            if int(it[1] or "0") > MAX_SPACES:
                raise Unsafe(f"text:c={it[1]} is above the harness's bound {MAX_SPACES}")
            parts.append(TEXT_S[0] + it[1] + TEXT_S[1])
        else:
            if int(it[2] or "0") > MAX_SPACES:
                raise Unsafe(f"text:c={it[2]} is above the harness's bound {MAX_SPACES}")
            parts.append(f'<text:{it[1]} text:c="{it[2]}"/>')
    parts.append(PARA[1])
    return "".join(parts)


def _odf_body(fmt, para):
    if fmt == "odt":
        return f"<office:text>{para}</office:text>"
    if fmt == "odp":
        return ('<office:presentation><draw:page draw:name="p1"><draw:frame><draw:text-box>' + para +
                "</draw:text-box></draw:frame></draw:page></office:presentation>")
    if fmt == "ods":
        return ('<office:spreadsheet><table:table table:name="S"><table:table-row><table:table-cell office:value-type="string">'
                + para + "</table:table-cell></table:table-row></table:table></office:spreadsheet>")
    if fmt == "odg":
        return ('<office:drawing><draw:page draw:name="p1"><draw:frame><draw:text-box>' + para +
                "</draw:text-box></draw:frame></draw:page></office:drawing>")
    if fmt == "odf":
        return f"<office:formula>{para}</office:formula>"
    raise KeyError(fmt)


def odf_file(fmt, para):
    """-> (file bytes, uncompressed size = bytes of all members)"""
    xml = f'<?xml version="1.0"?><office:document-content {ODF_NS}><office:body>{_odf_body(fmt, para)}</office:body></office:document-content>'
    mime = "application/vnd.oasis.opendocument." + ODF_MIME[fmt]
    b = io.BytesIO()
    with zipfile.ZipFile(b, "w", zipfile.ZIP_DEFLATED) as z:
        z.writestr("mimetype", mime)
        z.writestr("content.xml", xml)
    return b.getvalue(), len(mime) + len(xml.encode())


def odf_extract(fmt, inlines):
    """real extractor on <text:p>inlines</text:p> -> {"text_len", "spaces", "para_len", "input_len", "file_len"}"""
    from sharepoint2text.parsing.extractors import open_office as OO
    reader = {"odt": OO.read_odt, "odp": OO.read_odp, "ods": OO.read_ods, "odg": OO.read_odg, "odf": OO.read_odf}[fmt]
    para = paragraph(inlines)
    data, total = odf_file(fmt, para)
    content = next(reader(io.BytesIO(data)))
    txt = content.get_full_text()
    return {"text_len": len(txt), "spaces": txt.count(" "), "para_len": len(para), "input_len": total, "file_len": len(data)}


def element_text_len(inlines):
    """`open_office._shared.element_text` on the parsed paragraph alone (the function the five extractors share)
    -> (length of the text, number of spaces in it)"""
    from xml.etree import ElementTree as ET
    from sharepoint2text.parsing.extractors.open_office import _shared
    t = "urn:oasis:names:tc:opendocument:xmlns:text:1.0"
    el = ET.fromstring(f'<r xmlns:text="{t}">{paragraph(inlines)}</r>')[0]
    out = _shared.element_text(el, text_space_tag=f"{{{t}}}s", text_tab_tag=f"{{{t}}}tab",
                               text_line_break_tag=f"{{{t}}}line-break", attr_text_c=f"{{{t}}}c")
    return len(out), out.count(" ")


def text_s_model_request(inlines):
    return {"op": "c12.text_s", "inlines": [({"text": it[1]} if it[0] == "text" else {"digits": it[1]}) for it in inlines]}


# ------------------------------------------------------------------ XLSX (five parts, no styles, inline strings)
_CT = ('<?xml version="1.0" encoding="UTF-8"?><Types xmlns="http://schemas.openxmlformats.org/package/2006/content-types">'
       '<Default Extension="rels" ContentType="application/vnd.openxmlformats-package.relationships+xml"/>'
       '<Default Extension="xml" ContentType="application/xml"/>'
       '<Override PartName="/xl/workbook.xml" ContentType="application/vnd.openxmlformats-officedocument.spreadsheetml.sheet.main+xml"/>'
       '<Override PartName="/xl/worksheets/sheet1.xml" ContentType="application/vnd.openxmlformats-officedocument.spreadsheetml.worksheet+xml"/>'
       '</Types>')
_RELS = ('<?xml version="1.0" encoding="UTF-8"?><Relationships xmlns="http://schemas.openxmlformats.org/package/2006/relationships">'
         '<Relationship Id="rId1" Type="http://schemas.openxmlformats.org/officeDocument/2006/relationships/officeDocument" Target="xl/workbook.xml"/>'
         '</Relationships>')
_WB = ('<?xml version="1.0" encoding="UTF-8"?><workbook xmlns="http://schemas.openxmlformats.org/spreadsheetml/2006/main" '
       'xmlns:r="http://schemas.openxmlformats.org/officeDocument/2006/relationships"><sheets><sheet name="S" sheetId="1" r:id="rId1"/></sheets></workbook>')
_WBRELS = ('<?xml version="1.0" encoding="UTF-8"?><Relationships xmlns="http://schemas.openxmlformats.org/package/2006/relationships">'
           '<Relationship Id="rId1" Type="http://schemas.openxmlformats.org/officeDocument/2006/relationships/worksheet" Target="worksheets/sheet1.xml"/>'
           '</Relationships>')
SHEET_OPEN = '<worksheet xmlns="http://schemas.openxmlformats.org/spreadsheetml/2006/main">'
DIM = ('<dimension ref="A1:', '"/>')
DATA = ("<sheetData>", "</sheetData></worksheet>")
CELL = ('<row r="', '"><c r="', '" t="inlineStr"><is><t>', '</t></is></c></row>')
XLSX_ENVELOPE = len(SHEET_OPEN) + len(DIM[0]) + len(DIM[1]) + len(DATA[0]) + len(DATA[1])     # 134
XLSX_CELL_TAGS = sum(len(x) for x in CELL)                                                      # 58


def col_name(c):
    s = ""
    while c:
        c, r = divmod(c - 1, 26)
        s = chr(65 + r) + s
    return s


def xlsx_sheet_xml(cells, dim=None):
    """cells: [(row, col, text)] (one <row> element per cell, rows ascending); dim: far corner of the declared
    dimension, default = the corner of the used cells"""
    mr, mc = max(r for r, _, _ in cells), max(c for _, c, _ in cells)
    dr, dc = dim or (mr, mc)
    if max(mr, dr) * max(mc, dc) > MAX_RECT:
        raise Unsafe(f"a sheet spanning {max(mr, dr)} x {max(mc, dc)} cells is above the harness's bound {MAX_RECT}")
    out = [SHEET_OPEN, DIM[0], col_name(dc), str(dr), DIM[1], DATA[0]]
    for r, c, t in cells:
        out += [CELL[0], str(r), CELL[1], col_name(c), str(r), CELL[2], t, CELL[3]]
    out.append(DATA[1])
    return "".join(out)


def xlsx_file(cells, dim=None):
    """-> (file bytes, bytes of the worksheet part, uncompressed size = bytes of all parts)"""
    sx = xlsx_sheet_xml(cells, dim)
    parts = [("[Content_Types].xml", _CT), ("_rels/.rels", _RELS), ("xl/workbook.xml", _WB),
             ("xl/_rels/workbook.xml.rels", _WBRELS), ("xl/worksheets/sheet1.xml", sx)]
    b = io.BytesIO()
    with zipfile.ZipFile(b, "w", zipfile.ZIP_DEFLATED) as z:
        for n, d in parts:
            z.writestr(n, d)
    return b.getvalue(), len(sx), sum(len(d) for _, d in parts)


def xlsx_extract(cells, dim=None):
    """real read_xlsx -> {"all_rows_cells": cells of the `all_rows` _read_sheet_data returned, "data_cells": cells of
    sheet.data, "text_len", "sheet_len", "input_len", "file_len"}"""
    from sharepoint2text.parsing.extractors.ms_modern import xlsx_extractor as XE
    data, sl, total = xlsx_file(cells, dim)
    seen = {}
    orig = XE._read_sheet_data

    def spy(ws):
        res = orig(ws)
        seen["cells"] = sum(len(r) for r in res[1])
        return res
    XE._read_sheet_data = spy
    try:
        content = next(XE.read_xlsx(io.BytesIO(data)))
    finally:
        XE._read_sheet_data = orig
    return {"all_rows_cells": seen.get("cells", 0), "data_cells": sum(len(r) for s in content.sheets for r in s.data),
            "text_len": len(content.get_full_text()), "sheet_len": sl, "input_len": total, "file_len": len(data)}


def xlsx_model_request(cells):
    return {"op": "c12.xlsx_rect", "envelope": XLSX_ENVELOPE, "cell_tags": XLSX_CELL_TAGS,
            "cells": [{"row": r, "col": c, "tlen": len(t)} for r, c, t in cells]}
