"""C12 loops: run real function and Lean model on the same inputs and compare (result + steps)."""
from __future__ import annotations

from builders import c12_loops as L
from builders.c12_trace import StepLimit


def _dedup(seq):
    seen, out = set(), []
    for x in seq:
        if x not in seen:
            seen.add(x)
            out.append(x)
    return out


def cases(ctx):
    """[(loop name, input, request dict)] — structured stream + malformed stream, from ctx.rng"""
    rng = ctx.rng
    n = ctx.n(60, 1500)
    out = []

    def add(name, inp, req):
        out.append((name, inp, req))

    for _ in range(n):
        for name, gen in (("xls_filepass", L.gen_biff), ("jpeg_dims", L.gen_jpeg)):
            d = gen(rng) if rng.random() < 0.8 else L.rbytes(rng, rng.randint(0, 24), [0x2F, 0, 0xFF, 0xC0, 4, 1])
            add(name, d, {"op": "c12." + name, "d": L.nats(d)})
        d = L.gen_image_head(rng)
        for v in ("docx", "xlsx", "pptx"):
            add("pixel_" + v, d, {"op": "c12.pixel_dims", "variant": v, "d": L.nats(d)})
        d = L.gen_ppt(rng) if rng.random() < 0.85 else L.rbytes(rng, rng.randint(0, 30), [0, 0xF, 0xF0, 0x0F, 8])
        add("ppt_iter", d, {"op": "c12.ppt_iter", "d": L.nats(d)})
        add("slide_list", d, {"op": "c12.slide_list_cost", "d": L.nats(d)})
        d = L.gen_xls_blip(rng)
        add("xls_blip", d, {"op": "c12.xls_blip", "d": L.nats(d)})
        d = L.gen_dib(rng)
        if len(d) <= 2500:
            add("dib", d, {"op": "c12.dib", "d": L.nats(d)})
        d = L.gen_png(rng) if rng.random() < 0.9 else L.png_amplifier(rng.randint(1, 4), rng.randint(0, 4), rng.random() < 0.5)
        add("png", d, {"op": "c12.png", "d": L.nats(d)})
        t = L.gen_rtf(rng)
        add("rtf_ignorable", t, {"op": "c12.rtf_ignorable", "text": [ord(c) for c in t], "lower": [ord(c) for c in t.lower()]})
        add("rtf_walk", t, {"op": "c12.rtf_walk", "text": [ord(c) for c in t]})
        d = L.gen_sz_props(rng)
        add("sz_props", d, {"op": "c12.sz_skip_props", "d": L.nats(d)})
        d = L.gen_sz_files_info(rng)
        add("sz_files_info", d, {"op": "c12.sz_files_info", "d": L.nats(d), "fixed": None})
        a, b = rng.randrange(256), rng.randrange(256)
        add("gf_mul", (a, b), {"op": "c12.gf_mul", "a": a, "b": b})
        line = L.gen_pdf_line(rng)
        add("pdf_row", line, None)
        vals = [rng.choice(["12", "3", "a", "4b", "007", "x1", "9", "55"]) for _ in range(rng.randint(0, 6))]
        exp = rng.randint(0, 4)
        if not (len(vals) == exp + 1 and len(vals[0]) == 1 and vals[0].isdigit()):     # footnote-leader shortcut precedes the loop
            add("pdf_norm", (tuple(vals), exp), {"op": "c12.normalize", "expected": exp, "values": vals})
    # adversarial fixed cases: markers at the last offsets, zero-length records, maximal lengths
    for d in (b"", b"\x2f", b"\x2f\x00\x00", b"\x2f\x00\x00\x00", b"\x00\x00\x00\x00" * 3, b"\x01\x00\xff\xff" + b"\x2f\x00\x00\x00"):
        add("xls_filepass", d, {"op": "c12.xls_filepass", "d": L.nats(d)})
    for d in (b"\xff\xd8" + b"\xff\xe0\x00\x00" * 4 + b"\xff\xc0" + b"\x00" * 9, b"\xff\xd8" + b"\xff" * 12,
              b"\xff\xd8\xff\xc0\x00\x0b\x08\x00\x10\x00\x20\x00", b"\xff\xd8\xff\xc0\x00\x0b\x08\x00\x10\x00\x20",
              b"\xff\xd8\xff\xe1\x00\x01" + b"\x00" * 10, b"\xff\xd8\xff\xc0\xff\xff" + b"\x00" * 8):
        add("jpeg_dims", d, {"op": "c12.jpeg_dims", "d": L.nats(d)})
        for v in ("docx", "xlsx", "pptx"):
            add("pixel_" + v, d, {"op": "c12.pixel_dims", "variant": v, "d": L.nats(d)})
    for d in (L.ppt_nest(5), L.ppt_rec(0xF, 0, 0x0FF0, b"") * 3, L.ppt_rec(0, 0, 0x0FF0, L.ppt_rec(0, 0, 0x0FA8, b"hi")),
              b"\x0f\x00\xf0\x0f\x00\x00\x00\x00", b"\x00" * 7, b"\x00" * 8, b"\x0f\x00\x00\x00\x01\x00\x00\x00\x00"):
        add("ppt_iter", d, {"op": "c12.ppt_iter", "d": L.nats(d)})
        add("slide_list", d, {"op": "c12.slide_list_cost", "d": L.nats(d)})
    for k, m, e in ((3, 3, False), (3, 2, True), (5, 4, False)):
        d = L.png_amplifier(k, m, e)
        add("png", d, {"op": "c12.png", "d": L.nats(d)})
    for t in ("{\\*", "{\\pict{}}x", "{\\pict", "{\\*}}}a", "\\u", "\\u-", "\\u-1", "\\u1?", "\\'", "\\'a", "\\'ab", "{\\", "\\", "\\par", "\\fs-",
              "{\\fonttbl a}b}c", "{\\*\\x {y}} z", "\\cf12 x", "\\b-1-2 q"):
        add("rtf_ignorable", t, {"op": "c12.rtf_ignorable", "text": [ord(c) for c in t], "lower": [ord(c) for c in t.lower()]})
        add("rtf_walk", t, {"op": "c12.rtf_walk", "text": [ord(c) for c in t]})
    return out


def _fixed_files_info():
    """does the CURRENT source refuse a declared file count larger than the remaining header?"""
    P = {"sz_files_outer": L.Probe(L.EX + "util/sevenzip.py", "SevenZipReader._parse_files_info", "True", 0),
         "sz_files_inner": L.Probe(L.EX + "util/sevenzip.py", "SevenZipReader._parse_files_info", "True", 1)}
    r = L.impl_sz_files_info(P, L.sz_number(50) + b"\x00")
    return "err" in r


def run(ctx, Broken):
    broken = []
    try:
        P = L.probes()
    except KeyError as e:
        return [Broken("correspondence", "c12.loop-probe", f"a modelled loop is no longer found in the source: {e}")], []
    fixed = _fixed_files_info()
    ctx.coverage["sevenzip_file_count_check_present"] = fixed
    cs = cases(ctx)
    # `_extract_row`: the numeric classification of the tokens is the real `is_numeric_token` (a parameter of the model)
    pre = {}
    for k, c in enumerate(cs):
        if c[0] == "pdf_row":
            r, flags = L.impl_pdf_row(P, c[1])
            pre[k] = r
            cs[k] = (c[0], c[1], {"op": "c12.trailing_numeric", "flags": flags})
    for c in cs:
        if c[2].get("fixed", 0) is None:
            c[2]["fixed"] = fixed
    outs = ctx.drive([c[2] for c in cs])
    bad = {}
    mism = []

    def report(name, inp, detail):
        bad[name] = bad.get(name, 0) + 1
        mism.append((name, inp))
        if bad[name] <= 3:
            case = {"loop": name, "input": inp.hex() if isinstance(inp, (bytes, bytearray)) else inp}
            broken.append(Broken("correspondence", "c12." + name, detail[:600], case=case))

    for k, ((name, inp, req), o) in enumerate(zip(cs, outs)):
        ctx.case((name, inp), nontrivial=bool(inp))
        if "drv_error" in o:
            report(name, inp, "driver: " + o["drv_error"])
            continue
        try:
            if name == "xls_filepass":
                r = L.impl_xls_filepass(P, inp)
                ok = r == {"found": o["found"], "steps": o["steps"]}
                ctx.count(f"loops/{name}/" + ("found" if r["found"] else "absent"))
            elif name == "jpeg_dims":
                r = L.impl_jpeg_dims(P, inp)
                ok = r == {"dims": o["dims"], "steps": o["steps"]}
                ctx.count(f"loops/{name}/" + ("dims" if r["dims"] else "none"))
            elif name.startswith("pixel_"):
                r = L.impl_pixel(P, name[6:], inp)
                ok = r == {"w": o["w"], "h": o["h"], "steps": o["steps"]}
                ctx.count(f"loops/{name}/" + ("dims" if r["w"] or r["h"] else "none"))
            elif name == "ppt_iter":
                r, sl = L.impl_ppt_iter(P, inp)
                ok = sl and r == {"recs": o["recs"], "steps": o["steps"], "copied": o["copied"]}
                ctx.count(f"loops/{name}/recs={min(len(r['recs']), 5)}")
            elif name == "slide_list":
                r = L.impl_slide_list(P, inp)
                ok = r == {"steps": o["steps"], "copied": o["copied"]}
                ctx.count(f"loops/{name}")
            elif name == "xls_blip":
                r = L.impl_xls_blip(P, inp)
                ok = r["steps"] == o["steps"] and r["offsets"] == [p[0] for p in o["traj"]]
                ctx.count(f"loops/{name}/" + ("blip" if any(p[1] > 1 for p in o["traj"]) else "none"))
            elif name == "dib":
                r = L.impl_dib(P, inp)
                ok = r == {"lens": [p[1] for p in o["acc"]], "steps": o["steps"]}
                ctx.count(f"loops/{name}/acc={min(len(r['lens']), 3)}")
            elif name == "png":
                r = L.impl_png(P, inp)
                want = _dedup([bytes(inp[s:e]) for s, e in o["carved"]])
                ok = r["data"] == want and r["outer"] == o["outer"] and r["inner"] == o["inner"]
                ctx.count(f"loops/{name}/carved={min(len(want), 3)}")
            elif name == "rtf_ignorable":
                r = L.impl_rtf_ignorable(P, inp)
                ok = r == {"out": o["out"], "outer": o["outer"], "inner": o["inner"]}
                ctx.count(f"loops/{name}/" + ("skipped" if o["inner"] else "plain"))
            elif name == "rtf_walk":
                r = L.impl_rtf_walk(P, inp)
                ok = r["traj"] == o["traj"]
                ctx.count(f"loops/{name}")
            elif name == "sz_props":
                r = L.impl_sz_props(P, inp)
                if "err" in o:
                    ok = r["err"] == o["err"]
                else:
                    ok = r["steps"] == o["steps"] and r["err"] in (None, "Bad7zFile")
                ctx.count(f"loops/{name}/" + (o.get("err") or "ok"))
            elif name == "sz_files_info":
                r = L.impl_sz_files_info(P, inp)
                if "err" in o or "err" in r:
                    ok = r.get("err") == o.get("err")
                else:
                    names = o["names"] if o["names"] is not None else [[] for _ in range(o["num"])]
                    ok = (r["num"] == o["num"] and r["names"] == names and r["pos"] == o["pos"] and r["steps"] == o["steps"]
                          and r["name_steps"] == o["name_steps"] and sum(r["lens"]) == 3 * o["num"])
                ctx.count(f"loops/{name}/" + (o.get("err") or "ok"))
            elif name == "pdf_row":
                r = pre[k]
                ok = r == {"count": o["count"], "steps": o["steps"]}
                ctx.count(f"loops/{name}/values={min(r['count'], 3)}")
            elif name == "pdf_norm":
                r = L.impl_pdf_norm(P, *inp)
                ok = r == {"merged": o["merged"], "steps": o["steps"]}
                ctx.count(f"loops/{name}/steps={min(r['steps'], 3)}")
            elif name == "gf_mul":
                from sharepoint2text.parsing.extractors.pdf import _pypdf_aes_fallback as F
                from builders.c12_trace import Tracer
                with Tracer([P["gf_mul"]]):
                    v = F._gf_mul(*inp)
                r = {"r": v, "steps": P["gf_mul"].count}
                ok = r == {"r": o["r"], "steps": o["steps"]}
                ctx.count("loops/gf_mul")
            else:
                continue
        except (Exception, StepLimit) as e:   # the real function raised / did not stop: the models never do (7z errors are handled above)
            r, ok = {"raised": repr(e)[:200]}, False
        if not ok:
            report(name, inp, f"impl={r} model={ {k: v for k, v in o.items()} }")
    # the one unmodelled input-driven loop: run-time monitor of its variant
    for _ in range(ctx.n(40, 400)):
        lines = [L.gen_pdf_line(ctx.rng) for _ in range(ctx.rng.randint(0, 12))]
        mono, v = L.impl_pdf_extract_monotone(P, lines)
        ctx.case(("pdf_extract", tuple(lines)), nontrivial=bool(lines))
        ctx.count("loops/pdf_extract_monitor")
        if not mono:
            report("pdf_extract_monotone", repr(lines), f"idx not strictly increasing: {v}")
    ctx.coverage["loop_mismatches"] = bad
    return broken, mism
