"""C12, XML entity / DTD constructs: correspondence (real `read_zip_xml_root` vs. the Lean chain model on the same
parts) and the property oracle on whole packages (every ZIP-container format, every XML member, every kind of leading
bytes): text and peak memory of an extraction must not grow faster than a fixed multiple of the bytes added.

The oracle never looks at the Lean model.  It is run on EVERY check (a sample in the quick tier, everything in the
thorough tier and in the failing-input search) because a parser that expands entities under some condition on the
part's first bytes does not show in any result the other correspondences compare.

SAFETY: one reference per input, at most FAN**4 * 32 = 2 MiB of expansion (c12_xmlparts refuses anything larger).
"""
from __future__ import annotations

import json
import os
import subprocess
import sys
import tempfile

from builders import c12_xmlparts as XP

AMP_K = 16                    # characters of text per added input byte
MEM_K = 64                    # bytes of peak memory per added input byte …
MEM_SLACK = 512 * 1024        # … above this allowance for allocator / cache noise between two runs
SUSPECT_MEM = 192 * 1024      # sweep: a single run this far above the package's baseline is looked at more closely
SITE = "read_zip_xml_root"


# ============================================================================ correspondence: parts
def _rand_items(rng, n_ents, allow_undeclared=False):
    out = []
    for _ in range(rng.randint(0, 3)):
        k = rng.random()
        if k < 0.45 or (n_ents == 0 and not allow_undeclared):
            out.append(["lit", rng.choice([0, 1, 2, 5, 8])] if k < 0.8 else ["amp"])
        elif k < 0.55:
            out.append(["amp"])
        elif allow_undeclared and rng.random() < 0.1:
            out.append(["ref", n_ents + rng.randint(0, 1)])
        elif n_ents:
            out.append(["ref", rng.randrange(n_ents)])
    return out


def rand_desc(rng):
    doctype = rng.random() < 0.65
    ents = []
    if doctype:
        for i in range(rng.choice([0, 0, 1, 2, 3, 4])):
            ents.append(_rand_items(rng, i))
    return {"bom": rng.random() < 0.3, "ws": rng.choice([0, 0, 0, 1, 1, 2, 3]), "decl": rng.random() < 0.7, "doctype": doctype,
            "ents": ents, "body": _rand_items(rng, len(ents), allow_undeclared=True)}


def laughs_desc(ws, levels, fan=16, a=32):
    ents = [[["lit", a]]] + [[["ref", k]] * fan for k in range(levels)]
    return {"bom": False, "ws": ws, "decl": True, "doctype": True, "ents": ents, "body": [["ref", levels]]}


FIXED_DESCS = [laughs_desc(ws, lv) for ws in (0, 1) for lv in (1, 2, 3, 4)] + [
    {"bom": True, "ws": 0, "decl": True, "doctype": False, "ents": [], "body": [["lit", 3]]},
    {"bom": True, "ws": 1, "decl": True, "doctype": False, "ents": [], "body": [["lit", 3]]},
    {"bom": True, "ws": 2, "decl": False, "doctype": True, "ents": [], "body": [["lit", 3], ["amp"]]},
    {"bom": False, "ws": 1, "decl": True, "doctype": True, "ents": [[["lit", 300]]], "body": [["ref", 0]] * 300},   # quadratic blow-up
    {"bom": False, "ws": 0, "decl": True, "doctype": True, "ents": [[["lit", 2]]], "body": []},                    # declared, never referenced
]


def correspondence(ctx, Broken):
    broken = []
    descs = FIXED_DESCS + [rand_desc(ctx.rng) for _ in range(ctx.n(150, 3000))]
    reqs = [XP.model_request(d, SITE) for d in descs]
    outs = ctx.drive(reqs)
    # the model's NON-refusing path is not reachable through the library as it is: tie it to the real plain parser
    # (reference chain of the counterexample theorems; the nested-entity witnesses 8192 / 131072 / 2097152 are among them)
    routs = ctx.drive([XP.model_request(d, "reference:lenient") for d in descs])
    for d, o in zip(descs, routs):
        data = XP.part_bytes(d)
        real = XP.read_part_lenient(data)
        ctx.case(("xml_part_ref", json.dumps(d, sort_keys=True)))
        ctx.count("xml_part_reference/" + real[0].split(":")[0])
        model = ("drv_error",) if "drv_error" in o else ((o["outcome"], o["text_len"]) if o["outcome"] == "ok" else (o["outcome"],))
        if model != real:
            broken.append(Broken("correspondence", "c12.xml_part.reference", f"real parsers (defusedxml, then xml.etree on the stripped bytes)={real}, "
                                 f"model of the reference chain={model}", case={"kind": "xml_part", "desc": d}))
    for d, o in zip(descs, outs):
        data = XP.part_bytes(d)
        real = XP.read_part(data)
        ctx.case(("xml_part", json.dumps(d, sort_keys=True)))
        ctx.count("xml_part/" + real[0].split(":")[0] + ("/leading-ws+decl" if d["ws"] and d["decl"] else "")
                  + ("/entities" if d["doctype"] and d["ents"] else ""))
        if "drv_error" in o:
            broken.append(Broken("correspondence", "c12.xml_part", o["drv_error"], case={"kind": "xml_part", "desc": d}))
            continue
        model = (o["outcome"], o["text_len"]) if o["outcome"] == "ok" else (o["outcome"],)
        if model != real or o["bytes"] != len(data):
            broken.append(Broken("correspondence", "c12.xml_part",
                                 f"real read_zip_xml_root={real} on {len(data)} bytes, model={model} on {o['bytes']} bytes ({o['stages']} stage(s))",
                                 case={"kind": "xml_part", "desc": d}))
    return broken


# ============================================================================ oracle: packages
_BASES = {}


def base_packages(with_fixtures=True):
    key = bool(with_fixtures)
    if key not in _BASES:
        _BASES[key] = XP.bases(with_fixtures)
    return _BASES[key]


def find_base(label):
    for lab, fmt, parts in base_packages(label.startswith("fixture/")):
        if lab == label:
            return fmt, parts
    return None


def run_history(history):
    """operations executed before the judged one (same process): [{"base", "case"}]"""
    for h in history or []:
        got = find_base(h["base"])
        if got is None:
            continue
        fmt, parts = got
        built = XP.build_case(parts, h["case"])
        if built is not None:
            XP.measure(fmt, built[0], trace=False)


def _with_construct(case, construct):
    c = dict(case)
    c["construct"] = list(construct)
    return c


def growth_steps(case):
    """the same case at three sizes of the same construct (each step adds ~100-500 bytes)"""
    c = case["construct"]
    if c[0] == "quad":
        return [("quad", 300, 75), ("quad", 300, 150), ("quad", 300, 300)]
    return [("laughs", 2, XP.FAN), ("laughs", 3, XP.FAN), ("laughs", 4, XP.FAN)]


def judge(fmt, parts, case):
    """the statement on one (package, member, leading bytes, construct, position): growing the construct by a few bytes
    must not grow the text by more than AMP_K per added byte nor the peak memory by more than MEM_K per added byte
    (+ MEM_SLACK); a refusal is fine.  -> (holds, message)"""
    rows = []
    for cons in growth_steps(case):
        built = XP.build_case(parts, _with_construct(case, cons))
        if built is None:
            return True, f"{case['member']}: no element to inject into"
        data, raw = built
        XP.measure(fmt, data, trace=False)          # one-time allocations of this path (imports, caches) happen here
        r = XP.measure(fmt, data)
        rows.append((cons, raw, len(data), r))
    desc = "; ".join(f"{c[0]} {c[1]}/{c[2]}: {raw} B uncompressed ({n}-byte file) -> " +
                     (f"refused ({r['refused']})" if r["refused"] else f"{r['text_len']} characters, peak {r['peak']} B")
                     for c, raw, n, r in rows)
    bad = []
    for (c0, raw0, _, r0), (c1, raw1, _, r1) in zip(rows, rows[1:]):
        if r0["refused"] or r1["refused"]:
            continue
        d_raw = max(1, raw1 - raw0)
        d_text, d_peak = r1["text_len"] - r0["text_len"], r1["peak"] - r0["peak"]
        if d_text > AMP_K * d_raw:
            bad.append(f"+{d_raw} input bytes -> +{d_text} characters of text ({d_text // d_raw} per byte > {AMP_K})")
        if d_peak > MEM_K * d_raw + MEM_SLACK:
            bad.append(f"+{d_raw} input bytes -> +{d_peak} bytes of peak memory ({d_peak // d_raw} per byte > {MEM_K})")
    return not bad, (f"{fmt.upper()} {case['member']} (leading bytes: {case['lead']}, reference in: {case['where']}"
                     + (f", other parts behind: {case['others_lead']}" if case.get("others_lead", "none") != "none" else "") + "): "
                     + (" | ".join(bad) + " — " if bad else "within bounds — ") + desc)


def _cases_for(ctx, label, fmt, parts, full):
    """the sweep's cases for one base package"""
    rng = ctx.rng
    members = XP.xml_members(parts)
    wheres = ("root", "text", "attr")
    out = []
    hand = label.startswith("hand/")
    for i, m in enumerate(members):
        if full and hand:
            combos = [(l, w, o) for l in XP.LEADS for w in wheres for o in ("none", "lf")]
        elif full:
            combos = [(l, w, "none") for l in ("none", "lf", "bom-lf", "enc-unknown") for w in wheres]
        elif hand:
            w = wheres[i % 3]
            combos = [("lf", w, "none"), ("bom-lf", wheres[(i + 1) % 3], "none"), ("none", w, "none"),
                      (rng.choice(["crlf", "space", "tab-lf", "bom", "bom-crlf-crlf"]), rng.choice(wheres), "none"),
                      ("enc-unknown", wheres[(i + 2) % 3], "none"),
                      (rng.choice(["none", "lf"]), rng.choice(wheres), "lf")]
        else:
            combos = []
        for l, w, o in combos:
            cons = ["quad", 300, 300] if rng.random() < 0.15 else ["laughs", XP.MAX_LEVELS, XP.FAN]
            out.append({"member": m, "lead": l, "construct": cons, "where": w, "others_lead": o})
    return out


def sweep(ctx, Violation, full=False, fresh_process_check=True):
    """-> [Violation]; one per failing mechanism (the first failing input of each format is kept, the others are
    summarised in its message)"""
    done = getattr(ctx, "_c12_xml_sweep", None)
    if done is not None and (done[0] or not full or done[1]):
        return done[1]
    fails, history, n_cases, n_suspects = [], [], 0, 0
    plan = []
    for label, fmt, parts in base_packages(True):
        cs = _cases_for(ctx, label, fmt, parts, full or ctx.thorough)
        plan.append((label, fmt, parts, cs))
    # quick tier: a random sample of (fixture, member) cases on top of the hand-written packages
    if not (full or ctx.thorough):
        pool = [(label, fmt, parts, m) for label, fmt, parts, _ in plan if label.startswith("fixture/") for m in XP.xml_members(parts)]
        for label, fmt, parts, m in (ctx.rng.sample(pool, min(40, len(pool))) if pool else []):
            case = {"member": m, "lead": ctx.rng.choice(["lf", "bom-lf", "none", "crlf"]), "construct": ["laughs", XP.MAX_LEVELS, XP.FAN],
                    "where": ctx.rng.choice(["root", "text", "attr"]), "others_lead": "none"}
            plan.append((label, fmt, parts, [case]))
    baselines = {}
    failed_keys = set()
    for label, fmt, parts, cs in plan:
        if not cs:
            continue
        if label not in baselines:
            data0 = XP._zip(parts)
            XP.measure(fmt, data0, trace=False)
            baselines[label] = (XP.measure(fmt, data0), sum(len(d) for d in parts.values()))
        b, raw0 = baselines[label]
        for case in cs:
            built = XP.build_case(parts, case)
            if built is None:
                continue
            data, raw = built
            r = XP.measure(fmt, data)
            n_cases += 1
            ctx.case(("xml_pkg", label, json.dumps(case, sort_keys=True)))
            ctx.count(f"xml_pkg/{fmt}/" + ("refused" if r["refused"] else "accepted"))
            ctx.count("xml_pkg/lead/" + case["lead"])
            d_raw = max(0, raw - raw0)
            suspect = r["refused"] is None and (r["sentinels"] > 0 or r["text_len"] > b["text_len"] + AMP_K * d_raw + 256
                                                or r["peak"] > b["peak"] + SUSPECT_MEM + MEM_K * d_raw)
            if suspect and (fmt, case["member"], case["lead"] != "none") not in failed_keys:
                n_suspects += 1
                ok, msg = judge(fmt, parts, case)
                if not ok:
                    failed_keys.add((fmt, case["member"], case["lead"] != "none"))
                    fails.append({"base": label, "fmt": fmt, "case": case, "msg": msg, "history": list(history[-60:])})
            history.append({"base": label, "case": case})
    ctx.coverage["xml_entity_sweep"] = {"cases": n_cases, "looked_at_closely": n_suspects, "failing": len(fails),
                                        "bases": len(baselines), "full": bool(full or ctx.thorough)}
    out = []
    if fails:
        first = next((f for f in fails if "characters of text" in f["msg"].split(" — ")[0]), fails[0])   # text AND memory grow
        # "leading bytes" in the wide sense: anything in front of the DTD that makes a first parser give up
        only_behind_lead = all(f["case"]["lead"] != "none" or f["case"].get("others_lead", "none") != "none" for f in fails)
        hist, note = ([], "")
        if fresh_process_check:
            hist, note = minimal_history(first)
        where = sorted({f"{f['fmt']}:{f['case']['member']}" for f in fails})
        leads = sorted({f["case"]["lead"] for f in fails})
        key = "xml.entity-expansion-behind-leading-bytes" if only_behind_lead else "xml.entity-expansion"
        out.append(Violation(key, first["msg"] + note + f" — {len(fails)} (format, member) pairs fail: {', '.join(where[:12])}"
                             + (" …" if len(where) > 12 else "") + f"; leading bytes of the failing cases: {leads}; the statement says cost is bounded "
                             "by the input size irrespective of entity tricks",
                             {"kind": "xml_entity", "base": first["base"], "fmt": first["fmt"], "case": first["case"], "history": hist}))
    ctx._c12_xml_sweep = (bool(full or ctx.thorough), out)
    return out


# ---- a failure seen in the middle of a sweep may depend on what the process did before: find the operations that a
#      FRESH process needs in front of the failing one
def _fresh_replay_fails(payload) -> bool:
    here = os.path.dirname(os.path.dirname(os.path.abspath(__file__)))
    with tempfile.NamedTemporaryFile("w", suffix=".json", delete=False) as fh:
        json.dump(payload, fh)
        tmp = fh.name
    try:
        p = subprocess.run([sys.executable, os.path.join(here, "run.py"), "C12", "--replay", tmp],
                           capture_output=True, text=True, timeout=300, env=dict(os.environ))
        return p.stdout.startswith("REPLAY-FAILS")
    except subprocess.TimeoutExpired:
        return False
    finally:
        os.unlink(tmp)


def minimal_history(fail):
    """-> (history, note): the shortest of [nothing | the same member behind the same leading bytes without any
    entity | the case before | everything before] after which a fresh process shows the failure"""
    case = fail["case"]
    noise = {"base": fail["base"], "case": {**case, "construct": ["none"]}}
    plain = {"base": fail["base"], "case": {**case, "lead": "lf", "construct": ["none"]}}
    cands = [[], [noise], [plain], fail["history"][-1:], fail["history"]]
    for h in cands:
        if _fresh_replay_fails({"property": "C12", "replay": {"kind": "xml_entity", "base": fail["base"], "fmt": fail["fmt"],
                                                               "case": case, "history": h}}):
            return h, (f" [after {len(h)} earlier extraction(s) in the same process]" if h else "")
    return fail["history"], " [seen inside the sweep's sequence of extractions only; not reproduced in a fresh process]"


def replay(rep):
    got = find_base(rep["base"])
    if got is None:
        return False, f"base package {rep['base']} not available"
    fmt, parts = got
    run_history(rep.get("history"))
    return judge(fmt, parts, rep["case"])
