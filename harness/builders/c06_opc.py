"""C06 generator: OPC packages whose parts live at NON-DEFAULT names and are reached through relationships.

Office writes docProps/core.xml, xl/workbook.xml, ppt/slides/slide1.xml …; the Open Packaging Conventions only
fix `_rels/.rels` and `[Content_Types].xml`: every other part is found through a relationship (System.IO.Packaging,
ClosedXML, EPPlus keep the core properties at package/services/metadata/core-properties/<guid>.psmdcp).  Code that
looks a part up by its customary name and code that follows the relationship disagree exactly on such packages, so
every package facet that is optional is varied INDEPENDENTLY here:

* where the core-properties part lives  x  which of its optional members (created, modified, creator, title, …) it states
    default      docProps/core.xml, relationship points to it
    moved        <guid>.psmdcp reached through the relationship (absolute target), no docProps/core.xml
    moved-rel    the same with a relative target
    moved+stale  moved, and an unreferenced docProps/core.xml with OTHER members is still in the package
    norel        docProps/core.xml present, relationship removed
    dangling     relationship to a part that does not exist, no docProps/core.xml
    absent       neither part nor relationship
* the extended-properties part moved the same way
* the main document part and one part referenced from it renamed inside their directory (relationship targets,
  content-type overrides and the parts' own .rels files follow).

`variants(rng, name, data, k)` yields (kind, bytes); the caller keeps what the extractor accepts.  Everything is
written with fixed zip timestamps, so equal choices give equal bytes.
"""
from __future__ import annotations

import io
import posixpath
import re
import zipfile
import xml.etree.ElementTree as ET

REL_NS = "http://schemas.openxmlformats.org/package/2006/relationships"
CT_NS = "http://schemas.openxmlformats.org/package/2006/content-types"
CORE_REL = "http://schemas.openxmlformats.org/package/2006/relationships/metadata/core-properties"
APP_REL = "http://schemas.openxmlformats.org/officeDocument/2006/relationships/extended-properties"
MAIN_REL = "http://schemas.openxmlformats.org/officeDocument/2006/relationships/officeDocument"
CORE_CT = "application/vnd.openxmlformats-package.core-properties+xml"
APP_CT = "application/vnd.openxmlformats-officedocument.extended-properties+xml"
DEFAULT_CORE = "docProps/core.xml"
DEFAULT_APP = "docProps/app.xml"

LOCATIONS = ["default", "moved", "moved-rel", "moved+stale", "norel", "dangling", "absent"]
OPTIONAL_MEMBERS = ["title", "creator", "lastModifiedBy", "created", "modified", "revision", "keywords", "language"]


def _hex(rng, n=16):
    return "".join(rng.choice("0123456789abcdef") for _ in range(n))


def _stamp(rng):
    return "%04d-%02d-%02dT%02d:%02d:%02dZ" % (rng.randint(1999, 2035), rng.randint(1, 12), rng.randint(1, 28),
                                                 rng.randint(0, 23), rng.randint(0, 59), rng.randint(0, 59))


def core_xml(rng, members) -> bytes:
    """a core-properties part stating exactly the given optional members"""
    body = []
    for m in members:
        if m == "title":
            body.append(f"<dc:title>Title {_hex(rng, 4)}</dc:title>")
        elif m == "creator":
            body.append(f"<dc:creator>Author {_hex(rng, 4)}</dc:creator>")
        elif m == "lastModifiedBy":
            body.append(f"<cp:lastModifiedBy>Editor {_hex(rng, 4)}</cp:lastModifiedBy>")
        elif m == "created":
            body.append(f'<dcterms:created xsi:type="dcterms:W3CDTF">{_stamp(rng)}</dcterms:created>')
        elif m == "modified":
            body.append(f'<dcterms:modified xsi:type="dcterms:W3CDTF">{_stamp(rng)}</dcterms:modified>')
        elif m == "revision":
            body.append(f"<cp:revision>{rng.randint(1, 99)}</cp:revision>")
        elif m == "keywords":
            body.append(f"<cp:keywords>k{_hex(rng, 3)}</cp:keywords>")
        elif m == "language":
            body.append("<dc:language>en-GB</dc:language>")
    return ('<?xml version="1.0" encoding="UTF-8" standalone="yes"?>'
            '<cp:coreProperties xmlns:cp="http://schemas.openxmlformats.org/package/2006/metadata/core-properties" '
            'xmlns:dc="http://purl.org/dc/elements/1.1/" xmlns:dcterms="http://purl.org/dc/terms/" '
            'xmlns:dcmitype="http://purl.org/dc/dcmitype/" xmlns:xsi="http://www.w3.org/2001/XMLSchema-instance">'
            + "".join(body) + "</cp:coreProperties>").encode()


def _flat_xml(root_tag, ns, root) -> bytes:
    """serialise a one-level document of attribute-only elements (rels, content types) without touching the
    process-wide ElementTree namespace registry"""
    from xml.sax.saxutils import quoteattr
    out = ['<?xml version="1.0" encoding="UTF-8" standalone="yes"?>\n', f'<{root_tag} xmlns="{ns}">']
    for el in root:
        tag = el.tag.rsplit("}", 1)[-1]
        out.append("<" + tag + "".join(f" {k}={quoteattr(v)}" for k, v in el.attrib.items()) + "/>")
    out.append(f"</{root_tag}>")
    return "".join(out).encode()


class Package:
    def __init__(self, data: bytes):
        z = zipfile.ZipFile(io.BytesIO(data))
        self.parts = {}
        for info in z.infolist():
            if not info.is_dir():
                self.parts[info.filename] = z.read(info.filename)

    def bytes(self) -> bytes:
        out = io.BytesIO()
        with zipfile.ZipFile(out, "w", zipfile.ZIP_DEFLATED) as z:
            names = list(self.parts)
            # [Content_Types].xml and _rels/.rels first, as packagers do
            names.sort(key=lambda n: (n != "[Content_Types].xml", n != "_rels/.rels"))
            for n in names:
                zi = zipfile.ZipInfo(n, date_time=(2020, 1, 2, 3, 4, 6))
                zi.compress_type = zipfile.ZIP_DEFLATED
                z.writestr(zi, self.parts[n])
        return out.getvalue()

    # ---- relationships of a source part ("" = package)
    @staticmethod
    def rels_name(source: str) -> str:
        d, b = posixpath.split(source)
        return posixpath.join(d, "_rels", b + ".rels")

    def rels(self, source=""):
        raw = self.parts.get(self.rels_name(source))
        if raw is None:
            return None
        return ET.fromstring(raw)

    def set_rels(self, source, root):
        self.parts[self.rels_name(source)] = _flat_xml("Relationships", REL_NS, root)

    @staticmethod
    def resolve(source: str, target: str) -> str:
        if target.startswith("/"):
            return target.lstrip("/")
        return posixpath.normpath(posixpath.join(posixpath.dirname(source), target))

    # ---- content types
    def ct_edit(self, drop_override=None, add_override=None, add_default=None, rename_override=None):
        raw = self.parts.get("[Content_Types].xml")
        if raw is None:
            return
        root = ET.fromstring(raw)
        for el in list(root):
            tag = el.tag.rsplit("}", 1)[-1]
            if tag == "Override":
                pn = el.get("PartName", "")
                if drop_override and pn.lstrip("/") == drop_override:
                    root.remove(el)
                elif rename_override and pn.lstrip("/") == rename_override[0]:
                    el.set("PartName", "/" + rename_override[1])
        if add_default and not any(el.get("Extension", "").lower() == add_default[0] for el in root):
            el = ET.Element("{%s}Default" % CT_NS, {"Extension": add_default[0], "ContentType": add_default[1]})
            root.insert(0, el)
        if add_override:
            root.append(ET.Element("{%s}Override" % CT_NS, {"PartName": "/" + add_override[0], "ContentType": add_override[1]}))
        self.parts["[Content_Types].xml"] = _flat_xml("Types", CT_NS, root)


def _place_props(pkg: Package, rng, rel_type, default_name, ctype, ext, where, body, stale_body=None):
    """put a package-level property part at `where` (see LOCATIONS)"""
    root = pkg.rels("")
    if root is None:
        return False
    old = [r for r in root if r.get("Type") == rel_type]
    for r in old:
        pkg.parts.pop(pkg.resolve("", r.get("Target", "")), None)
        root.remove(r)
    pkg.parts.pop(default_name, None)
    pkg.ct_edit(drop_override=default_name)
    moved = f"package/services/metadata/core-properties/{_hex(rng, 32)}.{ext}" if ext == "psmdcp" else f"meta/{_hex(rng, 8)}/props.{ext}"
    rid = "rId%d" % (900 + rng.randint(0, 90))
    def add_rel(target):
        root.append(ET.Element("{%s}Relationship" % REL_NS, {"Id": rid, "Type": rel_type, "Target": target}))
    if where == "default":
        pkg.parts[default_name] = body
        pkg.ct_edit(add_override=(default_name, ctype))
        add_rel(default_name)
    elif where in ("moved", "moved-rel", "moved+stale"):
        pkg.parts[moved] = body
        pkg.ct_edit(add_default=(ext, ctype)) if ext == "psmdcp" else pkg.ct_edit(add_override=(moved, ctype))
        add_rel(moved if where == "moved-rel" else "/" + moved)
        if where == "moved+stale":
            pkg.parts[default_name] = stale_body if stale_body is not None else body
            pkg.ct_edit(add_override=(default_name, ctype))
    elif where == "norel":
        pkg.parts[default_name] = body
        pkg.ct_edit(add_override=(default_name, ctype))
    elif where == "dangling":
        add_rel("/" + moved)
    elif where == "absent":
        pass
    else:
        raise KeyError(where)
    pkg.set_rels("", root)
    return True


def _rename_part(pkg: Package, source: str, rel_el, new_base: str):
    """rename the part a relationship of `source` points to, inside its directory"""
    old = pkg.resolve(source, rel_el.get("Target", ""))
    if old not in pkg.parts or (rel_el.get("TargetMode") or "").lower() == "external":
        return None
    d = posixpath.dirname(old)
    ext = posixpath.splitext(old)[1]
    new = posixpath.join(d, new_base + ext)
    if new in pkg.parts:
        return None
    pkg.parts[new] = pkg.parts.pop(old)
    orels, nrels = pkg.rels_name(old), pkg.rels_name(new)
    if orels in pkg.parts:
        pkg.parts[nrels] = pkg.parts.pop(orels)
    t = rel_el.get("Target", "")
    rel_el.set("Target", ("/" + new) if t.startswith("/") else posixpath.join(posixpath.dirname(t), new_base + ext))
    pkg.ct_edit(rename_override=(old, new))
    return old, new


def _main_part(pkg: Package):
    root = pkg.rels("")
    if root is None:
        return None, None
    for r in root:
        if r.get("Type") == MAIN_REL:
            return root, r
    return root, None


def variants(rng, name: str, data: bytes, k=None):
    """(kind, bytes) — all location x {created, modified} combinations when k is None, otherwise the combinations that
    separate 'by name' from 'by relationship' plus k random ones; then the renames"""
    try:
        Package(data)
    except Exception:
        return
    combos = [(w, c, m) for w in LOCATIONS for c in (True, False) for m in (True, False)]
    if k is not None:
        key = [x for x in combos if x[0] in ("moved", "moved+stale", "norel") and (x[1] or x[2])]
        rest = [x for x in combos if x not in key]
        combos = key + rng.sample(rest, min(k, len(rest)))
    for where, c, m in combos:
        pkg = Package(data)
        others = [x for x in OPTIONAL_MEMBERS if x not in ("created", "modified") and rng.random() < 0.5]
        members = others + (["created"] if c else []) + (["modified"] if m else [])
        rng.shuffle(members)
        # the stale copy states the complementary dates: what a reader of the WRONG part would see differs
        stale = core_xml(rng, [x for x in ("created", "modified") if x not in members] + ["creator"])
        if not _place_props(pkg, rng, CORE_REL, DEFAULT_CORE, CORE_CT, "psmdcp", where, core_xml(rng, members), stale):
            return
        yield f"core-{where}-{'c' if c else ''}{'m' if m else ''}", pkg.bytes()
    # extended properties moved / dropped
    for where in ("moved", "absent"):
        pkg = Package(data)
        body = pkg.parts.get(DEFAULT_APP)
        if body is None:
            break
        if _place_props(pkg, rng, APP_REL, DEFAULT_APP, APP_CT, "xml", where, body):
            yield f"app-{where}", pkg.bytes()
    # main part renamed inside its directory
    pkg = Package(data)
    root, main = _main_part(pkg)
    if main is not None:
        if _rename_part(pkg, "", main, "main-" + _hex(rng, 6)):
            pkg.set_rels("", root)
            yield "rename-main", pkg.bytes()
    # one child of the main part renamed (worksheet, slide, styles, shared strings, media …)
    pkg = Package(data)
    root, main = _main_part(pkg)
    if main is not None:
        src = pkg.resolve("", main.get("Target", ""))
        crels = pkg.rels(src)
        if crels is not None:
            kids = [r for r in crels if (r.get("TargetMode") or "").lower() != "external"]
            rng.shuffle(kids)
            done = 0
            for r in kids:
                if _rename_part(pkg, src, r, "p" + _hex(rng, 6)):
                    done += 1
                    if done >= 2:
                        break
            if done:
                pkg.set_rels(src, crels)
                yield "rename-child", pkg.bytes()
