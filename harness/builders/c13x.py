"""C13 builder: SpreadsheetML packages written BY HAND (no openpyxl), so that every member of a worksheet part that
the format leaves optional can be varied independently of the others:

  dimension   "none" | "exact" | "used"      no <dimension> element (streaming exporters, many non-Excel writers) /
                                             the written grid / the used range (what Excel writes)
  refs        True | False                   `r` attributes on <row> and <c> (optional: without them cells and rows are
                                             consecutive, so nothing may be omitted then)
  trailing    "omit" | "empty" | "styled"    trailing empty cells of a row: not stored (stored rows get different
                                             lengths: ragged) / <c r=".."/> / <c r=".." s="0"/>
  inner       "omit" | "empty" | "styled"    the same for empty cells in front of a value (sparse rows)
  empty_rows  "omit" | "empty"               rows without any value: no <row> element / <row r=".."/>
  strings     "shared" | "inline" | "str"    sharedStrings.xml + t="s" / <is><t> / t="str" with <v>
  spans       True | False                   `spans` attribute on <row>
  numbers     "plain" | "typed" | "formula"  <c><v> / <c t="n"><v> / <c><f>..</f><v> (cached formula result)
  dates       "iso" | "serial"               t="d" with an ISO value / serial number with a date number format
                                             (serial only where it is exact: dates, and date-times on whole seconds are
                                             written as ISO)

A sheet is a list of rows of None | str | bool | int | float | datetime.datetime | datetime.date | datetime.time
(rows may have different lengths); what must come back is independent of the options.
"""
from __future__ import annotations

import datetime
import io
import zipfile
from xml.sax.saxutils import escape

NS = "http://schemas.openxmlformats.org/spreadsheetml/2006/main"
RNS = "http://schemas.openxmlformats.org/officeDocument/2006/relationships"

OPTIONS = {
    "dimension": ["none", "exact", "used"],
    "refs": [True, False],
    "trailing": ["omit", "empty", "styled"],
    "inner": ["omit", "empty", "styled"],
    "empty_rows": ["omit", "empty"],
    "strings": ["shared", "inline", "str"],
    "spans": [False, True],
    "numbers": ["plain", "typed", "formula"],
    "dates": ["iso", "serial"],
}
DEFAULT = {k: v[0] for k, v in OPTIONS.items()}

STYLES = (
    '<?xml version="1.0" encoding="UTF-8" standalone="yes"?>'
    f'<styleSheet xmlns="{NS}">'
    '<fonts count="1"><font><sz val="11"/><name val="Calibri"/></font></fonts>'
    '<fills count="1"><fill><patternFill patternType="none"/></fill></fills>'
    '<borders count="1"><border><left/><right/><top/><bottom/><diagonal/></border></borders>'
    '<cellStyleXfs count="1"><xf numFmtId="0" fontId="0" fillId="0" borderId="0"/></cellStyleXfs>'
    '<cellXfs count="3">'
    '<xf numFmtId="0" fontId="0" fillId="0" borderId="0" xfId="0"/>'
    '<xf numFmtId="14" fontId="0" fillId="0" borderId="0" xfId="0" applyNumberFormat="1"/>'
    '<xf numFmtId="22" fontId="0" fillId="0" borderId="0" xfId="0" applyNumberFormat="1"/>'
    "</cellXfs></styleSheet>"
)


def col_name(j: int) -> str:
    """0-based column index -> A, B, …, Z, AA, …"""
    s = ""
    j += 1
    while j:
        j, r = divmod(j - 1, 26)
        s = chr(65 + r) + s
    return s


def _is_empty(v) -> bool:
    return v is None or (isinstance(v, str) and v == "")


def normalise(opts: dict) -> dict:
    o = dict(DEFAULT)
    o.update(opts or {})
    if not o["refs"]:
        # without cell references the position of a cell is its ordinal: nothing in front of a value may be left out
        if o["inner"] == "omit":
            o["inner"] = "empty"
        if o["empty_rows"] == "omit":
            o["empty_rows"] = "empty"
    return o


def _serial(v) -> float | int | None:
    """Excel serial number of a date (1900 system) when it is exact"""
    if isinstance(v, datetime.datetime):
        return None
    if isinstance(v, datetime.date):
        n = (v - datetime.date(1899, 12, 30)).days
        return n if n > 60 else None
    return None


class _Strings:
    def __init__(self):
        self.items, self.index = [], {}

    def add(self, s: str) -> int:
        if s not in self.index:
            self.index[s] = len(self.items)
            self.items.append(s)
        return self.index[s]

    def xml(self) -> str:
        body = "".join(f'<si><t xml:space="preserve">{escape(s)}</t></si>' for s in self.items)
        return (f'<?xml version="1.0" encoding="UTF-8" standalone="yes"?><sst xmlns="{NS}" count="{len(self.items)}" '
                f'uniqueCount="{len(self.items)}">{body}</sst>')


def _cell_xml(v, ref: str, o: dict, strings: _Strings) -> str:
    r = f' r="{ref}"' if o["refs"] else ""
    if isinstance(v, bool):
        return f'<c{r} t="b"><v>{int(v)}</v></c>'
    if isinstance(v, (int, float)):
        if o["numbers"] == "typed":
            return f'<c{r} t="n"><v>{v!r}</v></c>'
        if o["numbers"] == "formula":
            return f"<c{r}><f>{v!r}+0</f><v>{v!r}</v></c>"
        return f"<c{r}><v>{v!r}</v></c>"
    if isinstance(v, (datetime.datetime, datetime.date, datetime.time)):
        n = _serial(v) if o["dates"] == "serial" else None
        if n is not None:
            return f'<c{r} s="1"><v>{n}</v></c>'
        if isinstance(v, datetime.date) and not isinstance(v, datetime.datetime):
            # a spreadsheet date is a date-time at midnight
            return f'<c{r} t="d" s="1"><v>{v.isoformat()}T00:00:00</v></c>'
        return f'<c{r} t="d" s="2"><v>{v.isoformat()}</v></c>'
    s = str(v)
    if s.startswith("#") and s in ("#DIV/0!", "#N/A", "#REF!", "#VALUE!", "#NAME?", "#NUM!", "#NULL!"):
        return f'<c{r} t="e"><v>{escape(s)}</v></c>'
    if o["strings"] == "inline":
        return f'<c{r} t="inlineStr"><is><t xml:space="preserve">{escape(s)}</t></is></c>'
    if o["strings"] == "str":
        return f'<c{r} t="str"><f>T("x")</f><v xml:space="preserve">{escape(s)}</v></c>'
    return f'<c{r} t="s"><v>{strings.add(s)}</v></c>'


def _empty_cell(ref: str, how: str, o: dict) -> str:
    r = f' r="{ref}"' if o["refs"] else ""
    return f"<c{r}/>" if how == "empty" else f'<c{r} s="0"/>'


def sheet_xml(grid, opts, strings: _Strings) -> str:
    o = normalise(opts)
    rows = []
    used_r = used_c = 0
    for i, row in enumerate(grid):
        last = max((j for j, v in enumerate(row) if not _is_empty(v)), default=-1)
        if last >= 0:
            used_r, used_c = i + 1, max(used_c, last + 1)
        cells = []
        for j, v in enumerate(row):
            ref = f"{col_name(j)}{i + 1}"
            if not _is_empty(v):
                cells.append(_cell_xml(v, ref, o, strings))
            else:
                how = o["inner"] if j < last else o["trailing"]
                if how != "omit":
                    cells.append(_empty_cell(ref, how, o))
        if not cells and o["empty_rows"] == "omit":
            continue
        attrs = f' r="{i + 1}"' if o["refs"] else ""
        if o["spans"] and row:
            attrs += f' spans="1:{len(row)}"'
        rows.append(f"<row{attrs}>{''.join(cells)}</row>" if cells else f"<row{attrs}/>")
    dim = ""
    if o["dimension"] == "exact":
        h, w = len(grid), max((len(r) for r in grid), default=0)
        dim = f'<dimension ref="A1:{col_name(max(w, 1) - 1)}{max(h, 1)}"/>'
    elif o["dimension"] == "used":
        dim = f'<dimension ref="A1:{col_name(max(used_c, 1) - 1)}{max(used_r, 1)}"/>' if (used_r, used_c) > (1, 1) else '<dimension ref="A1"/>'
    data = f"<sheetData>{''.join(rows)}</sheetData>" if rows else "<sheetData/>"
    return f'<?xml version="1.0" encoding="UTF-8" standalone="yes"?><worksheet xmlns="{NS}">{dim}{data}</worksheet>'


def xlsx_package(sheets, opts_list=None) -> bytes:
    """sheets: list of grids; opts_list: one option dict per sheet (or None)"""
    opts_list = list(opts_list or [])
    opts_list += [None] * (len(sheets) - len(opts_list))
    strings = _Strings()
    parts = [sheet_xml(g, o, strings) for g, o in zip(sheets, opts_list)]
    n = len(sheets)
    ct = ('<?xml version="1.0" encoding="UTF-8" standalone="yes"?>'
          '<Types xmlns="http://schemas.openxmlformats.org/package/2006/content-types">'
          '<Default Extension="rels" ContentType="application/vnd.openxmlformats-package.relationships+xml"/>'
          '<Default Extension="xml" ContentType="application/xml"/>'
          '<Override PartName="/xl/workbook.xml" ContentType="application/vnd.openxmlformats-officedocument.spreadsheetml.sheet.main+xml"/>'
          + "".join(f'<Override PartName="/xl/worksheets/sheet{i + 1}.xml" ContentType="application/vnd.openxmlformats-officedocument.spreadsheetml.worksheet+xml"/>'
                    for i in range(n))
          + '<Override PartName="/xl/styles.xml" ContentType="application/vnd.openxmlformats-officedocument.spreadsheetml.styles+xml"/>'
          + ('<Override PartName="/xl/sharedStrings.xml" ContentType="application/vnd.openxmlformats-officedocument.spreadsheetml.sharedStrings+xml"/>'
             if strings.items else "")
          + "</Types>")
    root_rels = ('<?xml version="1.0" encoding="UTF-8" standalone="yes"?>'
                 '<Relationships xmlns="http://schemas.openxmlformats.org/package/2006/relationships">'
                 f'<Relationship Id="rId1" Type="{RNS}/officeDocument" Target="xl/workbook.xml"/></Relationships>')
    wb = (f'<?xml version="1.0" encoding="UTF-8" standalone="yes"?><workbook xmlns="{NS}" xmlns:r="{RNS}"><sheets>'
          + "".join(f'<sheet name="S{i}" sheetId="{i + 1}" r:id="rId{i + 1}"/>' for i in range(n)) + "</sheets></workbook>")
    wb_rels = ('<?xml version="1.0" encoding="UTF-8" standalone="yes"?>'
               '<Relationships xmlns="http://schemas.openxmlformats.org/package/2006/relationships">'
               + "".join(f'<Relationship Id="rId{i + 1}" Type="{RNS}/worksheet" Target="worksheets/sheet{i + 1}.xml"/>' for i in range(n))
               + f'<Relationship Id="rId{n + 1}" Type="{RNS}/styles" Target="styles.xml"/>'
               + (f'<Relationship Id="rId{n + 2}" Type="{RNS}/sharedStrings" Target="sharedStrings.xml"/>' if strings.items else "")
               + "</Relationships>")
    buf = io.BytesIO()
    with zipfile.ZipFile(buf, "w", zipfile.ZIP_DEFLATED) as z:
        z.writestr("[Content_Types].xml", ct)
        z.writestr("_rels/.rels", root_rels)
        z.writestr("xl/workbook.xml", wb)
        z.writestr("xl/_rels/workbook.xml.rels", wb_rels)
        z.writestr("xl/styles.xml", STYLES)
        if strings.items:
            z.writestr("xl/sharedStrings.xml", strings.xml())
        for i, p in enumerate(parts):
            z.writestr(f"xl/worksheets/sheet{i + 1}.xml", p)
    return buf.getvalue()


def gen_opts(rng) -> dict:
    """every optional member chosen independently"""
    return {k: rng.choice(v) for k, v in OPTIONS.items()}
