"""Reference writer for OpenDocument packages (ODT/ODP/ODS/ODG/ODF) used by the C02 'odf' part.

`tree` is the JSON form of an ElementTree-shaped node as the Lean driver emits it:
    {"t": "{ns-uri}local", "a": [[name, value], ...], "x": text, "l": tail, "k": [children]}
`serialize` writes it as XML with the usual ODF prefixes; `package` wraps content.xml (+ styles.xml, meta.xml,
META-INF/manifest.xml) into a ZIP whose first member is the stored `mimetype` entry.
"""
from __future__ import annotations

import io
import zipfile

NS = {
    "office": "urn:oasis:names:tc:opendocument:xmlns:office:1.0",
    "text": "urn:oasis:names:tc:opendocument:xmlns:text:1.0",
    "style": "urn:oasis:names:tc:opendocument:xmlns:style:1.0",
    "table": "urn:oasis:names:tc:opendocument:xmlns:table:1.0",
    "draw": "urn:oasis:names:tc:opendocument:xmlns:drawing:1.0",
    "xlink": "http://www.w3.org/1999/xlink",
    "dc": "http://purl.org/dc/elements/1.1/",
    "meta": "urn:oasis:names:tc:opendocument:xmlns:meta:1.0",
    "fo": "urn:oasis:names:tc:opendocument:xmlns:xsl-fo-compatible:1.0",
    "svg": "urn:oasis:names:tc:opendocument:xmlns:svg-compatible:1.0",
    "presentation": "urn:oasis:names:tc:opendocument:xmlns:presentation:1.0",
    "math": "http://www.w3.org/1998/Math/MathML",
    "number": "urn:oasis:names:tc:opendocument:xmlns:datastyle:1.0",
    "x": "urn:x",
}
_PFX = {v: k for k, v in NS.items()}
MIMETYPES = {
    "odt": "application/vnd.oasis.opendocument.text",
    "odp": "application/vnd.oasis.opendocument.presentation",
    "ods": "application/vnd.oasis.opendocument.spreadsheet",
    "odg": "application/vnd.oasis.opendocument.graphics",
    "odf": "application/vnd.oasis.opendocument.formula",
}
BODY = {"odt": "text", "odp": "presentation", "ods": "spreadsheet", "odg": "drawing", "odf": "formula"}


def q(prefix: str, local: str) -> str:
    return "{%s}%s" % (NS[prefix], local)


def node(tag, attrs=None, text="", tail="", kids=None):
    return {"t": tag, "a": [list(x) for x in (attrs or [])], "x": text, "l": tail, "k": list(kids or [])}


def _esc(s: str, attr: bool = False) -> str:
    s = s.replace("&", "&amp;").replace("<", "&lt;").replace(">", "&gt;")
    # keep the characters an XML parser would normalise (CR, and TAB/LF inside attributes) as references
    s = s.replace("\r", "&#13;")
    if attr:
        s = s.replace('"', "&quot;").replace("\n", "&#10;").replace("\t", "&#9;")
    return s


def _qname(clark: str) -> str:
    if clark.startswith("{"):
        uri, local = clark[1:].split("}", 1)
        return _PFX[uri] + ":" + local
    return clark


def serialize(tree: dict, root: bool = True) -> str:
    out = []
    _ser(tree, out, root)
    return "".join(out)


def _ser(n, out, root):
    name = _qname(n["t"])
    out.append("<" + name)
    if root:
        for p, u in NS.items():
            out.append(' xmlns:%s="%s"' % (p, u))
    for k, v in n.get("a", []):
        out.append(' %s="%s"' % (_qname(k), _esc(v, True)))
    kids = n.get("k", [])
    text = n.get("x", "")
    if not kids and not text:
        out.append("/>")
    else:
        out.append(">")
        out.append(_esc(text))
        for c in kids:
            _ser(c, out, False)
        out.append("</" + name + ">")
    if not root:
        out.append(_esc(n.get("l", "")))


def content_doc(fmt: str, body: dict) -> dict:
    """office:document-content / office:body / <body> (body = the office:text / office:presentation … node)"""
    return node(q("office", "document-content"), [(q("office", "version"), "1.2")], kids=[
        node(q("office", "body"), kids=[body])])


def to_etree(tree: dict):
    """the same tree as an xml.etree Element (for calling the walkers directly)"""
    from xml.etree import ElementTree as ET
    e = ET.Element(tree["t"], {k: v for k, v in tree.get("a", [])})
    e.text = tree.get("x", "") or None
    e.tail = tree.get("l", "") or None
    for c in tree.get("k", []):
        e.append(to_etree(c))
    return e


def package(fmt: str, content_xml: str, styles_xml: str | None = None, meta_xml: str | None = None) -> bytes:
    mt = MIMETYPES[fmt]
    buf = io.BytesIO()
    with zipfile.ZipFile(buf, "w") as z:
        zi = zipfile.ZipInfo("mimetype")
        zi.compress_type = zipfile.ZIP_STORED
        z.writestr(zi, mt)
        members = [("content.xml", content_xml)]
        if styles_xml is not None:
            members.append(("styles.xml", styles_xml))
        if meta_xml is not None:
            members.append(("meta.xml", meta_xml))
        man = ['<?xml version="1.0" encoding="UTF-8"?>',
               '<manifest:manifest xmlns:manifest="urn:oasis:names:tc:opendocument:xmlns:manifest:1.0" manifest:version="1.2">',
               '<manifest:file-entry manifest:full-path="/" manifest:media-type="%s"/>' % mt]
        for nm, _ in members:
            man.append('<manifest:file-entry manifest:full-path="%s" manifest:media-type="text/xml"/>' % nm)
        man.append("</manifest:manifest>")
        for nm, data in members:
            z.writestr(zipfile.ZipInfo(nm), ('<?xml version="1.0" encoding="UTF-8"?>\n' + data).encode("utf-8"), zipfile.ZIP_DEFLATED)
        z.writestr(zipfile.ZipInfo("META-INF/manifest.xml"), "\n".join(man).encode("utf-8"), zipfile.ZIP_DEFLATED)
    return buf.getvalue()
