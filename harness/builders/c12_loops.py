"""C12, first half: correspondence of the Lean loop models (S2T/Model/Loops.lean) with the real
functions — result AND iteration count — on structured + malformed inputs."""
from __future__ import annotations

import io
import struct

from builders.c12_trace import Probe, Tracer

EX = "sharepoint2text/parsing/extractors/"
PNG_SIG = b"\x89PNG\r\n\x1a\n"


# ------------------------------------------------------------------ input generators
def rbytes(rng, n, alphabet=None):
    if alphabet:
        return bytes(rng.choice(alphabet) for _ in range(n))
    return bytes(rng.randrange(256) for _ in range(n))


def gen_biff(rng):
    out = b""
    for _ in range(rng.randint(0, 8)):
        rid = rng.choice([0x2F, 0x809, 0x0A, 0x2F00, rng.randrange(65536)]) if rng.random() < 0.9 else 0x2F
        if rng.random() < 0.75:
            rid = rng.choice([0x809, 0x0A, 0x3D, 0x2F00, 0x12F])
        ln = rng.choice([0, 0, 1, 2, 5, 8, 0xFFFF, rng.randint(0, 12)])
        payload = rbytes(rng, min(ln, 12), [0x2F, 0, 1, 0xFF])
        out += struct.pack("<HH", rid, ln) + (payload if ln < 100 else payload[: rng.randint(0, 12)])
    if rng.random() < 0.4:
        out += rbytes(rng, rng.randint(0, 5), [0x2F, 0])
    return out


SOF = [0xC0, 0xC1, 0xC2, 0xC3, 0xC5, 0xC6, 0xC7, 0xC9, 0xCA, 0xCB, 0xCD, 0xCE, 0xCF]


def gen_jpeg(rng):
    out = rng.choice([b"\xff\xd8", b"\xff\xd8", b"\xff\xd8", b"\x00\x00", b""])
    for _ in range(rng.randint(0, 7)):
        r = rng.random()
        if r < 0.15:
            out += b"\xff" * rng.randint(1, 3)
        elif r < 0.3:
            out += rbytes(rng, rng.randint(1, 4), [0, 1, 0xFF, 0xC0, 0xD9])
        else:
            marker = rng.choice(SOF + [0xE0, 0xE1, 0xDB, 0xC4, 0xC8, 0xCC, 0xD9, 0xDA, 0xD8, 0x00, 0xFE])
            ln = rng.choice([0, 1, 2, 3, 4, 8, 11, 17, 0xFFFF, rng.randint(2, 20)])
            body = rbytes(rng, max(0, min(ln, 24) - 2))
            out += bytes([0xFF, marker]) + struct.pack(">H", ln) + body
    if rng.random() < 0.5:
        out += rbytes(rng, rng.randint(0, 11), [0xFF, 0xC0, 0, 8, 0xC2])
    return out


def gen_image_head(rng):
    r = rng.random()
    if r < 0.6:
        return gen_jpeg(rng)
    if r < 0.7:
        return PNG_SIG + rbytes(rng, rng.choice([0, 8, 15, 16, 20]))
    if r < 0.8:
        return rng.choice([b"GIF87a", b"GIF89a", b"GIF88a"]) + rbytes(rng, rng.choice([0, 3, 4, 8]))
    if r < 0.9:
        return b"BM" + rbytes(rng, rng.choice([0, 23, 24, 30]), [0, 1, 0x80, 0xFF, 7])
    return rbytes(rng, rng.randint(0, 12))


def ppt_rec(ver, inst, typ, payload, forged_len=None):
    return struct.pack("<HHI", ((inst & 0xFFF) << 4) | (ver & 0xF), typ, len(payload) if forged_len is None else forged_len) + payload


def gen_ppt(rng, depth=0):
    out = b""
    for _ in range(rng.randint(0, 4 if depth else 6)):
        typ = rng.choice([0x0FF0, 0x0FF0, 0x0FA0, 0x0FA8, 0x03F3, 0x0F9F, 0x03EE, 0xF01D, rng.randrange(65536)])
        inst = rng.choice([0, 0, 0, 1, 0x46A, 0xFFF])
        r = rng.random()
        if r < 0.35 and depth < 3:
            out += ppt_rec(0xF, inst, typ, gen_ppt(rng, depth + 1))
        elif r < 0.45:
            out += ppt_rec(rng.choice([0, 0xF]), inst, typ, b"", forged_len=rng.choice([1, 8, 0xFFFFFFFF, 40]))
        elif r < 0.55:
            out += rbytes(rng, rng.randint(1, 9), [0, 0xF, 0xF0, 0xFF])
        else:
            out += ppt_rec(rng.choice([0, 1, 2]), inst, typ, rbytes(rng, rng.randint(0, 10)))
    return out


BLIP = [0xF01A, 0xF01B, 0xF01C, 0xF01D, 0xF01E, 0xF01F, 0xF029]


def gen_xls_blip(rng):
    out = rbytes(rng, rng.randint(0, 6), [0, 0xF0, 0x1D])
    for _ in range(rng.randint(0, 6)):
        typ = rng.choice(BLIP + [0xF007, 0xF01D, 0x1234])
        inst = rng.choice([0x46A, 0x46B, 0x6E0, 0x6E1, 0])
        body = rbytes(rng, rng.choice([0, 1, 16, 17, 18, 20, 34, 40]))
        if rng.random() < 0.4 and len(body) > 20:
            body = body[:17] + b"\xff\xd8\xff\xe0" + body[21:]
        out += ppt_rec(0, inst, typ, body, forged_len=None if rng.random() < 0.8 else rng.choice([0, len(body) + 1, 0xFFFFFFFF]))
        if rng.random() < 0.3:
            out += rbytes(rng, rng.randint(1, 9), [0, 0xF0, 0x1D, 1])
    while len(out) < 25:      # the function returns early on short streams
        out += b"\x00"
    return out


def gen_dib(rng):
    out = rbytes(rng, rng.randint(0, 10), [0x28, 0, 1])
    for _ in range(rng.randint(0, 4)):
        w = rng.choice([1, 2, 3, 4, -2, 0, 10001, 7])
        h = rng.choice([1, 2, -3, 0, 5])
        planes = rng.choice([1, 1, 1, 0, 2])
        bpp = rng.choice([1, 4, 8, 24, 32, 16, 2, 0])
        comp = rng.choice([0, 0, 3, 5, 6])
        size_image = rng.choice([0, 0, 4, 16, 64, 1 << 30])
        hdr = struct.pack("<IiiHHII", 40, w, h, planes, bpp, comp, size_image) + rbytes(rng, 16)
        out += hdr + rbytes(rng, rng.choice([0, 8, 40, 100, 1100]), [0x28, 0, 0, 7, 200])
        if rng.random() < 0.3:
            out += hdr           # duplicate header (duplicate digest path)
    out += rbytes(rng, rng.randint(0, 44), [0x28, 0, 0, 1])
    return out


def png_chunk(typ, payload, forged_len=None):
    return struct.pack(">I", len(payload) if forged_len is None else forged_len) + typ + payload + b"\0\0\0\0"


def gen_png(rng):
    out = rbytes(rng, rng.randint(0, 5), [0x89, 0x50, 0])
    for _ in range(rng.randint(0, 4)):
        out += PNG_SIG if rng.random() < 0.9 else PNG_SIG[:-1]
        for _ in range(rng.randint(0, 4)):
            typ = rng.choice([b"IHDR", b"IDAT", b"tEXt", b"IEND", b"IENd"])
            payload = rbytes(rng, 13 if typ == b"IHDR" and rng.random() < 0.7 else rng.randint(0, 9))
            if rng.random() < 0.15:
                payload = PNG_SIG + png_chunk(b"IEND", b"")       # a PNG nested in a chunk
            out += png_chunk(typ, payload, forged_len=None if rng.random() < 0.85 else rng.choice([0, 1, 0xFFFFFFFF, 30]))
        if rng.random() < 0.6:
            out += png_chunk(b"IEND", b"")
        if rng.random() < 0.3:
            out = out[: len(out) - rng.randint(1, 6)]
    return out


def png_amplifier(k, m, iend=False):
    """k signatures whose first chunk jumps into ONE shared chain of m chunks (16k + 4 + 12m bytes)"""
    unit = len(PNG_SIG) + 8
    prefix = k * unit + 4
    out = b""
    for j in range(k):
        pos = j * unit + len(PNG_SIG)
        out += PNG_SIG + struct.pack(">I", prefix - 4 - (pos + 8)) + b"jUNK"
    out += b"\0\0\0\0"
    out += png_chunk(b"tEXt", b"") * m
    if iend:
        out += png_chunk(b"IEND", b"")
    return out


def ppt_nest(depth):
    d = b""
    for _ in range(depth):
        d = ppt_rec(0xF, 0, 0x0FF0, d)
    return d


RTF_TOKENS = ["{", "}", "\\", "\\*", "{\\*", "{\\pict", "{\\PICT", "{\\object", "{\\fonttbl", "{\\info", "\\par", "\\page ",
              "\\u", "\\u-", "\\u12?", "\\u-8704?", "\\u9 ", "\\'", "\\'e9", "\\'4", "\\~", "\\_", "\\fs24 ", "\\b0", "\\cf1-2",
              "a", "Z", " ", "1", "-", "?", "\n", "\r", "x y", "\\{", "\\}", "\\\\", "*", "'", "u"]


def gen_rtf(rng):
    return "".join(rng.choice(RTF_TOKENS) for _ in range(rng.randint(0, 14)))


def sz_number(n):
    from builders.c12_sevenzip import number
    return number(n)


def gen_sz_props(rng):
    """archive-properties section: (id, size, bytes)* END"""
    out = b""
    for _ in range(rng.randint(0, 4)):
        size = rng.choice([0, 1, 3, 200, 1 << 40, (1 << 63), (1 << 64) - 1])
        out += bytes([rng.choice([1, 2, 0x19, 0xFF])]) + sz_number(size) + rbytes(rng, min(size, rng.randint(0, 5)))
    if rng.random() < 0.7:
        out += b"\x00"
    return out + rbytes(rng, rng.randint(0, 2))


def gen_sz_files_info(rng):
    n = rng.choice([0, 1, 2, 3, 5, 9, 17])
    if rng.random() < 0.15:
        n = rng.choice([40, 200, 1000])
    out = sz_number(n)
    for _ in range(rng.randint(0, 4)):
        pid = rng.choice([0x0E, 0x0F, 0x11, 0x15, 0x14, 0x19])
        if pid == 0x0E:
            blob = rbytes(rng, (n + 7) // 8 if rng.random() < 0.8 else max(0, (n + 7) // 8 - 1))
        elif pid == 0x0F:
            blob = rbytes(rng, rng.choice([0, 0, 1, (n + 7) // 8]))
        elif pid == 0x11:
            k = n if rng.random() < 0.8 else max(0, n - 1)
            blob = bytes([0 if rng.random() < 0.9 else 1]) + b"".join(
                "".join(rng.choice(["a", "b", ".", "é", "\ud800", "/", "\U0001F600"]) for _ in range(rng.randint(0, 3))).encode("utf-16-le", "surrogatepass") + b"\0\0"
                for _ in range(k))
            if rng.random() < 0.1:
                blob = blob[:-1]
        elif pid == 0x15:
            if rng.random() < 0.5:
                blob = b"\x01" + rbytes(rng, 4 * n if rng.random() < 0.8 else max(0, 4 * n - 2))
            else:
                vec = rbytes(rng, (n + 7) // 8)
                bits = sum(1 for j in range(n) if vec[j // 8] & (0x80 >> (j % 8)))
                blob = b"\x00" + vec + rbytes(rng, 4 * bits if rng.random() < 0.8 else max(0, 4 * bits - 1))
        else:
            blob = rbytes(rng, rng.randint(0, 4))
        size = len(blob) if rng.random() < 0.8 else rng.choice([0, len(blob) + 3, max(0, len(blob) - 2), 1 << 63, (1 << 64) - 1])
        out += bytes([pid]) + sz_number(size) + blob
    if rng.random() < 0.8:
        out += b"\x00"
    return out + rbytes(rng, rng.randint(0, 2), [0, 0x11, 1])


# ------------------------------------------------------------------ fake OLE container
class _FakeStream:
    def __init__(self, data):
        self.data = data

    def read(self):
        return self.data


class FakeOle:
    def __init__(self, streams):
        self.streams = streams

    def __enter__(self):
        return self

    def __exit__(self, *a):
        return False

    def exists(self, name):
        return name in self.streams

    def openstream(self, name):
        return _FakeStream(self.streams[name])


class _FakeOlefileModule:
    def __init__(self, data):
        self.data = data

    def isOleFile(self, f):
        return True

    def OleFileIO(self, f):
        return FakeOle({"Workbook": self.data})


# ------------------------------------------------------------------ probes (built lazily: source may be mutated)
def probes():
    P = {}
    P["xls_filepass"] = Probe(EX + "util/encryption.py", "is_xls_encrypted", "offset + 4 <= data_len")
    P["jpeg_dims"] = Probe(EX + "util/image_utils.py", "get_jpeg_dimensions", "offset < len(data) - 9")
    for v in ("docx", "pptx", "xlsx"):
        P["pixel_" + v] = Probe(EX + f"ms_modern/{v}_extractor.py", "_get_image_pixel_dimensions", "i + 4 <= size")
    P["ppt_iter"] = Probe(EX + "ms_legacy/ppt_extractor.py", "_iter_records", "offset <= data_len - min_size")
    P["xls_blip"] = Probe(EX + "ms_legacy/xls_extractor.py", "_extract_images_from_workbook",
                          "offset <= data_len - _RECORD_HEADER_SIZE", var="offset")
    P["dib"] = Probe(EX + "ms_legacy/doc_extractor.py", "_DocReader._extract_images_from_word_document", "i + 40 <= data_len")
    P["png_outer"] = Probe(EX + "ms_legacy/doc_extractor.py", "_DocReader._extract_png_images_from_bytes", "True")
    P["png_inner"] = Probe(EX + "ms_legacy/doc_extractor.py", "_DocReader._extract_png_images_from_bytes", "pos + 12 <= len(data)")
    P["rtf_outer"] = Probe(EX + "ms_legacy/rtf_extractor.py", "_RtfParser._remove_ignorable_groups", "i < n", 0)
    P["rtf_inner"] = Probe(EX + "ms_legacy/rtf_extractor.py", "_RtfParser._remove_ignorable_groups", "i < n", 1)
    P["rtf_walk"] = Probe(EX + "ms_legacy/rtf_extractor.py", "_RtfParser._strip_rtf_full_with_pages", "i < n", 0, var="i")
    P["gf_mul"] = Probe(EX + "pdf/_pypdf_aes_fallback.py", "_gf_mul", "b")
    P["sz_props"] = Probe(EX + "util/sevenzip.py", "SevenZipReader._parse_main_header", "True")
    P["sz_files_outer"] = Probe(EX + "util/sevenzip.py", "SevenZipReader._parse_files_info", "True", 0)
    P["sz_files_inner"] = Probe(EX + "util/sevenzip.py", "SevenZipReader._parse_files_info", "True", 1)
    P["pdf_row"] = Probe(EX + "pdf/pdf_extractor.py", "_TableExtractor._extract_row", "idx >= 0 and self.is_numeric_token(tokens[idx])")
    P["pdf_norm"] = Probe(EX + "pdf/pdf_extractor.py", "_TableExtractor._normalize_values", "len(merged) > expected_count")
    P["pdf_extract"] = Probe(EX + "pdf/pdf_extractor.py", "_TableExtractor._extract", "idx < len(self.lines)", var="idx")
    return P


PDF_TOKENS = ["12", "3", "4,500", "(7)", "-8%", "Revenue", "Total", "net", "a1", "2b", "1", "", "12/31/2023", "2023", "2022",
              "December", "31,", "$", "%", "Note", "9", "10.5", "—", "USD", "in", "millions"]


def gen_pdf_line(rng):
    return " ".join(rng.choice(PDF_TOKENS) for _ in range(rng.randint(0, 7)))


def impl_pdf_row(P, line):
    from sharepoint2text.parsing.extractors.pdf.pdf_extractor import _TableExtractor
    te = _TableExtractor([])
    with Tracer([P["pdf_row"]]):
        label, values = te._extract_row(line)
    flags = [bool(_TableExtractor.is_numeric_token(t)) for t in reversed(line.split())]
    return {"count": len(values), "steps": P["pdf_row"].count}, flags


def impl_pdf_norm(P, values, expected):
    from sharepoint2text.parsing.extractors.pdf.pdf_extractor import _TableExtractor
    with Tracer([P["pdf_norm"]]):
        merged = _TableExtractor._normalize_values(list(values), expected)
    return {"merged": list(merged), "steps": P["pdf_norm"].count}


def impl_pdf_extract_monotone(P, lines):
    from sharepoint2text.parsing.extractors.pdf.pdf_extractor import _TableExtractor
    with Tracer([P["pdf_extract"]]):
        try:
            _TableExtractor(lines)._extract()
        except Exception:
            pass
    v = P["pdf_extract"].values
    return all(b > a for a, b in zip(v, v[1:])), v


def nats(b):
    return list(b)


# ------------------------------------------------------------------ implementations (real code) -> canonical dict
def impl_xls_filepass(P, d):
    from sharepoint2text.parsing.extractors.util import encryption
    saved = encryption.olefile
    encryption.olefile = _FakeOlefileModule(d)
    try:
        with Tracer([P["xls_filepass"]]):
            found = encryption.is_xls_encrypted(io.BytesIO(b"x"))
    finally:
        encryption.olefile = saved
    return {"found": bool(found), "steps": P["xls_filepass"].count}


def impl_jpeg_dims(P, d):
    from sharepoint2text.parsing.extractors.util import image_utils
    with Tracer([P["jpeg_dims"]]):
        w, h = image_utils.get_jpeg_dimensions(d)
    return {"dims": None if w is None else [w, h], "steps": P["jpeg_dims"].count}


def impl_pixel(P, variant, d):
    import importlib
    mod = importlib.import_module(f"sharepoint2text.parsing.extractors.ms_modern.{variant}_extractor")
    with Tracer([P["pixel_" + variant]]):
        w, h = mod._get_image_pixel_dimensions(d)
    return {"w": w or 0, "h": h or 0, "steps": P["pixel_" + variant].count}


def impl_ppt_iter(P, d):
    from sharepoint2text.parsing.extractors.ms_legacy import ppt_extractor as M
    with Tracer([P["ppt_iter"]]):
        recs = list(M._iter_records(d))
    ok = all(r.data == d[r.offset + 8: r.end_offset] for r in recs)
    return {"recs": [[r.rec_type, r.rec_instance, 1 if r.is_container else 0, r.offset, r.end_offset] for r in recs],
            "steps": P["ppt_iter"].count, "copied": sum(len(r.data) for r in recs)}, ok


def impl_slide_list(P, d):
    from sharepoint2text.parsing.extractors.ms_legacy import ppt_extractor as M
    copied = [0]
    orig = M.Record

    def counting(*a, **k):
        r = orig(*a, **k)
        copied[0] += len(r.data)
        return r
    M.Record = counting
    try:
        with Tracer([P["ppt_iter"]]):
            M._extract_slide_list_texts(d)
    finally:
        M.Record = orig
    return {"steps": P["ppt_iter"].count, "copied": copied[0]}


def impl_xls_blip(P, d):
    from sharepoint2text.parsing.extractors.ms_legacy import xls_extractor as M
    saved = M.olefile
    M.olefile = _FakeOlefileModule(d)
    try:
        with Tracer([P["xls_blip"]]):
            M._extract_images_from_workbook(io.BytesIO(b"x"))
    finally:
        M.olefile = saved
    offs = P["xls_blip"].values
    return {"offsets": offs, "steps": P["xls_blip"].count}


def impl_dib(P, d):
    from sharepoint2text.parsing.extractors.ms_legacy.doc_extractor import _DocReader
    lens = []
    orig = _DocReader._build_bmp_from_dib

    def spy(dib_data, header_size, color_table_size):
        lens.append(len(dib_data))
        return orig(dib_data, header_size, color_table_size)
    _DocReader._build_bmp_from_dib = staticmethod(spy)
    try:
        with Tracer([P["dib"]]):
            _DocReader._extract_images_from_word_document(d)
    finally:
        _DocReader._build_bmp_from_dib = staticmethod(orig)
    return {"lens": lens, "steps": P["dib"].count}


def impl_png(P, d):
    from sharepoint2text.parsing.extractors.ms_legacy.doc_extractor import _DocReader
    with Tracer([P["png_outer"], P["png_inner"]]):
        imgs = _DocReader._extract_png_images_from_bytes(d)
    return {"data": [bytes(i.data) for i in imgs], "outer": P["png_outer"].count, "inner": P["png_inner"].count,
            "dims": [[i.width, i.height] for i in imgs]}


def impl_rtf_ignorable(P, text):
    from sharepoint2text.parsing.extractors.ms_legacy.rtf_extractor import _RtfParser
    with Tracer([P["rtf_outer"], P["rtf_inner"]]):
        out = _RtfParser(b"")._remove_ignorable_groups(text)
    return {"out": [ord(c) for c in out], "outer": P["rtf_outer"].count, "inner": P["rtf_inner"].count}


def impl_rtf_walk(P, text):
    from sharepoint2text.parsing.extractors.ms_legacy.rtf_extractor import _RtfParser
    with Tracer([P["rtf_walk"]]):
        _RtfParser(b"")._strip_rtf_full_with_pages(text)
    return {"traj": list(P["rtf_walk"].values)}


def _reader(data):
    from sharepoint2text.parsing.extractors.util import sevenzip
    r = object.__new__(sevenzip.SevenZipReader)
    r._archive_file = io.BytesIO(data)
    r._stream = io.BytesIO(data)
    r._files, r._folders, r._pack_positions, r._pack_sizes, r._file_sizes = [], [], [], [], []
    r._header_offset = 0
    r._folder_to_files = {}
    return r


def _sz_err(e):
    from sharepoint2text.parsing.extractors.util import sevenzip
    if isinstance(e, sevenzip.Bad7zFile):
        return "Bad7zFile"
    return type(e).__name__


class _Stop(Exception):
    pass


def _stop():
    raise _Stop()


def impl_sz_props(P, d):
    """run the real `_parse_main_header` on 0x02 + d; the parsers that may follow the archive-properties
    section are cut off, so only the `while True` section runs.  -> steps and the error class (if any)"""
    r = _reader(b"\x02" + d)
    r._parse_streams_info = _stop
    r._parse_files_info = _stop
    err = None
    with Tracer([P["sz_props"]]):
        try:
            r._parse_main_header()
        except _Stop:
            pass
        except Exception as e:
            err = _sz_err(e)
    return {"steps": P["sz_props"].count, "err": err}


def _utf16_units(name):
    b = name.encode("utf-16-le", "surrogatepass")
    return [b[i] | (b[i + 1] << 8) for i in range(0, len(b), 2)]


def impl_sz_files_info(P, d):
    r = _reader(d)
    got = {}

    def fake_build(num_files, empty_streams, names, attributes, *rest):
        got.update(num=num_files, names=list(names), lens=(len(empty_streams), len(names), len(attributes)))
    r._build_file_list = fake_build
    try:
        with Tracer([P["sz_files_outer"], P["sz_files_inner"]]):
            r._parse_files_info()
    except Exception as e:
        return {"err": _sz_err(e)}
    return {"num": got["num"], "names": [_utf16_units(nm) for nm in got["names"]], "pos": r._stream.tell(),
            "steps": P["sz_files_outer"].count, "name_steps": P["sz_files_inner"].count, "lens": list(got["lens"])}
