"""C06 generators for the two input classes the history / input-buffer checks need.

1. declare/use pairs.  A document can declare, for itself, what a key means (an image extension's content
   type in [Content_Types].xml / the ODF manifest / the OPF manifest, a charset or code page, a style id's
   name).  `pairs(rng, n)` yields (tag, A, B) where A *declares* a freshly invented key -> value and B *uses*
   the same key without declaring it.  Whatever B yields must not depend on whether A was extracted before.
   Keys and values are random per pair, so two declaring documents never agree by accident.

2. framing variants.  Many formats are accepted with bytes in front of the magic (PDF: header anywhere in the
   first 1024 bytes; ZIP containers: self-extractor stub; text formats: BOM / blank lines) or after the end.
   `framings(rng, name, data)` yields (kind, bytes) candidates; the caller keeps those the extractor accepts.
"""
from __future__ import annotations

import io
import re
import zipfile

from builders import c14docs

EXT_ALPHABET = "bcdfghjklmnpqrstvwxz"


def _word(rng, n):
    return "".join(rng.choice(EXT_ALPHABET) for _ in range(n))


def _rezip(data: bytes, replace: dict, drop=()) -> bytes:
    """copy a zip, replacing / adding / dropping members (order kept, new members appended)"""
    src = zipfile.ZipFile(io.BytesIO(data))
    out = io.BytesIO()
    with zipfile.ZipFile(out, "w", zipfile.ZIP_DEFLATED) as z:
        seen = set()
        for info in src.infolist():
            if info.filename in drop:
                continue
            seen.add(info.filename)
            body = replace.get(info.filename, None)
            comp = zipfile.ZIP_STORED if info.filename == "mimetype" else zipfile.ZIP_DEFLATED
            z.writestr(zipfile.ZipInfo(info.filename), src.read(info.filename) if body is None else body, compress_type=comp)
        for n, body in replace.items():
            if n not in seen:
                z.writestr(n, body)
    return out.getvalue()


CT_NS = "http://schemas.openxmlformats.org/package/2006/content-types"
MAIN_CT = {"docx": ("/word/document.xml", "application/vnd.openxmlformats-officedocument.wordprocessingml.document.main+xml"),
           "pptx": ("/ppt/presentation.xml", "application/vnd.openxmlformats-officedocument.presentationml.presentation.main+xml"),
           "xlsx": ("/xl/workbook.xml", "application/vnd.openxmlformats-officedocument.spreadsheetml.sheet.main+xml")}


def _content_types(fmt, defaults, overrides):
    main = MAIN_CT[fmt]
    return ('<?xml version="1.0" encoding="UTF-8" standalone="yes"?>' f'<Types xmlns="{CT_NS}">'
            '<Default Extension="rels" ContentType="application/vnd.openxmlformats-package.relationships+xml"/>'
            '<Default Extension="xml" ContentType="application/xml"/>'
            + "".join(f'<Default Extension="{e}" ContentType="{c}"/>' for e, c in defaults)
            + f'<Override PartName="{main[0]}" ContentType="{main[1]}"/>'
            + "".join(f'<Override PartName="{p}" ContentType="{c}"/>' for p, c in overrides) + "</Types>")


def _image(rng):
    k = rng.choice(["png", "jpeg", "gif"])
    m = {"kind": k, "w": rng.randint(1, 40), "h": rng.randint(1, 40), "tail": "00"}
    return m


def _ooxml_pair(rng, fmt):
    ext = _word(rng, rng.randint(3, 5))
    ctype = "image/" + rng.choice(["jpeg", "png", "x-" + _word(rng, 4), "vnd." + _word(rng, 5)])
    root = {"docx": "word", "pptx": "ppt", "xlsx": "xl"}[fmt]
    docs = []
    for who in "AB":
        part = f"{root}/media/image1.{ext.upper() if rng.random() < 0.2 else ext}"
        ref = ("media/" if fmt == "docx" else "../media/") + part.rsplit("/", 1)[1]
        a = {"t": "embed", "part": part, "ref": ref}
        if fmt == "xlsx":
            a.update(anchor="two", cx=952500, cy=476250)
        spec = {"fmt": fmt, "media": {part: _image(rng)}, "units": [[a]], "opts": {"rels_order": [0]} if fmt == "docx" else {}}
        raw = c14docs.build(spec)
        if who == "A":
            ct = _content_types(fmt, [(ext, ctype)], [])
        else:
            ct = _content_types(fmt, [], [("/" + part, ctype)] if rng.random() < 0.5 else [])
        docs.append(_rezip(raw, {"[Content_Types].xml": ct}))
    return (f"{fmt}.content-type-default:{ext}->{ctype}", (f"declA.{fmt}", docs[0]), (f"useB.{fmt}", docs[1]))


def _odf_pair(rng, fmt):
    ext = _word(rng, rng.randint(3, 5))
    ctype = "image/" + rng.choice(["jpeg", "png", "x-" + _word(rng, 4)])
    docs = []
    for who in "AB":
        part = f"Pictures/image1.{ext}"
        spec = {"fmt": fmt, "media": {part: _image(rng)}, "units": [[{"t": "embed", "part": part, "ref": part, "fw": "2cm", "fh": "1cm"}]], "opts": {}}
        raw = c14docs.build(spec)
        z = zipfile.ZipFile(io.BytesIO(raw))
        man = z.read("META-INF/manifest.xml").decode("utf-8") if "META-INF/manifest.xml" in z.namelist() else None
        if man is None:
            man = ('<?xml version="1.0" encoding="UTF-8"?><manifest:manifest xmlns:manifest="urn:oasis:names:tc:opendocument:xmlns:manifest:1.0">'
                   '<manifest:file-entry manifest:full-path="/" manifest:media-type="application/vnd.oasis.opendocument.text"/></manifest:manifest>')
        man = re.sub(r'<manifest:file-entry[^>]*full-path="' + re.escape(part) + r'"[^>]*/>', "", man)
        if who == "A":
            man = man.replace("</manifest:manifest>", f'<manifest:file-entry manifest:full-path="{part}" manifest:media-type="{ctype}"/></manifest:manifest>')
        docs.append(_rezip(raw, {"META-INF/manifest.xml": man}))
    return (f"{fmt}.manifest-media-type:{ext}->{ctype}", (f"declA.{fmt}", docs[0]), (f"useB.{fmt}", docs[1]))


def _epub_pair(rng):
    ext = _word(rng, rng.randint(3, 5))
    ctype = "image/" + rng.choice(["jpeg", "png", "x-" + _word(rng, 4)])
    docs = []
    for who in "AB":
        part = f"OEBPS/images/image1.{ext}"
        spec = {"fmt": "epub", "media": {part: _image(rng)}, "units": [[{"t": "embed", "part": part, "ref": f"images/image1.{ext}"}]], "opts": {"opf_dir": "OEBPS/"}}
        raw = c14docs.build(spec)
        z = zipfile.ZipFile(io.BytesIO(raw))
        opf_name = next(n for n in z.namelist() if n.endswith(".opf"))
        opf = z.read(opf_name).decode("utf-8")

        def fix(m):
            tag = m.group(0)
            if f"image1.{ext}" not in tag:
                return tag
            if who == "A":
                return re.sub(r'media-type="[^"]*"', f'media-type="{ctype}"', tag)
            return re.sub(r'\s*media-type="[^"]*"', ' media-type=""' if rng.random() < 0.5 else "", tag)
        opf = re.sub(r"<item\b[^>]*>", fix, opf)
        docs.append(_rezip(raw, {opf_name: opf}))
    return (f"epub.opf-media-type:{ext}->{ctype}", ("declA.epub", docs[0]), ("useB.epub", docs[1]))


_CYR = "Привет мир, съешь ещё этих булок"


def _text_pairs(rng):
    """charset / code page declared by A, the same raw bytes without the declaration in B"""
    enc, label, cpg = rng.choice([("cp1251", "windows-1251", 1251), ("cp1253", "windows-1253", 1253), ("cp1250", "windows-1250", 1250)])
    sample = {"cp1251": _CYR, "cp1253": "Καλημέρα κόσμε, τι κάνεις", "cp1250": "Příliš žluťoučký kůň úpěl ďábelské ódy"}[enc]
    words = sample.split()
    rng.shuffle(words)
    text = " ".join(words)
    raw = text.encode(enc)
    out = []
    html_a = b'<html><head><meta charset="' + label.encode() + b'"><title>t</title></head><body><p>' + raw + b"</p></body></html>"
    html_b = b"<html><head><title>t</title></head><body><p>" + raw + b"</p></body></html>"
    out.append((f"html.meta-charset:{label}", ("declA.html", html_a), ("useB.html", html_b)))
    esc = "".join("\\'%02x" % b if b >= 0x80 else chr(b) for b in raw).encode()
    rtf_a = b"{\\rtf1\\ansi\\ansicpg%d\\deff0{\\fonttbl{\\f0\\fcharset%d Arial;}}\\f0 " % (cpg, {1251: 204, 1253: 161, 1250: 238}[cpg]) + esc + b"\\par}"
    rtf_b = b"{\\rtf1\\deff0 " + esc + b"\\par}"
    out.append((f"rtf.ansicpg:{cpg}", ("declA.rtf", rtf_a), ("useB.rtf", rtf_b)))
    hdr = b"From: a@example.org\r\nTo: b@example.org\r\nSubject: s\r\nMIME-Version: 1.0\r\n"
    eml_a = hdr + b"Content-Type: text/plain; charset=" + label.encode() + b"\r\nContent-Transfer-Encoding: 8bit\r\n\r\n" + raw + b"\r\n"
    eml_b = hdr + b"Content-Type: text/plain\r\nContent-Transfer-Encoding: 8bit\r\n\r\n" + raw + b"\r\n"
    out.append((f"eml.charset:{label}", ("declA.eml", eml_a), ("useB.eml", eml_b)))
    txt_a = text.encode("utf-16")       # BOM-declared encoding
    out.append((f"txt.bom:{enc}", ("declA.txt", txt_a), ("useB.txt", raw)))
    return out


def _docx_style_pair(rng):
    """A maps a style id to a display name in styles.xml; B uses the same style id without a styles part"""
    from builders import mini
    sid = _word(rng, 6)
    name = "Style " + _word(rng, 5).title()
    a = mini.docx([(sid, "paragraph in A"), (None, "plain")])
    styles = ('<?xml version="1.0" encoding="UTF-8"?><w:styles xmlns:w="http://schemas.openxmlformats.org/wordprocessingml/2006/main">'
              f'<w:style w:type="paragraph" w:styleId="{sid}"><w:name w:val="{name}"/></w:style></w:styles>')
    a = _rezip(a, {"word/styles.xml": styles})
    b = mini.docx([(sid, "paragraph in B"), (None, "plain")])
    return (f"docx.style-name:{sid}->{name}", ("declA.docx", a), ("useB.docx", b))


def pairs(rng, n):
    """n rounds over all pair builders: [(tag, (nameA, bytesA), (nameB, bytesB))]"""
    out = []
    for _ in range(n):
        for fmt in ("docx", "pptx", "xlsx"):
            out.append(_ooxml_pair(rng, fmt))
        for fmt in ("odt", "odp", "ods"):
            out.append(_odf_pair(rng, fmt))
        out.append(_epub_pair(rng))
        out.append(_docx_style_pair(rng))
        out += _text_pairs(rng)
    return out


# ----------------------------------------------------------------------------- framing variants
BOM = b"\xef\xbb\xbf"


def framings(rng, name, data):
    """(kind, bytes): the same document with bytes in front of / behind it.  Lengths cover the boundaries of the
    known tolerance windows (PDF: %PDF- within the first 1024 bytes)."""
    junk = bytes(rng.randrange(256) for _ in range(rng.randint(1, 40))).replace(b"%", b"#").replace(b"P", b"p")
    pre = [("bom", BOM), ("crlf", b"\r\n"), ("bom-crlf", BOM + b"\r\n"), ("lf3", b"\n\n\n"), ("sp", b" "), ("nul", b"\x00"),
           ("junk", junk), ("line", b"2f4\r\n"), ("pad1019", b"\n" * 1019), ("pad1024", b" " * 1024), ("pad%d" % rng.randint(2, 1018), b"\n" * rng.randint(2, 1018))]
    post = [("tail-lf", b"\n"), ("tail-crlf", b"\r\n\r\n"), ("tail-nul", b"\x00" * 7), ("tail-junk", junk), ("tail-ctrlz", b"\x1a")]
    for k, p in pre:
        yield "pre-" + k, p + data
    for k, p in post:
        yield k, data + p
    k, p = rng.choice(pre)
    k2, p2 = rng.choice(post)
    yield f"pre-{k}+{k2}", p + data + p2
