"""Minimal 7z writer for the C12 checks (reference layout: 7-Zip 7zFormat.txt).

One folder per entry of `folders`; a folder has ONE coder (COPY / LZMA / LZMA2) or a coder CHAIN
("chain": [coder 0, coder 1, ...] — coder 0 yields the folder's data, the last coder reads the pack stream,
bind pairs in-stream i <- out-stream i+1: what 7-Zip writes with -mf=BCJ / -mf=Delta is [BCJ, LZMA2] /
[DELTA, LZMA2]) and holds one or more files (solid).  Filters (BCJ x86, Delta, ARM, ...) are written as the
identity: exact for payloads without branch opcodes (the payloads here are ASCII text), and the library passes
BCJ through / refuses the others anyway.  Pack streams are laid out consecutively from offset 32.
Sizes written in the header can be forged independently of the data (declared_* arguments).
"""
from __future__ import annotations

import lzma
import struct
import zlib

COPY, LZMA, LZMA2 = b"\x00", b"\x03\x01\x01", b"\x21"
BCJ, DELTA, ARM, PPC, SPARC = b"\x03\x03\x01\x03", b"\x03", b"\x03\x03\x05\x01", b"\x03\x03\x02\x05", b"\x03\x03\x08\x05"
FILTERS = (BCJ, DELTA, ARM, PPC, SPARC)
CODER_NAMES = {COPY: "copy", LZMA: "lzma", LZMA2: "lzma2", BCJ: "bcj", DELTA: "delta", ARM: "arm", PPC: "ppc", SPARC: "sparc"}
CODER_BY_NAME = {v: k for k, v in CODER_NAMES.items()}


def encode_stage(m: bytes, data: bytes):
    """(properties, encoded data) of one coder"""
    if m == LZMA:
        return lzma_raw(data)
    if m == LZMA2:
        return lzma2_raw(data)
    if m == DELTA:
        return b"\x00", data            # distance 1; written as the identity (see module docstring)
    return None, data


def number(n: int) -> bytes:
    """7z variable-length number."""
    if n < 0x80:
        return bytes([n])
    for extra in range(1, 8):
        if n < (1 << (7 * (8 - extra) + 0)) and n < (1 << (8 * extra + (7 - extra))):
            first_mask = (0xFF << (8 - extra)) & 0xFF
            hi = n >> (8 * extra)
            return bytes([first_mask | hi]) + (n & ((1 << (8 * extra)) - 1)).to_bytes(extra, "little")
    return b"\xff" + n.to_bytes(8, "little")


def lzma_raw(data: bytes):
    """(properties, stream) for the 7z LZMA coder: FORMAT_ALONE minus its 13-byte header."""
    alone = lzma.compress(data, format=lzma.FORMAT_ALONE, preset=6)
    return alone[:5], alone[13:]


def lzma2_raw(data: bytes, dict_size=1 << 20):
    filt = [{"id": lzma.FILTER_LZMA2, "dict_size": dict_size}]
    # properties byte for dict_size = 2^(k): prop = 2*(k-12)+... ; 1<<20 -> 16 ((2|0) << (16//2+11) = 2<<19)
    assert dict_size == 1 << 20
    return bytes([16]), lzma.compress(data, format=lzma.FORMAT_RAW, filters=filt)


def build(folders, declared_file_sizes=None, num_files_override=None, names_override=None,
          with_names=True, empty_files=()):
    """folders: list of {"method": COPY|LZMA|LZMA2, "files": [(name, bytes), ...], optional
    "declared_unpack": int}.  Returns the archive bytes."""
    packs, coders, unpack_sizes, files = [], [], [], []
    for f in folders:
        raw = b"".join(d for _, d in f["files"])
        chain = list(f["chain"]) if f.get("chain") else [f.get("method", COPY)]
        stage, cs, sizes = raw, [], []
        for m in chain:                      # encoding applies coder 0 first; decoding runs the chain backwards
            sizes.append(len(stage))
            props, stage = encode_stage(m, stage)
            cs.append((m, props))
        packs.append(stage)
        coders.append(cs)
        if "declared_unpack" in f:
            sizes = [f["declared_unpack"]] * len(chain)
        unpack_sizes.append(sizes)
        files.append(f["files"])
    h = bytearray()
    h += b"\x01"                                   # Header
    h += b"\x04"                                   # MainStreamsInfo
    h += b"\x06" + number(0) + number(len(packs))  # PackInfo
    h += b"\x09" + b"".join(number(len(p)) for p in packs) + b"\x00"
    h += b"\x07\x0b" + number(len(folders)) + b"\x00"   # UnpackInfo / Folder, not external
    for cs in coders:
        h += number(len(cs))
        for m, props in cs:
            flags = len(m) | (0x20 if props is not None else 0)
            h += bytes([flags]) + m
            if props is not None:
                h += number(len(props)) + props
        for i in range(len(cs) - 1):                # bind pairs: in-stream of coder i <- out-stream of coder i + 1
            h += number(i) + number(i + 1)
    h += b"\x0c" + b"".join(number(u) for us in unpack_sizes for u in us) + b"\x00"
    h += b"\x08\x0d" + b"".join(number(len(fs)) for fs in files)   # SubStreamsInfo
    h += b"\x09"
    k = 0
    flat = [x for fs in files for x in fs]
    for fs in files:
        for (nm, d) in fs[:-1]:
            sz = len(d) if declared_file_sizes is None or declared_file_sizes[k] is None else declared_file_sizes[k]
            h += number(sz)
            k += 1
        k += 1
    h += b"\x00\x00"                                # end substreams, end streams info
    names = names_override if names_override is not None else [nm for nm, _ in flat] + list(empty_files)
    nfiles = num_files_override if num_files_override is not None else len(names)
    h += b"\x05" + number(nfiles)
    if empty_files:
        # entries without a data stream come last: EmptyStream marks them, EmptyFile says they are files, not directories
        def bits(flags):
            out = bytearray((len(flags) + 7) // 8)
            for i, f in enumerate(flags):
                if f:
                    out[i // 8] |= 0x80 >> (i % 8)
            return bytes(out)
        es = bits([False] * len(flat) + [True] * len(empty_files))
        ef = bits([True] * len(empty_files))
        h += b"\x0e" + number(len(es)) + es + b"\x0f" + number(len(ef)) + ef
    if with_names:
        blob = b"\x00" + b"".join(n.encode("utf-16-le") + b"\x00\x00" for n in names)
        h += b"\x11" + number(len(blob)) + blob
    h += b"\x00\x00"                                # end files info, end header
    body = b"".join(packs)
    start = struct.pack("<QQI", len(body), len(h), zlib.crc32(bytes(h)) & 0xFFFFFFFF)
    return b"7z\xbc\xaf\x27\x1c\x00\x04" + struct.pack("<I", zlib.crc32(start) & 0xFFFFFFFF) + start + body + bytes(h)
