"""Loop probes for C12: locate a `while` statement of the real source by (file, function, test) —
the same key the translator emits into S2T/Gen/Loops.lean — and count how often its body starts
(sys.settrace 'line' events on the first line of the body), optionally sampling a local variable."""
from __future__ import annotations

import ast
import os
import sys

REPO = os.environ.get("S2T_REPO", "/repo")


class Probe:
    def __init__(self, rel: str, qual: str, test_src: str, occurrence: int = 0, var: str | None = None):
        self.rel, self.qual, self.test_src, self.var = rel, qual, test_src, var
        path = os.path.join(REPO, rel)
        with open(path, encoding="utf-8") as fh:
            tree = ast.parse(fh.read())
        node = tree
        for part in qual.split("."):
            for ch in ast.walk(node):
                if isinstance(ch, (ast.FunctionDef, ast.ClassDef)) and ch.name == part:
                    node = ch
                    break
            else:
                raise KeyError(f"{rel}: no {qual}")
        loops = [n for n in ast.walk(node) if isinstance(n, ast.While) and ast.unparse(n.test) == test_src]
        loops.sort(key=lambda n: n.lineno)
        if len(loops) <= occurrence:
            raise KeyError(f"{rel}:{qual}: no `while {test_src}` #{occurrence}")
        self.filename = os.path.realpath(path)
        self.funcname = qual.split(".")[-1]
        self.line = loops[occurrence].body[0].lineno
        self.count = 0
        self.values: list = []


class StepLimit(BaseException):
    """a probed loop ran more iterations than the cap (BaseException: library `except Exception` must not swallow it)"""


class Tracer:
    """with Tracer([p1, p2]): call_real_function()  -> p.count / p.values"""

    def __init__(self, probes, cap: int = 300000):
        self.probes = probes
        self.cap = cap
        self.by_code: dict = {}
        for p in probes:
            p.count = 0
            p.values = []
            self.by_code.setdefault((p.filename, p.funcname), {})[p.line] = p

    def _global(self, frame, event, arg):
        co = frame.f_code
        if co.co_name in self._names:
            key = (os.path.realpath(co.co_filename), co.co_name)
            lines = self.by_code.get(key)
            if lines is not None:
                def local(frame, event, arg, lines=lines, cap=self.cap):
                    if event == "line":
                        p = lines.get(frame.f_lineno)
                        if p is not None:
                            p.count += 1
                            if p.count > cap:
                                raise StepLimit(f"{p.qual}: `while {p.test_src}` exceeded {cap} iterations")
                            if p.var is not None:
                                p.values.append(frame.f_locals.get(p.var))
                    return local
                return local
        return None

    def __enter__(self):
        self._names = {k[1] for k in self.by_code}
        self._old = sys.gettrace()
        sys.settrace(self._global)
        return self

    def __exit__(self, *a):
        sys.settrace(self._old)
        return False
