"""C06 — two families of generated inputs that make a dependence on anything but (bytes, path) manifest.

1. `archives(rng)`  SCHEDULE family: containers with MANY members (graded member counts around every power of two up to
   33, in ZIP / TAR / TAR.GZ), the members of mixed formats and of strongly different cost (big first, tiny last; equal
   sizes; tiny first, big last).  If per-member work is ever spread over threads / processes and collected in
   completion order, the order of the results of such an archive changes from run to run — the repeat check extracts
   these several times under different interpreter switch intervals (harness/props/c06.py `_schedule_repeat`).

2. `fault_docs()` / `probe_docs()`  FAULT-POINT family: (document that makes an extraction FAIL half-way) followed by
   (document whose outcome depends on an interpreter-wide setting).  An extraction that temporarily changes such a
   setting and does not put it back on the error path leaves it behind only when it fails, so the documents before the
   probe must include failing ones, with the failure at graded depths of the work (markup nested 150 … 40000 deep, in every
   recursive walker we can reach: ODF inline spans / HTML containers / RTF groups / nested MIME parts).
   The probes are the same shapes at graded depths: whatever recursion limit (1000 … 40000) is left behind, one of them
   flips between `fails` and `extracts`.
All sizes are bounded (≤ 40000 nested elements, ≤ 33 members, ≤ 200 kB per document).
"""
import io
import tarfile
import zipfile

ODF_NS = ('xmlns:office="urn:oasis:names:tc:opendocument:xmlns:office:1.0" '
          'xmlns:text="urn:oasis:names:tc:opendocument:xmlns:text:1.0" '
          'xmlns:table="urn:oasis:names:tc:opendocument:xmlns:table:1.0" '
          'xmlns:draw="urn:oasis:names:tc:opendocument:xmlns:drawing:1.0" '
          'xmlns:presentation="urn:oasis:names:tc:opendocument:xmlns:presentation:1.0" '
          'xmlns:svg="urn:oasis:names:tc:opendocument:xmlns:svg-compatible:1.0"')

# depths: below the default recursion limit / above it / above what a generous extractor might raise it to
FAULT_DEPTHS = (150, 1500, 6000, 13000, 40000)
PROBE_DEPTHS = (1500, 3000, 6000, 11000, 24000)


def _odf(mimetype, body):
    content = ('<?xml version="1.0" encoding="UTF-8"?><office:document-content ' + ODF_NS +
               ' office:version="1.2"><office:body>' + body + "</office:body></office:document-content>")
    buf = io.BytesIO()
    with zipfile.ZipFile(buf, "w") as zf:
        zf.writestr(zipfile.ZipInfo("mimetype"), mimetype)
        zf.writestr(zipfile.ZipInfo("content.xml"), content, compress_type=zipfile.ZIP_STORED)
    return buf.getvalue()


def _spans(depth):
    return "<text:span>" * depth + "text at the bottom" + "</text:span>" * depth


def odt_deep(depth):
    return _odf("application/vnd.oasis.opendocument.text",
                "<office:text><text:p>" + _spans(depth) + "</text:p><text:p>tail paragraph</text:p></office:text>")


def ods_deep(depth):
    return _odf("application/vnd.oasis.opendocument.spreadsheet",
                '<office:spreadsheet><table:table table:name="S1"><table:table-row><table:table-cell><text:p>' + _spans(depth) +
                "</text:p></table:table-cell><table:table-cell><text:p>b</text:p></table:table-cell></table:table-row>"
                "</table:table></office:spreadsheet>")


def odp_deep(depth):
    return _odf("application/vnd.oasis.opendocument.presentation",
                '<office:presentation><draw:page draw:name="p1"><draw:frame presentation:class="title"><draw:text-box><text:p>' +
                _spans(depth) + "</text:p></draw:text-box></draw:frame></draw:page></office:presentation>")


def html_deep(depth, tag="div"):
    return ("<html><head><title>deep</title></head><body>" + f"<{tag}>" * depth + "text at the bottom" + f"</{tag}>" * depth +
            "<p>tail</p></body></html>").encode()


def rtf_deep(depth):
    return (r"{\rtf1\ansi\deff0 {\fonttbl{\f0 Arial;}}\f0 head " + "{\\b " * depth + "bottom" + "}" * depth + r" tail\par}").encode()


def eml_deep(depth):
    """`depth` nested multipart/mixed containers around one text part"""
    head = "From: a@example.org\r\nTo: b@example.org\r\nSubject: deep\r\nDate: Mon, 01 Jan 2024 00:00:00 +0000\r\nMIME-Version: 1.0\r\n"
    open_, close = [], []
    for i in range(depth):
        open_.append(f'Content-Type: multipart/mixed; boundary="b{i}"\r\n\r\n--b{i}\r\n')
        close.append(f"\r\n--b{i}--\r\n")
    return (head + "".join(open_) + "Content-Type: text/plain; charset=utf-8\r\n\r\nbottom text\r\n" + "".join(reversed(close))).encode()


_SHAPES = [("odt", odt_deep), ("ods", ods_deep), ("odp", odp_deep), ("html", html_deep), ("rtf", rtf_deep)]


def fault_docs():
    """[(name, bytes)] — documents nested at the graded FAULT_DEPTHS (the deep ones FAIL, at different depths of the walk)"""
    out = []
    for ext, mk in _SHAPES:
        for d in FAULT_DEPTHS:
            if ext == "rtf" and d > 13000:
                continue
            if ext == "odt" and d == 6000:      # the ODT walk is quadratic in the nesting depth once it is allowed to descend
                continue
            out.append((f"generated/fault-{ext}-d{d}.{ext}", mk(d)))
    for d in (40, 400):
        out.append((f"generated/fault-eml-d{d}.eml", eml_deep(d)))
    return out


def probe_docs():
    """[(name, bytes)] — documents whose outcome depends on the interpreter's recursion limit, whatever it is in 1000 … 40000"""
    out = []
    for d in PROBE_DEPTHS:
        out.append((f"generated/probe-html-d{d}.html", html_deep(d, "section")))
    for d in PROBE_DEPTHS[:3]:
        out.append((f"generated/probe-ods-d{d}.ods", ods_deep(d + 7)))
    return out


def _member(rng, i, cost):
    """(file name, bytes) of one archive member of about `cost` lines, formats mixed"""
    kind = ("txt", "md", "csv", "html", "json")[i % 5]
    lines = [f"member {i:02d} line {n:04d}: the quick brown fox jumps over the lazy dog {rng.randint(0, 9)}" for n in range(max(1, cost))]
    if kind == "csv":
        body = "\n".join(f"{i},{n},fox {n}" for n in range(max(1, cost)))
    elif kind == "html":
        body = "<html><body>" + "".join(f"<p>{x}</p>" for x in lines) + "</body></html>"
    elif kind == "json":
        body = "{" + ", ".join(f'"k{n}": "{x}"' for n, x in enumerate(lines)) + "}"
    else:
        body = "\n".join(lines)
    return f"docs/part_{i:02d}.{kind}", body.encode()


def _costs(n, profile):
    if profile == "equal":
        return [600] * n
    big_first = [2500 if i < max(1, n // 4) else 3 for i in range(n)]
    return big_first if profile == "bigfirst" else big_first[::-1]


def _zip(members):
    buf = io.BytesIO()
    with zipfile.ZipFile(buf, "w", zipfile.ZIP_DEFLATED) as zf:
        for name, data in members:
            zi = zipfile.ZipInfo(name, date_time=(2024, 1, 1, 0, 0, 0))
            zi.compress_type = zipfile.ZIP_DEFLATED
            zf.writestr(zi, data)
    return buf.getvalue()


def _tar(members, mode):
    buf = io.BytesIO()
    with tarfile.open(fileobj=buf, mode=mode) as tf:
        for name, data in members:
            ti = tarfile.TarInfo(name)
            ti.size = len(data)
            ti.mtime = 1704067200
            tf.addfile(ti, io.BytesIO(data))
    return buf.getvalue()


MEMBER_COUNTS = (1, 2, 3, 4, 5, 7, 8, 9, 15, 16, 17, 32, 33)


def archives(rng, counts=MEMBER_COUNTS, profiles=("equal", "bigfirst", "biglast")):
    """[(name, bytes)] — every member count x one cost profile (rotating), as ZIP; every fourth also as TAR and TAR.GZ"""
    out = []
    for k, n in enumerate(counts):
        prof = profiles[k % len(profiles)]
        members = [_member(rng, i, c) for i, c in enumerate(_costs(n, prof))]
        out.append((f"generated/sched-{n}-{prof}.zip", _zip(members)))
        if k % 4 == 3:
            out.append((f"generated/sched-{n}-{prof}.tar", _tar(members, "w")))
            out.append((f"generated/sched-{n}-{prof}.tar.gz", _tar(members, "w:gz")))
    return out
