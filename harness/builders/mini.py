"""Minimal container writers shared by harness modules (ground truth known by construction)."""
import io
import zipfile

W = "http://schemas.openxmlformats.org/wordprocessingml/2006/main"


def docx(paragraphs):
    """paragraphs: [(style_name | None, text)] -> bytes of a minimal DOCX"""
    b = io.BytesIO()
    with zipfile.ZipFile(b, "w", zipfile.ZIP_DEFLATED) as z:
        z.writestr("[Content_Types].xml", '<?xml version="1.0"?><Types xmlns="http://schemas.openxmlformats.org/package/2006/content-types">'
                   '<Default Extension="rels" ContentType="application/vnd.openxmlformats-package.relationships+xml"/><Default Extension="xml" ContentType="application/xml"/>'
                   '<Override PartName="/word/document.xml" ContentType="application/vnd.openxmlformats-officedocument.wordprocessingml.document.main+xml"/></Types>')
        z.writestr("_rels/.rels", '<?xml version="1.0"?><Relationships xmlns="http://schemas.openxmlformats.org/package/2006/relationships">'
                   '<Relationship Id="rId1" Type="http://schemas.openxmlformats.org/officeDocument/2006/relationships/officeDocument" Target="word/document.xml"/></Relationships>')
        body = "".join(
            "<w:p>" + (f'<w:pPr><w:pStyle w:val="{_x(st)}"/></w:pPr>' if st else "") + f"<w:r><w:t>{_x(tx)}</w:t></w:r></w:p>" for st, tx in paragraphs)
        z.writestr("word/document.xml", f'<?xml version="1.0" encoding="UTF-8"?><w:document xmlns:w="{W}"><w:body>{body}</w:body></w:document>')
    return b.getvalue()


def odt(style_names, paragraphs=("hello",)):
    """style_names: automatic style names declared in content.xml -> bytes of a minimal ODT"""
    ns = ('xmlns:office="urn:oasis:names:tc:opendocument:xmlns:office:1.0" xmlns:text="urn:oasis:names:tc:opendocument:xmlns:text:1.0" '
          'xmlns:style="urn:oasis:names:tc:opendocument:xmlns:style:1.0"')
    styles = "".join(f'<style:style style:name="{_x(s)}" style:family="paragraph"/>' for s in style_names)
    ps = "".join(f'<text:p text:style-name="{_x(style_names[i % len(style_names)]) if style_names else "Standard"}">{_x(p)}</text:p>' for i, p in enumerate(paragraphs))
    content = f'<?xml version="1.0" encoding="UTF-8"?><office:document-content {ns} office:version="1.2"><office:automatic-styles>{styles}</office:automatic-styles><office:body><office:text>{ps}</office:text></office:body></office:document-content>'
    b = io.BytesIO()
    with zipfile.ZipFile(b, "w") as z:
        z.writestr(zipfile.ZipInfo("mimetype"), "application/vnd.oasis.opendocument.text")
        z.writestr("content.xml", content)
        z.writestr("META-INF/manifest.xml", '<?xml version="1.0"?><manifest:manifest xmlns:manifest="urn:oasis:names:tc:opendocument:xmlns:manifest:1.0">'
                   '<manifest:file-entry manifest:full-path="/" manifest:media-type="application/vnd.oasis.opendocument.text"/>'
                   '<manifest:file-entry manifest:full-path="content.xml" manifest:media-type="text/xml"/></manifest:manifest>')
    return b.getvalue()


def _x(s):
    return s.replace("&", "&amp;").replace("<", "&lt;").replace(">", "&gt;").replace('"', "&quot;")
