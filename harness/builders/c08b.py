"""C08 reference writers (independent of the library): OLE2 compound files, BIFF record
streams, 7z archives (copy coder, optional AES coder / encoded header), ZIP archives with
chosen general-purpose flag bits and compression methods, ODF / EPUB packages, PDFs (via pypdf).

Nothing here imports sharepoint2text.  Every byte layout is written from the format
specifications ([MS-CFB], 7zFormat.txt, APPNOTE.TXT); the builders are validated in the
harness against olefile / zipfile (third-party readers), not against the library under test.
"""
from __future__ import annotations

import io
import struct
import zipfile
import zlib

# ----------------------------------------------------------------------------- OLE2 / CFB
_FREE, _EOC, _FATSECT = 0xFFFFFFFF, 0xFFFFFFFE, 0xFFFFFFFD
_NOSTREAM = 0xFFFFFFFF


def _cfb_key(name: str):
    return (len(name.encode("utf-16-le")), name.upper())


def ole2(entries, clsid=b"\0" * 16) -> bytes:
    """entries: list of (path, data) with path = 'A' or 'Storage/Stream'; data None = storage.
    Parent storages are created implicitly.  Version 3, 512-byte sectors, mini stream for
    streams < 4096 bytes."""
    # ---- tree of nodes
    nodes = [{"name": "Root Entry", "type": 5, "kids": [], "data": None}]
    index = {(): 0}

    def ensure(path_t, typ, data):
        if path_t in index:
            i = index[path_t]
            if typ == 2:
                nodes[i]["type"], nodes[i]["data"] = 2, data
            return i
        parent = ensure(path_t[:-1], 1, None) if len(path_t) > 1 else 0
        nodes.append({"name": path_t[-1], "type": typ, "kids": [], "data": data})
        i = len(nodes) - 1
        index[path_t] = i
        nodes[parent]["kids"].append(i)
        return i

    for path, data in entries:
        pt = tuple(path.split("/"))
        ensure(pt, 1 if data is None else 2, data)

    # ---- allocate streams
    big, mini = [], []
    for i, n in enumerate(nodes):
        if n["type"] == 2:
            (mini if len(n["data"]) < 4096 else big).append(i)
    ministream = bytearray()
    minifat = []
    for i in mini:
        d = nodes[i]["data"]
        if not d:
            nodes[i]["start"], nodes[i]["size"] = _EOC, 0
            continue
        nodes[i]["start"], nodes[i]["size"] = len(minifat), len(d)
        k = (len(d) + 63) // 64
        for j in range(k):
            minifat.append(len(minifat) + 1 if j < k - 1 else _EOC)
        ministream += d + b"\0" * (k * 64 - len(d))
    ndir = (len(nodes) * 128 + 511) // 512
    nminifat = (len(minifat) * 4 + 511) // 512
    nministream = (len(ministream) + 511) // 512
    chains = []  # (first, count) in sector order

    sec = 0

    def alloc(k):
        nonlocal sec
        first = sec
        sec += k
        chains.append((first, k))
        return first if k else _EOC

    dir_start = alloc(ndir)
    minifat_start = alloc(nminifat)
    ministream_start = alloc(nministream)
    for i in big:
        d = nodes[i]["data"]
        nodes[i]["start"], nodes[i]["size"] = alloc((len(d) + 511) // 512), len(d)
    ndata = sec
    nfat = 1
    while nfat * 128 < ndata + nfat:
        nfat += 1
    if nfat > 109:
        raise ValueError("too large for this writer")
    fat = [_FREE] * (nfat * 128)
    for first, k in chains:
        for j in range(k):
            fat[first + j] = first + j + 1 if j < k - 1 else _EOC
    fat_sectors = list(range(ndata, ndata + nfat))
    for s in fat_sectors:
        fat[s] = _FATSECT
    nodes[0]["start"], nodes[0]["size"] = (ministream_start if nministream else _EOC), len(ministream)

    # ---- sibling trees (balanced, all black)
    for n in nodes:
        n["left"] = n["right"] = n["child"] = _NOSTREAM

    def build(ids):
        if not ids:
            return _NOSTREAM
        m = len(ids) // 2
        nodes[ids[m]]["left"] = build(ids[:m])
        nodes[ids[m]]["right"] = build(ids[m + 1:])
        return ids[m]

    for n in nodes:
        if n["kids"]:
            n["child"] = build(sorted(n["kids"], key=lambda i: _cfb_key(nodes[i]["name"])))

    # ---- serialise
    hdr = bytearray(512)
    hdr[0:8] = bytes.fromhex("D0CF11E0A1B11AE1")
    hdr[8:24] = clsid
    struct.pack_into("<HHHHH", hdr, 24, 0x003E, 3, 0xFFFE, 9, 6)
    struct.pack_into("<I", hdr, 40, 0)            # number of directory sectors (0 for v3)
    struct.pack_into("<I", hdr, 44, nfat)
    struct.pack_into("<I", hdr, 48, dir_start)
    struct.pack_into("<I", hdr, 52, 0)
    struct.pack_into("<I", hdr, 56, 4096)         # mini stream cutoff
    struct.pack_into("<I", hdr, 60, minifat_start if nminifat else _EOC)
    struct.pack_into("<I", hdr, 64, nminifat)
    struct.pack_into("<I", hdr, 68, _EOC)         # first DIFAT sector
    struct.pack_into("<I", hdr, 72, 0)
    for j in range(109):
        struct.pack_into("<I", hdr, 76 + 4 * j, fat_sectors[j] if j < nfat else _FREE)
    out = bytearray(hdr)
    # directory
    d = bytearray()
    for n in nodes:
        e = bytearray(128)
        nm = n["name"].encode("utf-16-le")[:62]
        e[0:len(nm)] = nm
        struct.pack_into("<H", e, 64, len(nm) + 2)
        e[66] = n["type"]
        e[67] = 1
        struct.pack_into("<III", e, 68, n["left"], n["right"], n["child"])
        if n["type"] in (2, 5):
            struct.pack_into("<I", e, 116, n.get("start", _EOC))
            struct.pack_into("<I", e, 120, n.get("size", 0))
        else:
            struct.pack_into("<I", e, 116, 0)
        d += e
    while len(d) % 512:
        e = bytearray(128)
        struct.pack_into("<III", e, 68, _NOSTREAM, _NOSTREAM, _NOSTREAM)
        d += e
    out += d
    mf = b"".join(struct.pack("<I", x) for x in minifat)
    out += mf + b"\xff" * (nminifat * 512 - len(mf))
    out += bytes(ministream) + b"\0" * (nministream * 512 - len(ministream))
    for i in big:
        dd = nodes[i]["data"]
        out += dd + b"\0" * (-len(dd) % 512)
    out += b"".join(struct.pack("<I", x) for x in fat)
    return bytes(out)


# ----------------------------------------------------------------------------- BIFF
def biff(records) -> bytes:
    """records: list of (id, payload bytes) -> record stream (id:u16 len:u16 payload)"""
    return b"".join(struct.pack("<HH", rid & 0xFFFF, len(p)) + p for rid, p in records)


# ----------------------------------------------------------------------------- 7z
def _num(n: int) -> bytes:
    """7z variable-length number"""
    for extra in range(0, 8):
        if n < (1 << (8 * extra + (7 - extra))):
            first = ((0xFF << (8 - extra)) & 0xFF) | (n >> (8 * extra))
            return bytes([first]) + (n & ((1 << (8 * extra)) - 1)).to_bytes(extra, "little")
    return b"\xff" + struct.pack("<Q", n)


AES_CODER = bytes.fromhex("06f10701")


def _folder(coders) -> bytes:
    """coders: list of (id bytes, props bytes|None); simple coders chained (bind pairs i+1 -> i)"""
    b = _num(len(coders))
    for cid, props in coders:
        flags = len(cid) | (0x20 if props is not None else 0)
        b += bytes([flags]) + cid
        if props is not None:
            b += _num(len(props)) + props
    for i in range(len(coders) - 1):
        b += _num(i + 1) + _num(i)
    return b


def _streams_info(pack_pos, pack_sizes, folders, unpack_sizes, substreams=None) -> bytes:
    """folders: list of coder lists; unpack_sizes: per folder list (one per coder);
    substreams: per folder list of file sizes (None = one stream per folder)"""
    b = bytes([0x06]) + _num(pack_pos) + _num(len(pack_sizes)) + bytes([0x09]) + b"".join(_num(s) for s in pack_sizes) + b"\0"
    b += bytes([0x07, 0x0B]) + _num(len(folders)) + b"\0" + b"".join(_folder(f) for f in folders)
    b += bytes([0x0C]) + b"".join(_num(s) for us in unpack_sizes for s in us) + b"\0"
    if substreams is not None:
        b += bytes([0x08, 0x0D]) + b"".join(_num(len(s)) for s in substreams)
        sizes = b"".join(_num(x) for s in substreams for x in s[:-1])
        b += bytes([0x09]) + sizes + b"\0"
    return b + b"\0"


def sevenzip(files, coders_per_folder=None, solid=True, encode_header=None, dirs=(), out=None, header_pack=None) -> bytes:
    """files: list of (name, data).  All data is stored with the Copy coder; `coders_per_folder`
    (list of coder lists, one per folder) overrides the coder chain written in the header
    (e.g. [[(AES_CODER, props)]] declares the folder AES-encrypted; payload stays as given).
    solid=True: one folder holding all files; False: one folder per file.
    encode_header: None | coder list -> the header itself is wrapped in an EncodedHeader whose
    folder uses that coder chain (Copy = b"\\0" keeps it readable; AES = header encryption).
    header_pack: None | callable(plain header bytes) -> stored bytes: the EncodedHeader's packed stream really is
    the header compressed by that function (what `7z a` writes by default: an LZMA-compressed, NOT encrypted header)."""
    files = list(files)
    nonempty = [(n, d) for n, d in files if d]
    packed = b"".join(d for _, d in nonempty)
    hdr = bytes([0x01])
    if nonempty:
        if solid:
            folders = [[(b"\0", None)]]
            pack_sizes = [len(packed)]
            unpack = [[len(packed)]]
            subs = [[len(d) for _, d in nonempty]]
        else:
            folders = [[(b"\0", None)] for _ in nonempty]
            pack_sizes = [len(d) for _, d in nonempty]
            unpack = [[len(d)] for _, d in nonempty]
            subs = None
        if coders_per_folder is not None:
            folders = coders_per_folder
            unpack = [[u[0]] * len(f) for u, f in zip(unpack, folders)]
        hdr += bytes([0x04]) + _streams_info(0, pack_sizes, folders, unpack, subs)
    allf = [(n, d, False) for n, d in files] + [(n, b"", True) for n in dirs]
    fi = _num(len(allf))
    empties = [not d for _, d, _ in allf]
    if any(empties):
        bits = bytearray((len(allf) + 7) // 8)
        for i, e in enumerate(empties):
            if e:
                bits[i // 8] |= 0x80 >> (i % 8)
        fi += bytes([0x0E]) + _num(len(bits)) + bytes(bits)
        # empty files (not directories) among the empty streams
        es = [isd for (_, d, isd) in allf if not d]
        if not all(es):
            b2 = bytearray((len(es) + 7) // 8)
            for i, isd in enumerate(es):
                if not isd:
                    b2[i // 8] |= 0x80 >> (i % 8)
            fi += bytes([0x0F]) + _num(len(b2)) + bytes(b2)
    names = b"\0" + b"".join(n.encode("utf-16-le") + b"\0\0" for n, _, _ in allf)
    fi += bytes([0x11]) + _num(len(names)) + names
    if dirs:
        attrs = b"\x01" + b"".join(struct.pack("<I", 0x10 if isd else 0x20) for _, _, isd in allf)
        fi += bytes([0x15]) + _num(len(attrs)) + attrs
    fi += b"\0"
    hdr += bytes([0x05]) + fi + b"\0"
    body = packed
    if out is not None:
        out["header"] = hdr            # the plain header (what an EncodedHeader folder wraps)
    if encode_header is not None:
        enc_pos = len(body)
        stored = header_pack(hdr) if header_pack is not None else hdr
        if out is not None:
            out["stored_header"] = stored
        body += stored
        hdr = bytes([0x17]) + _streams_info(enc_pos, [len(stored)], [encode_header], [[len(hdr)] * len(encode_header)])
    start = struct.pack("<QQI", len(body), len(hdr), zlib.crc32(hdr) & 0xFFFFFFFF)
    sig = b"7z\xbc\xaf\x27\x1c" + bytes([0, 4]) + struct.pack("<I", zlib.crc32(start) & 0xFFFFFFFF) + start
    return sig + body + hdr


# ----------------------------------------------------------------------------- ZIP
def zip_members(members) -> bytes:
    """members: list of dicts {name, data, flags (OR-ed into the general purpose bits of both
    headers), method (None = stored; an int overrides the method field of both headers after
    writing as stored), deflate (bool)}; names ending in '/' are directories."""
    bio = io.BytesIO()
    with zipfile.ZipFile(bio, "w") as zf:
        for m in members:
            zi = zipfile.ZipInfo(m["name"])
            zi.compress_type = zipfile.ZIP_DEFLATED if m.get("deflate") else zipfile.ZIP_STORED
            zf.writestr(zi, m.get("data", b""))
    raw = bytearray(bio.getvalue())
    # patch flags / method in local and central headers
    with zipfile.ZipFile(io.BytesIO(bytes(raw))) as zf:
        infos = zf.infolist()
    eocd = raw.rfind(b"PK\x05\x06")
    cd_off = struct.unpack_from("<I", raw, eocd + 16)[0]
    pos = cd_off
    for m, zi in zip(members, infos):
        assert raw[pos:pos + 4] == b"PK\x01\x02"
        fl, meth = m.get("flags", 0), m.get("method")
        nlen, elen, clen = struct.unpack_from("<HHH", raw, pos + 28)
        if fl:
            struct.pack_into("<H", raw, pos + 8, struct.unpack_from("<H", raw, pos + 8)[0] | fl)
            lo = zi.header_offset
            struct.pack_into("<H", raw, lo + 6, struct.unpack_from("<H", raw, lo + 6)[0] | fl)
        if meth is not None:
            struct.pack_into("<H", raw, pos + 10, meth)
            struct.pack_into("<H", raw, zi.header_offset + 8, meth)
        pos += 46 + nlen + elen + clen
    return bytes(raw)


def zip_plain(files, deflate=True) -> bytes:
    return zip_members([{"name": n, "data": d, "deflate": deflate} for n, d in files])


# ----------------------------------------------------------------------------- ODF
_ODF_MIME = {
    "odt": "application/vnd.oasis.opendocument.text",
    "ods": "application/vnd.oasis.opendocument.spreadsheet",
    "odp": "application/vnd.oasis.opendocument.presentation",
    "odg": "application/vnd.oasis.opendocument.graphics",
    "odf": "application/vnd.oasis.opendocument.formula",
}
_ODF_NS = ('xmlns:office="urn:oasis:names:tc:opendocument:xmlns:office:1.0" '
           'xmlns:text="urn:oasis:names:tc:opendocument:xmlns:text:1.0" '
           'xmlns:table="urn:oasis:names:tc:opendocument:xmlns:table:1.0" '
           'xmlns:draw="urn:oasis:names:tc:opendocument:xmlns:drawing:1.0" '
           'xmlns:math="http://www.w3.org/1998/Math/MathML" '
           'xmlns:presentation="urn:oasis:names:tc:opendocument:xmlns:presentation:1.0"')


def odf_content(kind: str, token: str) -> bytes:
    body = {
        "odt": f"<office:text><text:p>{token}</text:p></office:text>",
        "ods": f'<office:spreadsheet><table:table table:name="S1"><table:table-row><table:table-cell><text:p>{token}</text:p></table:table-cell></table:table-row></table:table></office:spreadsheet>',
        "odp": f'<office:presentation><draw:page draw:name="p1"><draw:frame><draw:text-box><text:p>{token}</text:p></draw:text-box></draw:frame></draw:page></office:presentation>',
        "odg": f'<office:drawing><draw:page draw:name="p1"><draw:frame><draw:text-box><text:p>{token}</text:p></draw:text-box></draw:frame></draw:page></office:drawing>',
        "odf": None,
    }[kind]
    if kind == "odf":
        return (f'<?xml version="1.0" encoding="UTF-8"?><math:math {_ODF_NS}><math:semantics><math:mi>{token}</math:mi>'
                f'<math:annotation math:encoding="StarMath 5.0">{token}</math:annotation></math:semantics></math:math>').encode()
    return f'<?xml version="1.0" encoding="UTF-8"?><office:document-content {_ODF_NS} office:version="1.2"><office:body>{body}</office:body></office:document-content>'.encode()


MANIFEST_NS = "urn:oasis:names:tc:opendocument:xmlns:manifest:1.0"


# the shapes an <encryption-data> element takes in the wild (ODF 1.0/1.1 Blowfish, ODF 1.2 AES-256 as LibreOffice writes it,
# ODF 1.3 OpenPGP key transport, and the bare element a minimal writer may emit).  Encrypted is encrypted whatever the
# algorithm / checksum / key-derivation attributes say: the detector must not depend on them.
ODF_ENC_STYLES = ("blowfish", "aes256", "aes256-argon", "pgp", "bare", "no-checksum", "unknown-algorithm")


def _odf_encryption_data(p: str, ap: str, style: str) -> str:
    if style == "blowfish":
        return (f'<{p}encryption-data {ap}checksum-type="SHA1/1K" {ap}checksum="AAAA">'
                f'<{p}algorithm {ap}algorithm-name="Blowfish CFB" {ap}initialisation-vector="AAAA"/>'
                f'<{p}key-derivation {ap}key-derivation-name="PBKDF2" {ap}iteration-count="1024" {ap}salt="AAAA"/>'
                f'</{p}encryption-data>')
    if style == "aes256":
        return (f'<{p}encryption-data {ap}checksum-type="urn:oasis:names:tc:opendocument:xmlns:manifest:1.0#sha256-1k" {ap}checksum="AAAA">'
                f'<{p}algorithm {ap}algorithm-name="http://www.w3.org/2001/04/xmlenc#aes256-cbc" {ap}initialisation-vector="AAAA"/>'
                f'<{p}key-derivation {ap}key-derivation-name="PBKDF2" {ap}key-size="32" {ap}iteration-count="100000" {ap}salt="AAAA"/>'
                f'<{p}start-key-generation {ap}start-key-generation-name="http://www.w3.org/2000/09/xmldsig#sha256" {ap}key-size="32"/>'
                f'</{p}encryption-data>')
    if style == "aes256-argon":
        return (f'<{p}encryption-data>'
                f'<{p}algorithm {ap}algorithm-name="http://www.w3.org/2009/xmlenc11#aes256-gcm" {ap}initialisation-vector="AAAA"/>'
                f'<{p}key-derivation {ap}key-derivation-name="urn:org:documentfoundation:names:experimental:office:manifest:argon2id" {ap}salt="AAAA"/>'
                f'<{p}start-key-generation {ap}start-key-generation-name="http://www.w3.org/2001/04/xmlenc#sha256" {ap}key-size="32"/>'
                f'</{p}encryption-data>')
    if style == "pgp":
        return (f'<{p}encryption-data {ap}checksum-type="urn:oasis:names:tc:opendocument:xmlns:manifest:1.0#sha256-1k" {ap}checksum="AAAA">'
                f'<{p}algorithm {ap}algorithm-name="http://www.w3.org/2001/04/xmlenc#aes256-cbc" {ap}initialisation-vector="AAAA"/>'
                f'<{p}key-derivation {ap}key-derivation-name="PGP"/>'
                f'</{p}encryption-data>')
    if style == "bare":
        return f'<{p}encryption-data/>'
    if style == "no-checksum":
        return (f'<{p}encryption-data>'
                f'<{p}algorithm {ap}algorithm-name="Blowfish CFB" {ap}initialisation-vector="AAAA"/>'
                f'</{p}encryption-data>')
    if style == "unknown-algorithm":
        return (f'<{p}encryption-data {ap}checksum-type="SHA1" {ap}checksum="AAAA">'
                f'<{p}algorithm {ap}algorithm-name="urn:example:vendor-cipher" {ap}initialisation-vector=""/>'
                f'<{p}key-derivation {ap}key-derivation-name="none"/>'
                f'</{p}encryption-data>')
    raise ValueError(style)


def odf_manifest(kind: str, entries, prefix="manifest", enc_for=(), ns=MANIFEST_NS, extra_attr="", enc_style="blowfish") -> bytes:
    """entries: member names; enc_for: names that get a <encryption-data> child (real ODF
    encryption shape, spelled as `enc_style` says).  prefix: namespace prefix used ('' = default namespace)."""
    p = prefix + ":" if prefix else ""
    decl = f'xmlns:{prefix}="{ns}"' if prefix else f'xmlns="{ns}"'
    ap = p if prefix else ""   # unprefixed attributes in the default-namespace spelling
    rows = [f'<{p}file-entry {ap}full-path="/" {ap}media-type="{_ODF_MIME[kind]}"{extra_attr}/>']
    for n in entries:
        esc = n.replace("&", "&amp;").replace('"', "&quot;").replace("<", "&lt;")
        if n in enc_for:
            rows.append(
                f'<{p}file-entry {ap}full-path="{esc}" {ap}media-type="text/xml" {ap}size="100">'
                + _odf_encryption_data(p, ap, enc_style) + f'</{p}file-entry>')
        else:
            rows.append(f'<{p}file-entry {ap}full-path="{esc}" {ap}media-type="text/xml"/>')
    return (f'<?xml version="1.0" encoding="UTF-8"?><{p}manifest {decl} {ap}version="1.2">' + "".join(rows) + f"</{p}manifest>").encode()


def odf_package(kind: str, token: str, manifest: bytes | None, extra=(), content: bytes | None = None) -> bytes:
    files = [("mimetype", _ODF_MIME[kind].encode())]
    files.append(("content.xml", content if content is not None else odf_content(kind, token)))
    files.append(("meta.xml", f'<?xml version="1.0"?><office:document-meta {_ODF_NS} xmlns:dc="http://purl.org/dc/elements/1.1/" xmlns:meta="urn:oasis:names:tc:opendocument:xmlns:meta:1.0"><office:meta><dc:title>t</dc:title></office:meta></office:document-meta>'.encode()))
    files.append(("styles.xml", f'<?xml version="1.0"?><office:document-styles {_ODF_NS}></office:document-styles>'.encode()))
    files += list(extra)
    if manifest is not None:
        files.append(("META-INF/manifest.xml", manifest))
    return zip_plain(files, deflate=True)


# ----------------------------------------------------------------------------- XML: the same document, other bytes
def xml_physical_variants(raw: bytes):
    """[(label, bytes)]: `raw` (UTF-8 / ASCII XML with an optional leading XML declaration) re-serialised in every way an XML 1.0
    processor must (UTF-8, UTF-16) or commonly does (ISO-8859-1, US-ASCII) accept — SAME element tree, attribute values and text,
    DIFFERENT bytes: a detector must not depend on what the description looks like as a byte string.
    Validated each run (validate()): each variant parses to the tree of the original."""
    import re
    text = raw.decode("utf-8")
    body = re.sub(r"^\s*<\?xml[^>]*\?>", "", text, count=1)
    out = []

    def decl(enc, q='"', extra=""):
        return f"<?xml version={q}1.0{q} encoding={q}{enc}{q}{extra}?>"

    out.append(("UTF-16 little-endian with byte-order mark, declared UTF-16", b"\xff\xfe" + (decl("UTF-16") + body).encode("utf-16-le")))
    out.append(("UTF-16 big-endian with byte-order mark, declared utf-16", b"\xfe\xff" + (decl("utf-16") + body).encode("utf-16-be")))
    out.append(("UTF-16 with byte-order mark, no XML declaration", b"\xff\xfe" + body.encode("utf-16-le")))
    out.append(("UTF-16 with byte-order mark, declaration without encoding", b"\xff\xfe" + ('<?xml version="1.0"?>' + body).encode("utf-16-le")))
    out.append(("UTF-8 with byte-order mark", b"\xef\xbb\xbf" + (decl("UTF-8") + body).encode("utf-8")))
    out.append(("UTF-8, no XML declaration", body.encode("utf-8")))
    out.append(("UTF-8, single-quoted declaration with standalone", (decl("utf-8", "'", " standalone='yes'") + body).encode("utf-8")))
    if all(ord(ch) < 128 for ch in body):
        out.append(("declared ISO-8859-1", (decl("ISO-8859-1") + body).encode("latin-1")))
        out.append(("declared US-ASCII", (decl("US-ASCII") + body).encode("ascii")))
    out.append(("UTF-8, comment and processing instruction before the root, line breaks between the elements",
                (decl("UTF-8") + "\n<!-- generated -->\n<?app hint?>\n" + body.replace("><", ">\n  <") + "\n<!-- end -->\n").encode("utf-8")))
    return out


# ----------------------------------------------------------------------------- EPUB
def epub_package(token: str, encryption_xml: bytes | None = None, rights_xml: bytes | None = None, extra=()) -> bytes:
    files = [("mimetype", b"application/epub+zip"),
             ("META-INF/container.xml", b'<?xml version="1.0"?><container version="1.0" xmlns="urn:oasis:names:tc:opendocument:xmlns:container"><rootfiles><rootfile full-path="OEBPS/content.opf" media-type="application/oebps-package+xml"/></rootfiles></container>'),
             ("OEBPS/content.opf", b'<?xml version="1.0"?><package xmlns="http://www.idpf.org/2007/opf" version="3.0" unique-identifier="id"><metadata xmlns:dc="http://purl.org/dc/elements/1.1/"><dc:title>T</dc:title><dc:identifier id="id">x</dc:identifier></metadata><manifest><item id="c1" href="c1.xhtml" media-type="application/xhtml+xml"/></manifest><spine><itemref idref="c1"/></spine></package>'),
             ("OEBPS/c1.xhtml", f'<?xml version="1.0"?><html xmlns="http://www.w3.org/1999/xhtml"><head><title>c</title></head><body><p>{token}</p></body></html>'.encode())]
    if encryption_xml is not None:
        files.append(("META-INF/encryption.xml", encryption_xml))
    if rights_xml is not None:
        files.append(("META-INF/rights.xml", rights_xml))
    files += list(extra)
    return zip_plain(files, deflate=True)


XMLENC = "http://www.w3.org/2001/04/xmlenc#"


def epub_encryption_xml(n_data: int, ns=XMLENC, depth=0, local="EncryptedData", prefix="enc") -> bytes:
    p = prefix + ":" if prefix else ""
    decl = f'xmlns:{prefix}="{ns}"' if prefix else f'xmlns="{ns}"'
    one = (f'<{p}{local} {decl}><{p}EncryptionMethod Algorithm="http://www.w3.org/2001/04/xmlenc#aes128-cbc"/>'
           f'<{p}CipherData><{p}CipherReference URI="OEBPS/c1.xhtml"/></{p}CipherData></{p}{local}>')
    inner = one * n_data
    for _ in range(depth):
        inner = f"<wrap>{inner}</wrap>"
    return f'<?xml version="1.0"?><encryption xmlns="urn:oasis:names:tc:opendocument:xmlns:container">{inner}</encryption>'.encode()


# algorithms an EncryptionMethod of an EPUB's encryption.xml names in the wild.  "real": the resource is enciphered with a key
# the reader does not have (DRM: Adobe ADEPT / Readium LCP / Apple FairPlay / Kobo use xmlenc AES); "font": IDPF / Adobe font
# obfuscation (the font file is mangled with a key derived from the package identifier — not DRM, the text stays readable).
EPUB_ALG_REAL = ["http://www.w3.org/2001/04/xmlenc#aes128-cbc", "http://www.w3.org/2001/04/xmlenc#aes256-cbc",
                 "http://www.w3.org/2009/xmlenc11#aes128-gcm", "http://www.w3.org/2001/04/xmlenc#tripledes-cbc",
                 "http://www.w3.org/2001/04/xmlenc#rsa-oaep-mgf1p", "urn:example:vendor-drm#scheme-1", None]
EPUB_ALG_FONT = ["http://www.idpf.org/2008/embedding", "http://ns.adobe.com/pdf/enc#RC"]


def epub_encryption_entries(entries, prefix="enc", container_prefix="") -> bytes:
    """META-INF/encryption.xml (OCF §2.5.4) with one EncryptedData per entry, in the order given.
    entry = {"alg": URI | None (no EncryptionMethod child), "uri": resource, "keyinfo": None | "name" | "key" | "retrieval",
             "compression": bool, "wrap": bool (EncryptedData nested one level down)}"""
    p = prefix + ":" if prefix else ""
    out = []
    for i, e in enumerate(entries):
        one = f'<{p}EncryptedData Id="ED{i}">'
        if e.get("alg") is not None:
            one += f'<{p}EncryptionMethod Algorithm="{e["alg"]}"/>'
        ki = e.get("keyinfo")
        if ki == "name":
            one += '<ds:KeyInfo><ds:KeyName>urn:uuid:0a0b0c0d-content-key</ds:KeyName></ds:KeyInfo>'
        elif ki == "retrieval":
            one += '<ds:KeyInfo><ds:RetrievalMethod URI="license.lcpl#/encryption/content_key" Type="http://readium.org/2014/01/lcp#EncryptedContentKey"/></ds:KeyInfo>'
        elif ki == "key":
            one += (f'<ds:KeyInfo><{p}EncryptedKey><{p}EncryptionMethod Algorithm="http://www.w3.org/2001/04/xmlenc#rsa-1_5"/>'
                    f'<{p}CipherData><{p}CipherValue>AAAA</{p}CipherValue></{p}CipherData></{p}EncryptedKey></ds:KeyInfo>')
        one += f'<{p}CipherData><{p}CipherReference URI="{e.get("uri", "OEBPS/c1.xhtml")}"/></{p}CipherData>'
        if e.get("compression"):
            one += (f'<{p}EncryptionProperties><{p}EncryptionProperty xmlns:ns="http://www.idpf.org/2016/encryption#compression">'
                    f'<ns:Compression Method="8" OriginalLength="123"/></{p}EncryptionProperty></{p}EncryptionProperties>')
        one += f'</{p}EncryptedData>'
        if e.get("wrap"):
            one = f"<wrap>{one}</wrap>"
        out.append(one)
    cp = container_prefix + ":" if container_prefix else ""
    cdecl = (f'xmlns:{container_prefix}' if container_prefix else "xmlns") + '="urn:oasis:names:tc:opendocument:xmlns:container"'
    edecl = (f'xmlns:{prefix}' if prefix else "xmlns") + f'="{XMLENC}"'
    if not prefix and not container_prefix:
        raise ValueError("one of the two namespaces needs a prefix")
    return (f'<?xml version="1.0" encoding="UTF-8"?><{cp}encryption {cdecl} {edecl} xmlns:ds="http://www.w3.org/2000/09/xmldsig#">'
            + "".join(out) + f'</{cp}encryption>').encode()


# ----------------------------------------------------------------------------- PDF
def pdf_plain_lengths(lengths, doc_id: bytes | None = None, tail=b"\n", label="L") -> bytes:
    """one page per requested content-stream length: the page's content stream is stored WITHOUT a filter and is exactly
    `n` bytes long (a text-showing program padded with blanks and closed by `tail`; for n too small for a text operator
    the stream is `n` bytes of harmless operators / empty).  Decryption glue that mishandles some plaintext length
    (block-size multiples: a full padding block; less than one block; nothing at all) changes the bytes of such a stream,
    and with them the text of the page — a Flate stream would hide trailing garbage (zlib ignores it)."""
    from pypdf import PdfWriter
    from pypdf.generic import DictionaryObject, NameObject, StreamObject

    w = PdfWriter()
    _set_doc_id(w, doc_id)
    font = w._add_object(DictionaryObject({NameObject("/Type"): NameObject("/Font"), NameObject("/Subtype"): NameObject("/Type1"),
                                           NameObject("/BaseFont"): NameObject("/Helvetica")}))
    for n in lengths:
        page = w.add_blank_page(width=300, height=200)
        page[NameObject("/Resources")] = DictionaryObject({NameObject("/Font"): DictionaryObject({NameObject("/F1"): font})})
        head = f"BT /F1 12 Tf 20 100 Td (TOKEN {label}{n}) Tj ET".encode("latin-1")
        if n >= len(head) + len(tail):
            body = head + b" " * (n - len(head) - len(tail)) + tail
        else:
            body = (b"q Q " * 16)[:n].rstrip(b"q").ljust(n, b" ") if n else b""
        assert len(body) == n
        s = StreamObject()
        s._data = body
        page[NameObject("/Contents")] = w._add_object(s)
    bio = io.BytesIO()
    w.write(bio)
    return bio.getvalue()


def _set_doc_id(w, doc_id):
    """permanent file identifier (first element of the trailer /ID, PDF 32000 §14.4): tools that encrypt / re-save a
    document keep it, so all variants of one original share it"""
    if doc_id is not None:
        from pypdf.generic import ArrayObject, ByteStringObject
        w._ID = ArrayObject([ByteStringObject(doc_id), ByteStringObject(doc_id)])


def pdf_plain(texts, doc_id: bytes | None = None) -> bytes:
    """one page per text, Helvetica, written with pypdf (no encryption)"""
    from pypdf import PdfWriter
    from pypdf.generic import DecodedStreamObject, DictionaryObject, NameObject

    w = PdfWriter()
    _set_doc_id(w, doc_id)
    for t in texts:
        page = w.add_blank_page(width=300, height=200)
        font = DictionaryObject({NameObject("/Type"): NameObject("/Font"), NameObject("/Subtype"): NameObject("/Type1"),
                                 NameObject("/BaseFont"): NameObject("/Helvetica")})
        page[NameObject("/Resources")] = DictionaryObject({NameObject("/Font"): DictionaryObject({NameObject("/F1"): w._add_object(font)})})
        s = DecodedStreamObject()
        esc = t.replace("\\", "\\\\").replace("(", "\\(").replace(")", "\\)")
        s.set_data(f"BT /F1 12 Tf 20 100 Td ({esc}) Tj ET".encode("latin-1"))
        page[NameObject("/Contents")] = w._add_object(s)
    bio = io.BytesIO()
    w.write(bio)
    return bio.getvalue()


def pdf_encrypt(plain: bytes, user_pw: str, owner_pw, algorithm: str, doc_id: bytes | None = None) -> bytes:
    """owner_pw None: pypdf uses the user password as owner password (what `PdfWriter.encrypt(user)` does)"""
    from pypdf import PdfReader, PdfWriter

    r = PdfReader(io.BytesIO(plain))
    w = PdfWriter()
    _set_doc_id(w, doc_id)
    for p in r.pages:
        w.add_page(p)
    w.encrypt(user_password=user_pw, owner_password=owner_pw, algorithm=algorithm)
    bio = io.BytesIO()
    w.write(bio)
    return bio.getvalue()


# ----------------------------------------------------------------------------- PDF: crypt-filter dictionaries of every legal shape
# PDF 32000-1 §7.6.5: for /V 4 and 5 the encryption dictionary names the crypt filters for streams (/StmF), strings (/StrF)
# and embedded files (/EFF, default = /StmF); each name is either the predefined /Identity (also the default when the key
# is absent) or a key of the /CF dictionary whose value carries the method (/CFM: /V2 = RC4, /AESV2, /AESV3).  The NAME of a
# filter in /CF is free (/StdCF is only what the usual writers call it); /CF may hold filters nobody refers to.
PDF_CFM = {"rc4": "/V2", "aes": None, "identity": "/Identity"}      # "aes" = /AESV2 for V4, /AESV3 for V5


def pdf_plain_with_strings(texts, doc_id: bytes | None = None) -> bytes:
    """like pdf_plain, but every page dictionary carries a string (/LastModified), so that the STRING crypt filter is
    exercised whenever the page is fetched (pypdf decrypts the strings of a dictionary when it resolves the object)"""
    from pypdf import PdfReader, PdfWriter
    from pypdf.generic import NameObject, TextStringObject

    r = PdfReader(io.BytesIO(pdf_plain(texts, doc_id)))
    w = PdfWriter()
    _set_doc_id(w, doc_id)
    for p in r.pages:
        q = w.add_page(p)
        q[NameObject("/LastModified")] = TextStringObject("D:20240101120000Z")
    bio = io.BytesIO()
    w.write(bio)
    return bio.getvalue()


def pdf_encrypt_shaped(plain: bytes, user_pw: str, owner_pw, algorithm: str, shape: dict, doc_id: bytes | None = None) -> bytes:
    """encrypt `plain` with pypdf's primitives, but with the crypt-filter layout given by `shape`:

      cf        [(filter name without '/', method)]   entries of /CF in file order; method in "rc4" | "aes" | "identity-cfm"
      stmf/strf/eff   filter name | "Identity" | None (key absent; /EFF absent = /StmF)
      indirect_cf     write /CF as an indirect object
      stray_cf        (V < 4 only) add a /CF dictionary although the handler version does not use crypt filters

    algorithm: "AES-128" (V4/R4; "rc4" entries = RC4-128 under V4), "AES-256-R5", "AES-256" (V5), "RC4-40"/"RC4-128" (V1/V2).
    The data is encrypted with exactly the methods the dictionary declares (stream / string method resolved through the
    names), so a conforming reader that resolves the names decrypts it."""
    from pypdf import PdfReader, PdfWriter
    from pypdf.generic import DictionaryObject, NameObject, NumberObject

    r = PdfReader(io.BytesIO(plain))
    w = PdfWriter()
    _set_doc_id(w, doc_id)
    for p in r.pages:
        w.add_page(p)
    w.encrypt(user_password=user_pw, owner_password=owner_pw, algorithm=algorithm)
    enc, entry = w._encryption, w._encrypt_entry
    v = int(entry["/V"])
    aes_cfm = "/AESV3" if v >= 5 else "/AESV2"

    def cfm(method):
        return {"rc4": "/V2", "aes": aes_cfm}[method]

    def filter_dict(method):
        d = DictionaryObject()
        d[NameObject("/AuthEvent")] = NameObject("/DocOpen")
        d[NameObject("/CFM")] = NameObject(cfm(method))
        d[NameObject("/Length")] = NumberObject(int(entry["/Length"]) // 8)
        return d

    if v >= 4:
        table = dict()
        cf = DictionaryObject()
        for name, method in shape["cf"]:
            cf[NameObject("/" + name)] = filter_dict(method)
            table.setdefault(name, method)

        def resolve(name, default):
            if name is None:
                return default
            if name == "Identity":
                return "/Identity"
            return cfm(table[name])

        enc.StmF = resolve(shape.get("stmf"), "/Identity")
        enc.StrF = resolve(shape.get("strf"), "/Identity")
        enc.EFF = resolve(shape.get("eff"), enc.StmF)
        for k in ("/CF", "/StmF", "/StrF", "/EFF"):
            if k in entry:
                del entry[k]
        entry[NameObject("/CF")] = w._add_object(cf) if shape.get("indirect_cf") else cf
        for k, key in (("stmf", "/StmF"), ("strf", "/StrF"), ("eff", "/EFF")):
            if shape.get(k) is not None:
                entry[NameObject(key)] = NameObject("/" + shape[k])
    elif shape.get("stray_cf"):
        cf = DictionaryObject()
        for name, method in shape["cf"]:
            d = DictionaryObject()
            d[NameObject("/CFM")] = NameObject({"rc4": "/V2", "aes": "/AESV2"}[method])
            cf[NameObject("/" + name)] = d
        entry[NameObject("/CF")] = cf
    bio = io.BytesIO()
    w.write(bio)
    return bio.getvalue()


def pdf_crypt_facts(data: bytes):
    """what a third-party reader (pypdf's object parser only, no decryption) sees in the trailer's /Encrypt dictionary:
    None = not encrypted; else {"v", "cf": [[name, cfm]], "stmf", "strf", "eff"} (names without '/', None = key absent)"""
    from pypdf import PdfReader

    r = PdfReader(io.BytesIO(data)) if not isinstance(data, PdfReader) else data
    if "/Encrypt" not in r.trailer:
        return None
    e = r.trailer["/Encrypt"].get_object()
    out = {"v": int(e.get("/V", 0)), "cf": [], "stmf": None, "strf": None, "eff": None}
    if "/CF" in e:
        for k, fd in e["/CF"].get_object().items():
            out["cf"].append([str(k)[1:], str(fd.get_object().get("/CFM", "/None"))[1:]])
    for k, key in (("stmf", "/StmF"), ("strf", "/StrF"), ("eff", "/EFF")):
        if key in e:
            out[k] = str(e[key])[1:]
    return out
