"""Shared input corpus helpers: repository fixtures, byte-level and container-aware mutators,
bounded execution of one extractor call."""
from __future__ import annotations

import importlib
import io
import os
import signal
import zipfile

REPO = os.environ.get("S2T_REPO", "/repo")
RES = os.path.join(REPO, "sharepoint2text", "tests", "resources")

EXT_TO_FT = None


def registry():
    """[(file_type, module, function)] distinct registry targets, in registry order"""
    from sharepoint2text.parsing import router
    seen, out = set(), []
    for ft, (m, f) in router._EXTRACTOR_REGISTRY.items():
        if (m, f) not in seen:
            seen.add((m, f))
            out.append((ft, m, f))
    return out


def extractor(module, fn):
    return getattr(importlib.import_module(module), fn)


def fixtures(max_size=None):
    """[(relpath, bytes)] of every non-empty fixture (sorted)"""
    out = []
    for root, dirs, files in os.walk(RES):
        dirs.sort()
        for fn in sorted(files):
            p = os.path.join(root, fn)
            sz = os.path.getsize(p)
            if sz == 0 or (max_size and sz > max_size):
                continue
            with open(p, "rb") as fh:
                out.append((os.path.relpath(p, RES), fh.read()))
    return out


def file_type_of(name: str):
    from sharepoint2text.parsing import router
    return router._file_type_from_extension(name.lower())


def family():
    from sharepoint2text.parsing.exceptions import ExtractionError
    return ExtractionError


class Timeout(BaseException):  # not an Exception: a parser's own `except Exception` must not swallow it
    pass


def _alarm(signum, frame):
    raise Timeout()


_HANGS = 0     # inputs on which an extractor did not end within its limit in this process


def run_extractor(fn, data: bytes, path=None, limit_s=60, consume=None):
    """Consume fn(BytesIO(data), path). Returns ('ok', results) | ('family', clsname) |
    ('other', clsname, repr) | ('hang', limit)."""
    fam = family()
    global _HANGS
    if _HANGS >= 2:     # non-termination is established for this run: keep exploring, but do not wait a minute per input
        limit_s = min(limit_s, 8)
    old = signal.signal(signal.SIGALRM, _alarm)
    signal.alarm(limit_s)
    try:
        try:
            res = []
            for r in fn(io.BytesIO(data), path):
                res.append(r)
                if consume:
                    consume(r)
            return ("ok", res)
        except Timeout:
            _HANGS += 1
            return ("hang", limit_s)
        except fam as e:
            return ("family", type(e).__name__)
        except RecursionError as e:
            return ("other", "RecursionError", repr(e)[:200])
        except Exception as e:  # noqa
            return ("other", type(e).__name__, repr(e)[:200])
    finally:
        signal.alarm(0)
        signal.signal(signal.SIGALRM, old)


# ----------------------------------------------------------------------------- mutators
def mut_truncate(rng, b):
    if len(b) < 2:
        return b
    return b[: rng.randrange(0, len(b))]


def mut_flip(rng, b, n=None):
    if not b:
        return b
    ba = bytearray(b)
    for _ in range(n or rng.choice((1, 1, 2, 4, 16))):
        i = rng.randrange(len(ba))
        ba[i] ^= 1 << rng.randrange(8)
    return bytes(ba)


def mut_splice(rng, b, other):
    if not b or not other:
        return b
    i = rng.randrange(len(b))
    j = rng.randrange(len(other))
    k = rng.randrange(j, min(len(other), j + 4096) + 1)
    return b[:i] + other[j:k] + b[i + rng.randrange(0, 64):]


def mut_zero_block(rng, b):
    if len(b) < 8:
        return b
    i = rng.randrange(len(b) - 4)
    n = rng.choice((1, 4, 16, 64))
    return b[:i] + bytes(rng.choice((0, 0xFF)) for _ in range(n)) + b[i + n:]


def mut_int_fields(rng, b):
    """overwrite a 2/4-byte little-endian field with an extreme value (record lengths, counts, offsets)"""
    if len(b) < 8:
        return b
    i = rng.randrange(len(b) - 4)
    v = rng.choice((b"\x00\x00\x00\x00", b"\xff\xff\xff\xff", b"\xff\xff\xff\x7f", b"\x00\x00\x00\x80", b"\x01\x00\x00\x00", b"\xff\xff", b"\x00\x00"))
    return b[:i] + v + b[i + len(v):]


def is_zip(b):
    return b[:2] == b"PK"


def mut_zip_member(rng, b):
    """valid ZIP shell, one member's content mutated (truncated / flipped / emptied / garbage / XML broken)"""
    try:
        zin = zipfile.ZipFile(io.BytesIO(b))
        infos = zin.infolist()
        if not infos:
            return None
        victim = rng.choice(infos)
        out = io.BytesIO()
        with zipfile.ZipFile(out, "w", zipfile.ZIP_DEFLATED) as zout:
            for info in infos:
                try:
                    data = zin.read(info)
                except Exception:
                    return None
                if info is victim:
                    kind = rng.choice(("trunc", "flip", "empty", "garbage", "unclose", "drop", "dup-root", "entity", "deep"))
                    if kind == "trunc":
                        data = mut_truncate(rng, data)
                    elif kind == "flip":
                        data = mut_flip(rng, data)
                    elif kind == "empty":
                        data = b""
                    elif kind == "garbage":
                        data = bytes(rng.randrange(256) for _ in range(rng.randrange(1, 200)))
                    elif kind == "unclose":
                        data = data.replace(b"</", b"<", 1) if b"</" in data else data[:-3]
                    elif kind == "drop":
                        continue
                    elif kind == "dup-root":
                        data = data + data
                    elif kind == "entity":
                        data = b'<?xml version="1.0"?><!DOCTYPE a [<!ENTITY x "y">]>' + data.split(b"?>", 1)[-1]
                    elif kind == "deep":
                        data = b"<a>" * 3000 + b"x" + b"</a>" * 3000
                zout.writestr(info.filename, data)
        return out.getvalue()
    except Exception:
        return None


def mutations(rng, name, data, others, k):
    """k mutated variants (kind, bytes) of one input"""
    out = []
    kinds = ["truncate", "flip", "splice", "zero", "intfield"] + (["zipmember"] * 3 if is_zip(data) else [])
    for _ in range(k):
        kind = rng.choice(kinds)
        if kind == "truncate":
            m = mut_truncate(rng, data)
        elif kind == "flip":
            m = mut_flip(rng, data)
        elif kind == "splice":
            m = mut_splice(rng, data, rng.choice(others)[1])
        elif kind == "zero":
            m = mut_zero_block(rng, data)
        elif kind == "intfield":
            m = mut_int_fields(rng, data)
        else:
            m = mut_zip_member(rng, data)
            if m is None:
                continue
        out.append((kind, m))
    return out


# ----------------------------------------------------------------------------- dictionary-based token streams
def source_tokens(relpath, pattern):
    """tokens harvested from the CURRENT source text of an extractor (so newly handled keywords are tried too)"""
    import re
    with open(os.path.join(REPO, relpath), encoding="utf-8") as fh:
        src = fh.read()
    return sorted(set(re.findall(pattern, src)))


EXTREME_INTS = [-(2 ** 31), -70000, -4096, -300, -13, -12, -2, -1, 0, 1, 2, 7, 255, 256, 65535, 65536, 2 ** 31 - 1, 2 ** 31, 10 ** 12]


def rtf_token_docs(rng, n):
    """small RTF documents from a grammar of groups / destinations / control words (vocabulary harvested from
    rtf_extractor.py) with extreme numeric parameters"""
    words = source_tokens("sharepoint2text/parsing/extractors/ms_legacy/rtf_extractor.py", r"\\\\([a-z]{1,12})")
    words = sorted(set(words) | {"par", "page", "pict", "bin", "u", "uc", "pngblip", "object", "fonttbl", "info", "title",
                                 "trowd", "cell", "row", "tab", "line", "sect", "pard", "intbl", "field", "fldrslt"})
    # words the source reads a numeric parameter of (regex literals such as \\\\bin(-?\\d+) or \\\\u(-?\\d+)) get extra weight
    numeric = source_tokens("sharepoint2text/parsing/extractors/ms_legacy/rtf_extractor.py", r"\\\\([a-z]{1,12})\(-\?\\d")
    numeric = sorted(set(numeric) | {"u", "uc", "bin"})
    dests = ["pict", "object", "fonttbl", "info", "*\\generator", "*\\shppict", "stylesheet", "colortbl", "header", "footer", "footnote"]
    docs = []
    for _ in range(n):
        parts = ["{\\rtf1\\ansi "]
        depth = 1
        for _ in range(rng.randint(3, 25)):
            r = rng.random()
            if r < 0.25:
                parts.append("".join(rng.choice("abc xyz") for _ in range(rng.randint(1, 6))))
            elif r < 0.40:
                parts.append("{\\" + rng.choice(dests) + " ")
                depth += 1
            elif r < 0.50:
                parts.append("{")
                depth += 1
            elif r < 0.62 and depth > 1:
                parts.append("}")
                depth -= 1
            elif r < 0.66:
                parts.append(rng.choice(["\\'e9", "\\'", "\\\\", "\\{", "\\}", "\\~", "\\\n", "\\u", "\\bin"]))
            else:
                w = rng.choice(numeric) if rng.random() < 0.45 else rng.choice(words)
                par = rng.choice(["", str(rng.choice(EXTREME_INTS)), str(rng.choice(EXTREME_INTS)), str(rng.randint(0, 40))])
                parts.append("\\" + w + par + rng.choice(["", " ", "?", "  "]))
        parts.append("}" * (depth if rng.random() < 0.8 else max(0, depth - 1)))
        docs.append("".join(parts).encode("latin-1", "replace"))
    return docs


# ----------------------------------------------------------------------------- 7z header-aware mutations
def sevenzip_header_mutants(rng, n_random=60, exhaustive=False):
    """Small 7z archives (own writer, plain = uncompressed header) whose *header block* is mutated and whose
    next-header size / CRC and start-header CRC are recomputed, so the mutation reaches the header parser instead
    of being rejected by a checksum: every byte +1, truncation at every length, and random byte edits."""
    import struct
    import zlib
    import sys
    here = os.path.dirname(os.path.abspath(__file__))
    if os.path.join(here, "builders") not in sys.path:
        sys.path.insert(0, os.path.join(here, "builders"))
    import sevenzip_writer as szw

    def reseal(blob, hdr):
        packed = blob[32:32 + struct.unpack("<Q", blob[12:20])[0]]
        start = struct.pack("<QQI", len(packed), len(hdr), zlib.crc32(hdr) & 0xFFFFFFFF)
        return blob[:8] + struct.pack("<I", zlib.crc32(start) & 0xFFFFFFFF) + start + packed + hdr

    bases = [
        ("solid2", szw.build_7z([("a.txt", "file", b"alpha alpha"), ("b.txt", "file", b"beta")], coders="copy")),
        ("perfile3", szw.build_7z([("d", "dir", b""), ("d/a.txt", "file", b"one"), ("e.txt", "file", b""), ("f.md", "file", b"# two")],
                                  groups=[1, 1], coders=["copy", "lzma2"], mtime=True)),
        ("lzma", szw.build_7z([("x.txt", "file", b"x" * 40), ("y.csv", "file", b"a,b\n1,2\n")], coders="lzma", attrs="unix", dummy=3)),
    ]
    out = []
    for tag, blob in bases:
        off = 32 + struct.unpack("<Q", blob[12:20])[0]
        hdr = blob[off:off + struct.unpack("<Q", blob[20:28])[0]]
        out.append((f"7zhdr:{tag}:intact", reseal(blob, hdr)))
        for i in range(len(hdr)):
            out.append((f"7zhdr:{tag}:inc@{i}", reseal(blob, hdr[:i] + bytes([(hdr[i] + 1) & 0xFF]) + hdr[i + 1:])))
        for i in range(1, len(hdr)) if exhaustive else rng.sample(range(1, len(hdr)), min(len(hdr) - 1, 12)):
            out.append((f"7zhdr:{tag}:cut@{i}", reseal(blob, hdr[:i])))
        vals = [0, 1, 2, 0x7F, 0x80, 0xC0, 0xE0, 0xFE, 0xFF]
        if exhaustive:
            for i in range(len(hdr)):
                for v in vals:
                    if hdr[i] != v:
                        out.append((f"7zhdr:{tag}:set@{i}={v}", reseal(blob, hdr[:i] + bytes([v]) + hdr[i + 1:])))
        for _ in range(n_random):
            h = bytearray(hdr)
            for _ in range(rng.choice([1, 1, 2, 3])):
                i = rng.randrange(len(h))
                r = rng.random()
                if r < 0.5:
                    h[i] = rng.choice(vals)
                elif r < 0.7:
                    del h[i]
                elif r < 0.85:
                    h.insert(i, rng.choice(vals))
                else:
                    h[i] = (h[i] - 1) & 0xFF
            out.append((f"7zhdr:{tag}:rnd", reseal(blob, bytes(h))))
    return out
