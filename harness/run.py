#!/venv/bin/python
"""Orchestration of one check run:  ./check Cxx [--tier quick|thorough] [--replay file]

translate (source -> S2T/Gen) -> lake build Props/Cxx + driver (kernel re-checks theorems)
-> audit (no sorry/axioms) -> correspondence (model vs. implementation on generated inputs)
-> verdict (+ failing-input search when an obligation or the correspondence broke) -> evidence.

Exit codes: 0 held / only known findings; 1 VIOLATION; 2 infrastructure trouble (timeouts,
tool crashes) — never reported as a violation.
"""
from __future__ import annotations

import argparse
import hashlib
import importlib
import json
import os
import random
import re
import subprocess
import sys
import time
import traceback

HERE = os.path.dirname(os.path.abspath(__file__))
VERIF = os.path.dirname(HERE)
LEAN = os.path.join(VERIF, "lean")
REPO = os.environ.get("S2T_REPO", "/repo")
DRIVER = os.path.join(LEAN, ".lake", "build", "bin", "s2t_driver")
ALLOWED_AXIOMS = {"propext", "Classical.choice", "Quot.sound"}
FORBIDDEN = re.compile(r"\b(sorry|admit|native_decide|bv_decide|implemented_by)\b|^\s*axiom\s|\bunsafe\s|maxHeartbeats\s+0\b")

sys.path.insert(0, HERE)
sys.path.insert(0, REPO)
os.environ.setdefault("S2T_VERIF", "1")
import logging  # noqa: E402

logging.disable(logging.CRITICAL)
import warnings  # noqa: E402

warnings.filterwarnings("ignore")


class Infra(Exception):
    """Tooling trouble (exit 2)."""


class Violation:
    def __init__(self, key: str, what: str, replay: dict | None = None, found_input: bool = True):
        self.key, self.what, self.replay, self.found_input = key, what, replay or {}, found_input


class Broken:
    """A proof obligation / tie that no longer checks (not yet a violation)."""

    def __init__(self, kind: str, name: str, detail: str = "", case=None):
        self.kind, self.name, self.detail, self.case = kind, name, detail, case

    def as_dict(self):
        return {"kind": self.kind, "name": self.name, "detail": self.detail[:4000], "case": self.case}


class Ctx:
    def __init__(self, prop: str, tier: str, seed: int):
        self.prop, self.tier, self.seed = prop, tier, seed
        self.rng = random.Random(seed * 1000003 + int(prop[1:]))
        self.thorough = tier == "thorough"
        self.coverage: dict = {}
        self.dist: dict = {}
        self.samples: list = []
        self.assumptions: list = []
        self.evaluations = 0
        self.distinct: set = set()
        self.t0 = time.time()
        self.notes: list = []

    def n(self, quick: int, thorough: int) -> int:
        return thorough if self.thorough else quick

    def count(self, bucket: str, k: int = 1):
        self.dist[bucket] = self.dist.get(bucket, 0) + k

    def case(self, fingerprint, nontrivial: bool = True):
        self.evaluations += 1
        if nontrivial:
            self.distinct.add(hashlib.blake2b(repr(fingerprint).encode("utf-8", "surrogatepass"), digest_size=8).digest())

    def sample(self, obj, cap: int = 6):
        if len(self.samples) < cap:
            self.samples.append(obj)

    # ---- Lean model driver (line protocol)
    def drive(self, lines: list[dict], timeout: int = 600) -> list[dict]:
        if not lines:
            return []
        data = "\n".join(json.dumps(l, ensure_ascii=True) for l in lines) + "\n"
        try:
            p = subprocess.run([DRIVER], input=data.encode(), capture_output=True, timeout=timeout)
        except subprocess.TimeoutExpired as e:
            raise Infra(f"driver timeout: {e}")
        if p.returncode != 0:
            raise Infra(f"driver exit {p.returncode}: {p.stderr[-500:]!r}")
        outs = [json.loads(l) for l in p.stdout.decode().split("\n") if l.strip()]
        if len(outs) != len(lines):
            raise Infra(f"driver answered {len(outs)} lines for {len(lines)} requests; stderr={p.stderr[-300:]!r}")
        return outs


# ----------------------------------------------------------------------------- steps
def sh(cmd, cwd=None, timeout=3600, env=None):
    e = dict(os.environ)
    if env:
        e.update(env)
    try:
        p = subprocess.run(cmd, cwd=cwd, capture_output=True, text=True, timeout=timeout, env=e)
    except subprocess.TimeoutExpired:
        raise Infra(f"timeout: {' '.join(cmd)}")
    return p.returncode, p.stdout, p.stderr


def translate(names: list[str]) -> tuple[dict, list[Broken]]:
    rc, out, err = sh(["/venv/bin/python", os.path.join(VERIF, "tools", "translate.py"), *names],
                      env={"S2T_REPO": REPO, "PYTHONPATH": REPO})
    broken = []
    rep = {}
    try:
        rep = json.loads(out.strip().splitlines()[-1])
    except Exception:
        broken.append(Broken("translate", "translator", (out + err)[-2000:]))
        return rep, broken
    for e in rep.get("errors", []):
        broken.append(Broken("translate", e["gen"], e["error"] + "\n" + e.get("tb", "")))
    return rep, broken


_DECL = re.compile(r"^(private\s+|protected\s+)?(theorem|lemma|example|def|instance|abbrev)\s+([^\s:({\[]+)?")


def decls_of(path: str):
    """[(line, kind, name)] of top-level declarations in a Lean file."""
    res = []
    with open(path, encoding="utf-8") as fh:
        for i, line in enumerate(fh, 1):
            m = _DECL.match(line)
            if m:
                kind = m.group(2) if not (m.group(1) or "").startswith("private") else "private-" + m.group(2)
                res.append((i, kind, m.group(3) or f"example@{i}"))
    return res


def theorems_of(prop: str):
    """property theorems = non-private theorems of Props/<prop>.lean and of its parts Props/<prop>_*.lean
    (the parts must be imported by Props/<prop>.lean)"""
    pdir = os.path.join(LEAN, "S2T", "Props")
    files = [f"{prop}.lean"] + sorted(f for f in os.listdir(pdir) if f.startswith(prop + "_") and f.endswith(".lean"))
    thms, examples = [], []
    for fn in files:
        path = os.path.join(pdir, fn)
        ns = None
        with open(path, encoding="utf-8") as fh:
            for line in fh:
                m = re.match(r"^namespace\s+(\S+)", line)
                if m:
                    ns = m.group(1)
                    break
        ds = decls_of(path)
        thms += [(ns + "." + n if ns else n) for (_, k, n) in ds if k in ("theorem", "lemma")]
        examples += [n for (_, k, n) in ds if k == "example"]
    return thms, examples


def _parse_build_errors(text: str) -> list[Broken]:
    broken = []
    seen = set()
    for m in re.finditer(r"^error: (S2T/[\w/]+\.lean|Driver\.lean):(\d+):(\d+): (.*)$", text, re.M):
        f, ln, _, msg = m.group(1), int(m.group(2)), m.group(3), m.group(4)
        name = f
        try:
            ds = [d for d in decls_of(os.path.join(LEAN, f)) if d[0] <= ln]
            if ds:
                name = f"{f}:{ds[-1][2]}"
        except OSError:
            pass
        if name in seen:
            continue
        seen.add(name)
        tail = text[m.end(): m.end() + 1500]
        broken.append(Broken("theorem" if "/Props/" in f else "build", name, msg + tail))
    return broken


def lake_build(prop: str) -> tuple[bool, list[Broken], str, bool]:
    """builds the model driver and the property's theorems separately: a theorem that no longer
    checks must not take the executable model (needed by the correspondence and the search) down"""
    rc_d, out_d, err_d = sh(["lake", "build", "s2t_driver"], cwd=LEAN, timeout=7200)
    rc, out, err = sh(["lake", "build", f"S2T.Props.{prop}"], cwd=LEAN, timeout=7200)
    text = out + err
    broken = []
    if rc != 0:
        broken = _parse_build_errors(text)
        if not broken:
            broken.append(Broken("build", "lake build", text[-3000:]))
    if rc_d != 0:
        bd = [b for b in _parse_build_errors(out_d + err_d) if b.name not in {x.name for x in broken}]
        broken += bd or ([Broken("build", "s2t_driver", (out_d + err_d)[-2000:])] if rc == 0 else [])
    return rc == 0, broken, text, rc_d == 0


def audit(prop: str, thms: list[str]) -> tuple[dict, list[Broken]]:
    """grep for forbidden constructs + #print axioms of every property theorem."""
    broken = []
    # 1. textual audit of every Lean source in the project (comments stripped)
    for root, _, files in os.walk(os.path.join(LEAN, "S2T")):
        for fn in files:
            if not fn.endswith(".lean"):
                continue
            p = os.path.join(root, fn)
            with open(p, encoding="utf-8") as fh:
                srctxt = fh.read()
            srctxt = re.sub(r"/-.*?-/", lambda m: "\n" * m.group(0).count("\n"), srctxt, flags=re.S)
            for i, line in enumerate(srctxt.splitlines(), 1):
                code = line.split("--", 1)[0]
                if FORBIDDEN.search(code):
                    broken.append(Broken("audit", f"{os.path.relpath(p, LEAN)}:{i}", "forbidden construct: " + line.strip()))
    # 2. axioms
    axioms: dict[str, list[str]] = {}
    if thms:
        os.makedirs(os.path.join(LEAN, ".lake", "audit"), exist_ok=True)
        ap = os.path.join(LEAN, ".lake", "audit", f"Audit_{prop}.lean")
        with open(ap, "w") as fh:
            fh.write(f"import S2T.Props.{prop}\n" + "".join(f"#print axioms {t}\n" for t in thms))
        rc, out, err = sh(["lake", "env", "lean", ap], cwd=LEAN, timeout=1800)
        text = out + err
        for t in thms:
            m = re.search(r"'" + re.escape(t) + r"' depends on axioms: \[([^\]]*)\]", text, re.S)
            if m:
                axioms[t] = sorted(a.strip() for a in m.group(1).replace("\n", " ").split(",") if a.strip())
            elif re.search(r"'" + re.escape(t) + r"' does not depend on any axioms", text):
                axioms[t] = []
            else:
                broken.append(Broken("audit", t, "no #print axioms answer: " + text[-800:]))
                continue
            bad = [a for a in axioms[t] if a not in ALLOWED_AXIOMS]
            if bad:
                broken.append(Broken("audit", t, f"depends on non-standard axioms {bad}"))
    return axioms, broken


def load_known():
    p = os.path.join(VERIF, "known_findings.jsonl")
    res = []
    if os.path.exists(p):
        with open(p) as fh:
            for line in fh:
                line = line.strip()
                if line and not line.startswith("#"):
                    res.append(json.loads(line))
    return res


def write_replay(prop: str, payload: dict) -> str:
    os.makedirs(os.path.join(VERIF, "replays"), exist_ok=True)
    blob = json.dumps(payload, sort_keys=True, default=repr, ensure_ascii=True)
    h = hashlib.sha1(blob.encode()).hexdigest()[:12]
    rel = os.path.join("replays", f"{prop}-{h}.json")
    with open(os.path.join(VERIF, rel), "w") as fh:
        fh.write(blob + "\n")
    return rel


def write_evidence(ctx: Ctx, mod, obligations: int, discharged: int, axioms: dict, violations: int, extra: dict):
    os.makedirs(os.path.join(VERIF, "evidence"), exist_ok=True)
    cov = {
        "obligations": obligations,
        "discharged": discharged,
        "checker_cmd": f"cd /verif/lean && lake build S2T.Props.{ctx.prop} && lake env lean .lake/audit/Audit_{ctx.prop}.lean"
        + ("  && lake env leanchecker S2T.Props." + ctx.prop if ctx.thorough else ""),
        "trusted_base": [
            "Lean 4.33.0 kernel; axioms found by #print axioms: " + ", ".join(sorted({a for v in axioms.values() for a in v}) or ["none"]),
            "tools/translate.py (tables/inventories from /repo source and runtime values)",
            "harness correspondence (this run) + Driver.lean JSON line protocol",
        ] + list(getattr(mod, "TRUSTED", [])),
        "evaluations": ctx.evaluations,
        "distinct_nontrivial": len(ctx.distinct),
        "rule": getattr(mod, "RULE", ""),
        "samples": ctx.samples or [{"note": "no correspondence cases in this run"}],
        "distribution": ctx.dist,
        "axioms": axioms,
    }
    cov.update(extra)
    cov.update(ctx.coverage)
    ev = {
        "property_id": ctx.prop,
        "tier": ctx.tier,
        "seed": ctx.seed,
        "level": "proof",
        "coverage": cov,
        "assumptions": list(getattr(mod, "ASSUMPTIONS", [])) + ctx.assumptions,
        "wall_s": round(time.time() - ctx.t0, 2),
        "violations": violations,
    }
    with open(os.path.join(VERIF, "evidence", f"{ctx.prop}.json"), "w") as fh:
        json.dump(ev, fh, indent=1, sort_keys=True, default=repr, ensure_ascii=True)
        fh.write("\n")


def leanchecker(prop: str) -> list[Broken]:
    rc, out, err = sh(["lake", "env", "leanchecker", f"S2T.Props.{prop}"], cwd=LEAN, timeout=3600)
    if rc != 0:
        return [Broken("audit", "leanchecker", (out + err)[-2000:])]
    return []


def main(argv=None) -> int:
    ap = argparse.ArgumentParser()
    ap.add_argument("prop")
    ap.add_argument("--tier", default=os.environ.get("VERIF_TIER", "quick"), choices=["quick", "thorough"])
    ap.add_argument("--replay")
    ap.add_argument("--no-build", action="store_true", help="(development) skip translate/build/audit")
    a = ap.parse_args(argv)
    prop = a.prop.upper()
    try:
        seed = int(os.environ.get("VERIF_SEED", "0"))
    except ValueError:
        seed = 0
    ctx = Ctx(prop, a.tier, seed)
    # last line of defence: whatever a changed library (or a tool) does, the check ends. A run that is still going after
    # 40 min (quick) / 3 h (thorough) — the slowest check takes 1 min / 10 min — is infrastructure trouble: exit 2, no verdict.
    import threading

    def _watchdog():
        import faulthandler
        print(f"INFRA-ERROR property={prop} watchdog: the run did not end within its time budget (stacks on stderr)", flush=True)
        try:
            faulthandler.dump_traceback(file=sys.stderr)
        finally:
            os._exit(2)
    _wd = threading.Timer(2400 if a.tier == "quick" else 10800, _watchdog)
    _wd.daemon = True
    _wd.start()
    mod = importlib.import_module(f"props.{prop.lower()}")

    if a.replay:
        with open(a.replay) as fh:
            payload = json.load(fh)
        ok, msg = mod.replay(ctx, payload)
        print(("REPLAY-HOLDS " if ok else "REPLAY-FAILS ") + msg)
        return 0 if ok else 1

    broken: list[Broken] = []
    violations: list[Violation] = []
    axioms: dict = {}
    thms: list[str] = []
    try:
        if not a.no_build:
            rep, b = translate(list(getattr(mod, "GEN", [])))
            broken += b
            sh(["python3", os.path.join(VERIF, "tools", "gen_driver.py")])
            ok, b, text, drv_ok = lake_build(prop)
            # The model driver imports the generated files of EVERY property, this run regenerated only its own. A
            # generated file of another property that does not build was written by an earlier run against a different
            # state of the source (e.g. a change that has since been reverted): regenerate exactly those from the
            # current source and build once more, so that a stale file is never reported as this property's obligation.
            own = set(getattr(mod, "GEN", []))
            stale = sorted({m.group(1) for x in b for m in [re.match(r"S2T/Gen/(\w+)\.lean", x.name)] if m} - own)
            if stale:
                rep2, b2 = translate(stale)
                sh(["python3", os.path.join(VERIF, "tools", "gen_driver.py")])
                ok, b, text, drv_ok = lake_build(prop)
                b += [x for x in b2 if x.name not in {y.name for y in b}]
            broken += b
            thms, examples = theorems_of(prop)
            if ok:
                axioms, b = audit(prop, thms)
                broken += b
                if ctx.thorough:
                    broken += leanchecker(prop)
            driver_ok = os.path.exists(DRIVER) and drv_ok
        else:
            thms, examples = theorems_of(prop)
            driver_ok = os.path.exists(DRIVER)
        # inventory / closed-world obligations decided in python against generated data (if any)
        if hasattr(mod, "obligations"):
            broken += mod.obligations(ctx)
        # correspondence: model vs implementation
        if driver_ok:
            res = mod.correspondence(ctx)
            broken += res.get("broken", [])
            violations += res.get("violations", [])
        else:
            broken.append(Broken("build", "driver", "model driver not available (build failed)"))
        # property oracle on the real code: always run on the committed witnesses of known findings;
        # full search only when something broke
        if hasattr(mod, "known_witnesses"):
            violations += mod.known_witnesses(ctx)
        if broken:
            found = []
            if hasattr(mod, "search"):
                try:
                    found = mod.search(ctx, broken) or []
                except Infra:
                    raise
                except Exception:
                    ctx.notes.append("search crashed: " + traceback.format_exc()[-1500:])
            open_keys = {k["key"] for k in load_known() if k.get("property") == prop and k.get("status", "open") == "open"}
            violations += found
            # a concrete new violation from the correspondence's own oracles explains the break as well as one from search
            fresh = [v for v in violations if v.key not in open_keys and v.found_input]
            if not fresh:  # nothing new explains the broken obligation: it stays reported
                violations.append(Violation(
                    key="unproved:" + ",".join(sorted({b.name for b in broken}))[:300],
                    what="proof obligation / correspondence no longer checks: " + "; ".join(f"{b.kind}:{b.name}" for b in broken[:6]),
                    replay={"broken": [b.as_dict() for b in broken]},
                    found_input=False))
    except Infra as e:
        print(f"INFRA-ERROR property={prop} {e}")
        return 2
    except Exception as e:  # a crash of the machinery itself is never a verdict
        tb = traceback.format_exc().strip().splitlines()
        print(f"INFRA-ERROR property={prop} harness crashed: {type(e).__name__}: {e} @ {' | '.join(x.strip() for x in tb[-6:-1])[:600]}")
        return 2

    known = [k for k in load_known() if k.get("property") == prop and k.get("status", "open") == "open"]
    known_keys = {k["key"] for k in known}
    real = []
    printed = set()
    for v in violations:
        if v.key in known_keys:
            if v.key not in printed:
                print(f"KNOWN-FINDING: property={prop} {v.key}: {v.what}")
                printed.add(v.key)
        else:
            real.append(v)
    seen = set()
    for v in real:
        if v.key in seen:
            continue
        seen.add(v.key)
        payload = {"property": prop, "key": v.key, "what": v.what, "seed": ctx.seed, "tier": ctx.tier,
                   "replay": v.replay, "broken": [b.as_dict() for b in broken]}
        rel = write_replay(prop, payload)
        tail = "" if v.found_input else " no-failing-input-found"
        print(f"VIOLATION property={prop} replay={rel} key={v.key} :: {v.what[:300]}{tail}")
    n_thm = len(thms)
    obligations = n_thm + len(getattr(mod, "EXTRA_OBLIGATIONS", []))
    bad_thm = {b.name for b in broken if b.kind in ("theorem", "audit", "build", "translate", "inventory")}
    discharged = obligations if not bad_thm else max(0, obligations - len(bad_thm))
    write_evidence(ctx, mod, max(obligations, 1), discharged if obligations else 1, axioms, len(seen),
                   {"theorems": thms, "broken": [b.as_dict() for b in broken], "notes": ctx.notes,
                    "known_findings_reported": sorted(printed)})
    if real:
        return 1
    print(f"OK property={prop} tier={ctx.tier} seed={ctx.seed} theorems={n_thm} cases={ctx.evaluations} "
          f"distinct={len(ctx.distinct)} wall={time.time()-ctx.t0:.1f}s")
    return 0


if __name__ == "__main__":
    sys.exit(main())
