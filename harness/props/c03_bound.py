"""C03, unit boundaries cut out of one shared carrier (helper module of props/c03.py).

mbox   — the carrier is the byte string of the mailbox; the boundaries are the "From " separator lines of the file as
         stored.  Generated: mailboxes as a WRITER produces them (mboxo / mboxrd / mboxcl: every message line that
         could be taken for a separator is quoted, indented, re-cased, or simply does not start with "From "), every
         message line a token line, delimiter look-alikes at every position of the body (first, last, only, repeated).
pdf    — the carrier is the object graph; pages share content streams, resource dictionaries, fonts, forms and
         page-tree nodes in every combination (builders/c03_pdf.py), the text of page k is known by construction.

`corr_*`  : correspondence with the Lean model (reader = map parse . mboxSplit on the RAW bytes; read_pdf = pdfUnits of
            the page texts extracted from each page IN ISOLATION, fresh reader per page).
`*_check` : the property oracle on the real code (tokens; no model, no second parser).
"""
from __future__ import annotations

import email
import io
import re

from run import Broken

from builders.c03_pdf import build_pdf, gen_pdf_spec, shown

# ----------------------------------------------------------------------------------------------------------- mbox
SEPS = ["From a@b.c Mon Jan  1 00:00:00 2024", "From MAILER-DAEMON Thu Feb 29 23:59:59 2024", "From s9@x.org Tue Jan  2 11:00:00 2024",
        "From x 1999", "From \"A B\"@x.org Fri Dec 31 23:59:59 1999 +0000 2024"]


def lookalikes(tok: str) -> list[str]:
    """message lines that resemble a separator line but are not one in ANY mbox dialect: they do not start with "From "
    (mboxrd / mboxo quoting, indentation, case, header syntax).  Each carries `tok` and ends like a separator does."""
    return [f">From {tok}@x.org Mon Jan  1 00:00:00 2024",          # mboxrd-quoted copy of a real separator line
            f">From now on the sync of {tok} is in room 2024",     # mboxo / mboxrd-quoted prose
            f">>From {tok} twice quoted 2024", f">>>From {tok} 2024",
            f"> From {tok} 2024", f">From: {tok}@x.org 2024",
            f" From {tok} indented 2024", f"\tFrom {tok} 2024",
            f"from {tok} lower case 2024", f"FROM {tok} 2024", f"Fromage {tok} 2024", f"From: {tok}@x.org 2024",
            f"-From {tok} 2024", f"|From {tok} 2024", f"=46rom {tok} 2024"]


PLAIN_LINES = ["{t}", "{t} plain text", "see {t} in 2024", "", "-- ", "{t} From inside 2024"]


def gen_mbox_tok(rng, wild=True):
    """{"data": latin-1 text of a well-formed mailbox, "msgs": [[tokens of message k]]} — 1..5 messages, every body line a
    token line; look-alike lines are drawn for every position of a body."""
    m = rng.randint(1, 5)
    nl = "\r\n" if rng.random() < 0.25 else "\n"
    parts, msgs = [], []
    for i in range(1, m + 1):
        toks, body = [], []
        nlines = rng.choice([1, 1, 2, 3, 4])
        for j in range(nlines):
            t = f"TOK{i}x{j}"
            r = rng.random()
            if r < 0.5:
                line = rng.choice(lookalikes(t))
            else:
                line = rng.choice(PLAIN_LINES).format(t=t)
            if t in line:
                toks.append(t)
            body.append(line)
        if not toks:                    # keep every message non-empty and identifiable
            toks.append(f"TOK{i}x9")
            body.append(f"TOK{i}x9")
        hdr = [f"From: s{i}@x.org", f"Date: Mon, {rng.randint(1, 28)} Jan 2024 00:00:0{i} +0000", f"Message-ID: <m{rng.randint(0, 2)}@x.org>", f"Subject: s{rng.choice([i, 0])}"]
        if wild:
            rng.shuffle(hdr)
        blank_tail = rng.choice(["", "", nl, nl + nl])
        parts.append(rng.choice(SEPS) + nl + nl.join(hdr) + nl + nl + nl.join(body) + nl + blank_tail)
        msgs.append(toks)
    return {"data": "".join(parts), "msgs": msgs}


def mbox_tok_check(d):
    """the property on one written mailbox: one result per message, in file order, each one unit numbered 1 that holds
    every token of its own message and none of another; full text = trimmed join of the unit texts. -> [(key, what)]"""
    from sharepoint2text.parsing.extractors.mail.mbox_email_extractor import read_mbox_format_mail
    data, msgs = d["data"].encode("latin-1"), d["msgs"]
    res, err = [], None
    try:
        for r in read_mbox_format_mail(io.BytesIO(data)):
            res.append(r)
    except Exception as e:  # noqa: BLE001
        err = f"{type(e).__name__} (cause {getattr(e, '__cause__', None)!r})"
    got = []
    for r in res:
        us = list(r.iterate_units())
        got.append(([u.get_metadata().unit_number for u in us], "\n".join(u.get_text() for u in us), r.get_full_text()))
    found = [sorted(set(re.findall(r"TOK\d+x\d+", t))) for _, t, _ in got]
    shape = f"mailbox of {len(msgs)} messages with tokens {msgs}"
    if err is not None or len(res) != len(msgs):
        return [("mbox.units-do-not-mirror-messages", f"{shape}: {len(res)} results with tokens {found}" + (f", then raised {err}" if err else ""))]
    for k, ((ns, text, full), want) in enumerate(zip(got, msgs)):
        if ns != [1]:
            return [("mbox.units-do-not-mirror-messages", f"{shape}: message {k + 1} has unit numbers {ns}")]
        if found[k] != sorted(set(want)):
            return [("mbox.units-do-not-mirror-messages", f"{shape}: message {k + 1} holds tokens {found[k]}")]
        if full != text.strip():
            return [("mbox.full-text-not-join-of-units", f"{shape}: message {k + 1} full text {full!r:.80} is not the trimmed unit text")]
    return []


MBOX_ANY_LINES = ["x", "", "TOK", "From inside 2024", "From q 1234\r", ">From a@b 2024", ">>From a 2024", " From a 2024", "From a 202", "From  a 2024", "from a 2024",
                  "From a 2024 ", "Subject: late", "Date: Mon, 1 Jan 2024 00:00:00 +0000", "\r", "From a@b.c Mon Jan  1 00:00:00 2024"]


def gen_mbox_any(rng):
    """any byte string made of mailbox-like lines (well-formed or not): the model predicts the split of whatever it is."""
    n = rng.randint(0, 4)
    nl = "\r\n" if rng.random() < 0.25 else "\n"
    out = []
    if rng.random() < 0.15:
        out.append(rng.choice(["junk", ">From pre 2024", ""]))
    for i in range(n):
        out.append(rng.choice(SEPS + [">From a@b 2024", "From a@b 20245"]))
        if rng.random() < 0.85:
            out += [f"Subject: s{i}"] + ([f"Date: Mon, {i + 1} Jan 2024 00:00:00 +0000"] if rng.random() < 0.8 else []) + [""]
        for _ in range(rng.randint(0, 4)):
            out.append(rng.choice(MBOX_ANY_LINES))
    data = nl.join(out) + (nl if rng.random() < 0.8 else "")
    return data


def _ser_mail(m):
    return [m.subject, m.body_plain, m.body_html, m.metadata.message_id, m.metadata.date]


def corr_mbox_read(ctx, broken, s1):
    """read_mbox_format_mail(data) == [parse(piece) for piece in MODEL split of the raw data] (results up to the first
    message the parser rejects, and whether one was rejected)."""
    from sharepoint2text.parsing.extractors.mail import mbox_email_extractor as MB
    bad = 0
    reqs, datas = [], []
    for i in range(ctx.n(250, 4000)):
        data = gen_mbox_tok(ctx.rng)["data"] if i % 2 else gen_mbox_any(ctx.rng)
        datas.append(data)
        reqs.append({"op": "c03.mbox", "data": data})
    for data, w in zip(datas, ctx.drive(reqs)):
        got, graised = [], False
        try:
            for r in MB.read_mbox_format_mail(io.BytesIO(data.encode("latin-1"))):
                got.append(_ser_mail(r))
        except Exception:  # noqa: BLE001
            graised = True
        want, wraised = [], False
        if "msgs" not in w:
            want = None
        else:
            for piece in w["msgs"]:
                try:
                    want.append(_ser_mail(MB.parse_email_message(email.message_from_bytes(s1(piece).encode("latin-1")))))
                except Exception:  # noqa: BLE001
                    wraised = True
                    break
        ctx.case(("mbox-read", data))
        ctx.count("mbox-read/" + ("raised" if graised else f"messages={min(len(got), 4)}") + ("/lookalike" if re.search(r"(?m)^[>\s].*From .*\d{4}\r?$", data) else ""))
        if want is None or got != want or graised != wraised:
            bad += 1
            if bad <= 8:
                broken.append(Broken("correspondence", "c03.mbox_read",
                                     f"read_mbox_format_mail gave {len(got)} results{' then raised' if graised else ''}: {got!r:.300}; "
                                     f"parsing the model's split of the raw bytes gives {(len(want) if want is not None else w)!r}{' then raises' if wraised else ''}: {want!r:.300}",
                                     case={"mbox_any": data}))
    return bad


# ----------------------------------------------------------------------------------------------------------- pdf
def pdf_family():
    """every 2-page combination of: mechanism x placement of each page's resources x form of /Contents, the content
    stream being ONE shared object (54 documents), plus equal-bytes copies and a genuinely repeated page."""
    out = []
    for how in ("form", "font"):
        for r1 in ("inline", "ref", "inherit"):
            for r2 in ("inline", "ref", "inherit"):
                for cf in ("ref", "array", "refarray"):
                    out.append({"pages": [{"how": how, "k": 1, "share": "object", "res": r1, "sub": "inline", "contents": cf},
                                          {"how": how, "k": 2, "share": "object", "res": r2, "sub": "inline", "contents": cf}], "tree": "flat"})
        out.append({"pages": [{"how": how, "k": 1, "share": "bytes", "res": "inline", "sub": "ref", "contents": "ref"},
                              {"how": how, "k": 2, "share": "bytes", "res": "inline", "sub": "ref", "contents": "ref"},
                              {"how": "repeat", "of": 0}, {"how": "empty", "empty": "nocontents"},
                              {"how": how, "k": 5, "share": "bytes", "res": "inherit", "sub": "inline", "contents": "ref"}], "tree": "nested"})
    return out


def _pdf_units(spec):
    from sharepoint2text.parsing.extractors.pdf.pdf_extractor import read_pdf
    res = next(read_pdf(io.BytesIO(build_pdf(spec))))
    return res, [(u.get_metadata().unit_number, u.get_text()) for u in res.iterate_units()], res.get_full_text()


def pdf_check(spec):
    """the property on one generated PDF: one unit per page, numbered by page position, unit k holding exactly the tokens
    page k shows; full text = trimmed newline-join of the unit texts. -> [(key, what)]"""
    want = shown(spec)
    try:
        _, us, full = _pdf_units(spec)
    except Exception as e:  # noqa: BLE001
        return [("pdf.raises", f"read_pdf raised {type(e).__name__} (cause {getattr(e, '__cause__', None)!r}) on a generated {len(want)}-page PDF")]
    desc = [(p["how"], p.get("share"), p.get("res"), p.get("contents")) if p["how"] != "repeat" else ("repeat", p["of"] + 1) for p in spec["pages"]]
    if [n for n, _ in us] != list(range(1, len(want) + 1)):
        return [("pdf.units-do-not-mirror-pages", f"pdf with {len(want)} pages {desc} gave unit numbers {[n for n, _ in us]}")]
    got = [re.findall(r"TOK\d+", t) for _, t in us]
    if got != want:
        return [("pdf.units-do-not-mirror-pages", f"pdf whose pages show {want} (pages: {desc}; pages with the same mechanism and share=object "
                                                  f"reference ONE content stream, each with its own /Resources) gave units with {got}")]
    if full != "\n".join(t for _, t in us).strip():
        return [("pdf.full-text-not-join-of-units", f"pdf: get_full_text()={full!r:.80} is not the trimmed newline-join of the unit texts")]
    return []


def corr_pdf(ctx, broken, diff, impl, ser):
    """read_pdf(doc).units == model units of [text of page k extracted in isolation (fresh reader per page)]."""
    from sharepoint2text.parsing.extractors.pdf import pdf_extractor as PE
    bad = 0
    specs = pdf_family() + [gen_pdf_spec(ctx.rng) for _ in range(ctx.n(120, 2500))]
    reqs, keep = [], []
    for spec in specs:
        data = build_pdf(spec)
        try:
            res = next(PE.read_pdf(io.BytesIO(data)))
            req = ser(res)
            iso = []
            for k in range(len(res.pages)):
                page = PE._open_pdf_reader(io.BytesIO(data)).pages[k]
                iso.append(PE._extract_text_with_spacing(page)[0])
            req["pages"] = [{"text": t, "ni": p["ni"], "nt": p["nt"]} for t, p in zip(iso, req["pages"])]
            if len(iso) != len(shown(spec)):
                raise ValueError(f"{len(iso)} pages for a {len(shown(spec))}-page document")
        except Exception as e:  # noqa: BLE001
            bad += 1
            if bad <= 8:
                broken.append(Broken("correspondence", "c03.pdf_read", f"generated PDF could not be read: {type(e).__name__}: {e}", case={"pdf": spec}))
            continue
        keep.append((spec, res, req))
        reqs.append({"op": "c03.units", **req})
    for (spec, res, req), w in zip(keep, ctx.drive(reqs)):
        ctx.case(("pdf", repr(spec)))
        pages = spec["pages"]
        hows = [p["how"] for p in pages if p.get("share") == "object" and p["how"] in ("form", "font")]
        shared = len(set(hows)) < len(hows)
        ctx.count(f"pdf-read/pages={min(len(pages), 4)}{'+' if len(pages) > 4 else ''}/" + ("shared-stream" if shared else "private-streams"))
        d = diff(req, impl(res, req), w)
        if d:
            bad += 1
            if bad <= 8:
                broken.append(Broken("correspondence", "c03.pdf_read", "read_pdf vs. pages extracted in isolation: " + d, case={"pdf": spec}))
    return bad


# ----------------------------------------------------------------------------------------------------------- oracle
def e2e(rng, n):
    """[(key, what, replay)] — written mailboxes and shared-object PDFs through the real readers."""
    out = []
    for spec in pdf_family():
        for key, what in pdf_check(spec):
            out.append((key, what, {"pdf": spec}))
    for _ in range(n * 4):
        spec = gen_pdf_spec(rng)
        for key, what in pdf_check(spec):
            out.append((key, what, {"pdf": spec}))
        d = gen_mbox_tok(rng)
        for key, what in mbox_tok_check(d):
            out.append((key, what, {"mbox_tok": d}))
    return out + e2e_more(rng, n)


def shrink_mbox(d):
    """smaller failing mailbox (drop whole messages, then single body lines) — keeps the replay readable."""
    def fails(x):
        return bool(mbox_tok_check(x))
    if not fails(d):
        return d
    nl = "\r\n" if "\r\n" in d["data"] else "\n"
    parts = re.split(r"(?m)^(?=From \S)", d["data"])
    parts = [p for p in parts if p]
    if len(parts) != len(d["msgs"]):
        return d
    cur_parts, cur_msgs = parts, d["msgs"]
    changed = True
    while changed:
        changed = False
        for i in range(len(cur_parts)):
            if len(cur_parts) > 1:
                cand = {"data": "".join(cur_parts[:i] + cur_parts[i + 1:]), "msgs": cur_msgs[:i] + cur_msgs[i + 1:]}
                if fails(cand):
                    cur_parts, cur_msgs = cur_parts[:i] + cur_parts[i + 1:], cur_msgs[:i] + cur_msgs[i + 1:]
                    changed = True
                    break
    return {"data": "".join(cur_parts), "msgs": cur_msgs}


def shrink_pdf(spec):
    def fails(s):
        return bool(pdf_check(s))
    if not fails(spec):
        return spec
    pages = list(spec["pages"])
    changed = True
    while changed and len(pages) > 1:
        changed = False
        for i in range(len(pages)):
            if any(p["how"] == "repeat" and p["of"] >= i for p in pages[i + 1:]):
                continue
            cand = dict(spec, pages=pages[:i] + pages[i + 1:])
            if fails(cand):
                pages = cand["pages"]
                changed = True
                break
    return dict(spec, pages=pages)


# ----------------------------------------------------------------------------------------------------------- rtf
# text that resembles the in-band page delimiter (\page / \sbkpage) but is not one: an escaped backslash in front of the
# word, the backslash spelled \'5c or \u92?, another control word with the same prefix, the delimiter inside a skipped
# destination.  None of them starts a page; a reader that normalises escapes BEFORE scanning would cut there.
RTF_LOOKALIKES = [r"\\page ", r"\'5cpage ", r"\u92?page ", r"\pagebb ", r"{\*\foo \page}", r"\\sbkpage ", r"\'5csbkpage ", r"{\fonttbl \page}",
                  r"\pagex ", r"\{\\page\}", r"\\pagebreak "]


def gen_rtf_look(rng):
    """{"rtf": text, "toks": [[tokens of page k]]} — 2..5 pages separated by genuine \\page / \\sbkpage, look-alikes in between the tokens."""
    n = rng.randint(2, 5)
    body, toks = [], []
    for i in range(1, n + 1):
        parts, ts = [], []
        for j in range(rng.randint(1, 3)):
            parts.append(f"TOK{i}x{j} ")
            ts.append(f"TOK{i}x{j}")
            if rng.random() < 0.7:
                parts.append(rng.choice(RTF_LOOKALIKES))
        if rng.random() < 0.3:
            parts.insert(0, rng.choice(RTF_LOOKALIKES))
        body.append("".join(parts))
        toks.append(ts)
    rtf = "{\\rtf1\\ansi " + body[0] + "".join(rng.choice(["\\page ", "\\page ", "\\sect\\sbkpage "]) + b for b in body[1:]) + "}"
    return {"rtf": rtf, "toks": toks}


def rtf_look_check(d):
    from sharepoint2text.parsing.extractors.ms_legacy.rtf_extractor import read_rtf
    try:
        res = next(read_rtf(io.BytesIO(d["rtf"].encode("latin-1"))))
        us = [(u.get_metadata().unit_number, re.findall(r"TOK\d+x\d+", u.get_text())) for u in res.iterate_units()]
    except Exception as e:  # noqa: BLE001
        return [("rtf.raises", f"read_rtf raised {type(e).__name__} on {d['rtf']!r:.200}")]
    want = [(k + 1, t) for k, t in enumerate(d["toks"])]
    if us != want:
        return [("rtf.page-boundary-moved", f"rtf {d['rtf']!r:.300} has {len(want)} pages with tokens {d['toks']} (text that merely looks like \\page is "
                                            f"page text) but gave units {us}")]
    return []


# ----------------------------------------------------------------------------------------------------------- parts that look alike
def gen_dup_doc(rng):
    """documents whose parts cannot be told apart by a name / an id / a reference: ODP / ODS pages and sheets with the same
    name, a PPTX whose sldIdLst shows one slide part several times (through the same or through different relationships)."""
    kind = rng.choice(["odp", "odp", "ods", "pptx"])
    k = rng.randint(2, 5)
    if kind == "pptx":
        m = rng.randint(1, 3)
        files = {f"ppt/slides/slide{i}.xml": f"TOK{i}" for i in range(1, m + 1)}
        rels, ids = [], []
        for j in range(k):
            i = rng.randint(1, m)
            rid = f"rId{i}" if rng.random() < 0.5 else f"rIdx{j}"
            if not any(r[0] == rid for r in rels):
                rels.append([rid, f"slides/slide{i}.xml", "SLIDE"])
            ids.append(rid)
        return {"dup": "pptx", "files": files, "ids": ids, "rels": rels}
    names = [rng.choice(["Dup", "Dup", "page1", ""]) for _ in range(k)]
    items = [{"name": names[i], "id": rng.randint(1, 3), "part": i + 1, "text": rng.choice([f"TOK{i + 1}", f"TOK{i + 1}", ""]), "hidden": None} for i in range(k)]
    return {"dup": "seq", "seq_doc": {"kind": kind, "items": items}}


def dup_doc_check(d):
    from props import c03
    if d["dup"] == "pptx":
        rels = [(a, b, c03.SLIDE_T) for a, b, _ in d["rels"]] + [("rIdM", "slideMasters/slideMaster1.xml", c03.MASTER_T)]
        return c03.pptx_case_check(d["files"], d["ids"], rels)
    return c03.seq_doc_check(d["seq_doc"])


# ----------------------------------------------------------------------------------------------------------- histories
def _retoken(x, f):
    """the same document with every token TOKn renamed to TOK f(n) (structure, names, ids, object numbers unchanged)."""
    if isinstance(x, str):
        return re.sub(r"TOK(\d+)", lambda m: "TOK" + str(f(int(m.group(1)))), x)
    if isinstance(x, list):
        return [_retoken(v, f) for v in x]
    if isinstance(x, dict):
        return {k: _retoken(v, f) for k, v in x.items()}
    return x


def twin(rep, shift):
    """a structurally identical document with different text: what a second file of the same template looks like."""
    if "pdf" in rep:
        sp = rep["pdf"]
        return {"pdf": dict(sp, pages=[dict(p, k=(p["k"] - 1 + shift) % 9 + 1) if "k" in p else dict(p) for p in sp["pages"]])}
    if "carrier_doc" in rep:       # tokens TOK<slide>x<n>: the slide stays, the text changes
        def f(x):
            if isinstance(x, str):
                return re.sub(r"TOK(\d+)x(\d+)", lambda m: f"TOK{m.group(1)}x{int(m.group(2)) + 100 * shift}", x)
            if isinstance(x, list):
                return [f(v) for v in x]
            if isinstance(x, dict):
                return {k: f(v) for k, v in x.items()}
            return x
        return f(rep)
    return _retoken(rep, lambda n: n + 10 * shift)


def single_check(rep):
    from props import c03
    if "pdf" in rep:
        return pdf_check(rep["pdf"])
    if "mbox_tok" in rep:
        return mbox_tok_check(rep["mbox_tok"])
    if "rtf_look" in rep:
        return rtf_look_check(rep["rtf_look"])
    if "dup" in rep:
        return dup_doc_check(rep["dup"])
    if "seq_doc" in rep:
        return c03.seq_doc_check(rep["seq_doc"])
    if "carrier_doc" in rep:
        from props import c03_carrier
        return c03_carrier.check(rep["carrier_doc"])
    return []


def history_check(seq):
    """the documents of `seq` read one after the other in this process; each must satisfy the property on its own."""
    for i, rep in enumerate(seq):
        r = single_check(rep)
        if r:
            key, what = r[0]
            if i:
                return [(key.split(".")[0] + ".unit-text-depends-on-earlier-document", f"document {i + 1} of {len(seq)} read in one process (a twin of document 1: same structure, other text): {what}")]
            return [(key, what)]
    return []


def gen_twin_doc(rng, kind=None):
    from props import c03
    if kind in ("xlsx", "ods", "odp"):
        d = c03.gen_seq_doc(rng)
        for _ in range(40):
            if d["kind"] == kind and any(it["text"] for it in d["items"]):
                break
            d = c03.gen_seq_doc(rng)
        return {"seq_doc": d}
    if kind in ("carrier-pptx", "carrier-odp"):
        from props import c03_carrier
        return {"carrier_doc": c03_carrier.gen(rng, kind.split("-")[1])}
    kind = kind or rng.choice(["pdf", "seq", "seq", "mbox", "dup"])
    if kind == "pdf":
        return {"pdf": gen_pdf_spec(rng, wild=False)}
    if kind == "seq":
        return {"seq_doc": c03.gen_seq_doc(rng)}
    if kind == "mbox":
        return {"mbox_tok": gen_mbox_tok(rng)}
    return {"dup": gen_dup_doc(rng)}


def e2e_more(rng, n):
    out = []
    for _ in range(n * 3):
        d = gen_rtf_look(rng)
        for key, what in rtf_look_check(d):
            out.append((key, what, {"rtf_look": d}))
        d = gen_dup_doc(rng)
        for key, what in dup_doc_check(d):
            out.append((key, what, {"dup": d}))
    for kind in ["pdf", "xlsx", "ods", "odp", "mbox", "dup", "carrier-pptx", "carrier-odp"] + [None] * (n * 2):      # one twin pair of every kind on every run
        a = gen_twin_doc(rng, kind)
        seq = [a, twin(a, rng.randint(1, 3))]
        for key, what in history_check(seq):
            out.append((key, what, {"history": seq} if "earlier-document" in key else seq[0]))
    return out
