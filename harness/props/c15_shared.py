"""C15 — documents that SHARE structure, extractions that are SUSPENDED, caches found at run time.

Three classes of process histories that the fixtures never contain, exercised on every run (all model-free: they judge the
property statement on the real code):

1. TEMPLATE FAMILIES (`family_docs`, `run_family_sequences`).  A memo / intern table keyed by a PART of a document (a table row,
   a paragraph, a style, a shared string, a member name, a file name, a prefix + length) is invisible as long as no two
   documents of a process agree on that part.  Each family is a handful of small generated documents that agree byte for byte
   on such parts while the CONTEXT of the part differs (the shared header row sits in a ragged table in one document and in a
   rectangular one in the other; the same file / member name carries different content; equal length and equal first 4 kB).
   Every family is extracted in a forked child of the still pristine harness process in an order that makes every ordered pair
   adjacent; each result must have the digest the document has alone in a fresh process, AND the result objects handed out
   earlier are digested again after the whole sequence (a result that shares a mutable object with a process-wide cache
   changes retroactively).
2. SUSPENDED GENERATORS (`oracle_suspended`).  Every extractor is a generator: a consumer that has received a result but has
   not resumed the generator yet is 'concurrent work' of the most ordinary kind (`for r in read_file(a): extract(b)`).  While
   the generator of document A is suspended at each of its yields, document B (A itself, a sibling of its type, a document of
   the type of the result just yielded, e.g. a workbook while an archive that contains a workbook is being iterated) is extracted
   (a) in the same thread and (b) in another thread; B must FINISH and equal its isolated digest.  The whole experiment runs in
   a forked child watched by the parent: a case that does not report within the deadline is killed and reported as the
   violation 'does not finish' — the check itself can never hang, whatever lock the library holds across a yield.
3. CACHED CALLABLES FOUND AT RUN TIME (`CacheRecorder`, `check_cached_callables`).  Every functools cache wrapper reachable as a
   module attribute or as a (class/static) method of a class of the package is wrapped by a recorder while real documents are
   extracted; afterwards, for every recorded call: the object the cache handed out still has the value it had when it was
   handed out, and cached(args) == uncached(args) after the real history (S2T.Cache.lruGet / S2T.CacheAlias are the models).
"""
from __future__ import annotations

import gc
import hashlib
import io
import json
import os
import select
import signal
import sys
import threading
import time
import zipfile
import tarfile


# =============================================================================================
#  1. template families
# =============================================================================================
def _rtf(title, rows_groups, paras=()):
    """rows_groups: list of tables, each a list of rows, each a list of cell texts"""
    out = [r"{\rtf1\ansi\deff0{\fonttbl{\f0 Arial;}}", r"\pard " + title + r"\par"]
    for p in paras:
        out.append(r"\pard " + p + r"\par")
    for table in rows_groups:
        for row in table:
            n = len(row)
            out.append(r"\trowd" + "".join(r"\cellx%d" % (6000 * (i + 1) // n) for i in range(n)) + " "
                       + "".join(c + r"\cell " for c in row).rstrip() + r"\row")
        out.append(r"\pard\par")
    return ("\n".join(out) + "}").encode("ascii")


def _html(title, tables, paras=()):
    body = "".join("<p>%s</p>" % p for p in paras)
    for table in tables:
        body += "<table>" + "".join("<tr>" + "".join("<td>%s</td>" % c for c in row) + "</tr>" for row in table) + "</table>"
    return ("<html><head><title>%s</title></head><body><h1>%s</h1>%s</body></html>" % (title, title, body)).encode()


def _xlsx(sheets):
    """sheets: [(name, rows)]; fixed document properties so that two builds are byte-stable enough for a digest"""
    import datetime
    from openpyxl import Workbook
    wb = Workbook()
    wb.remove(wb.active)
    for name, rows in sheets:
        ws = wb.create_sheet(name)
        for row in rows:
            ws.append(row)
    wb.properties.created = datetime.datetime(2020, 1, 2, 3, 4, 5)
    wb.properties.modified = datetime.datetime(2020, 1, 2, 3, 4, 5)
    buf = io.BytesIO()
    wb.save(buf)
    return buf.getvalue()


def _zip(members):
    buf = io.BytesIO()
    with zipfile.ZipFile(buf, "w") as zf:
        for name, data in members:
            zi = zipfile.ZipInfo(name, date_time=(2020, 1, 2, 3, 4, 6))
            zf.writestr(zi, data)
    return buf.getvalue()


def _tar(members):
    buf = io.BytesIO()
    with tarfile.open(fileobj=buf, mode="w") as tf:
        for name, data in members:
            ti = tarfile.TarInfo(name)
            ti.size = len(data)
            ti.mtime = 1577934245
            tf.addfile(ti, io.BytesIO(data))
    return buf.getvalue()


def _eml(subject, body, attachments=()):
    b = "XBOUND42"
    head = ("From: a@example.com\r\nTo: b@example.com\r\nSubject: %s\r\nDate: Mon, 01 Jan 2024 00:00:00 +0000\r\n"
            "Message-ID: <%s@example.com>\r\nMIME-Version: 1.0\r\n" % (subject, hashlib.sha1(subject.encode()).hexdigest()[:10]))
    if not attachments:
        return (head + "Content-Type: text/plain; charset=\"utf-8\"\r\n\r\n" + body + "\r\n").encode()
    import base64
    parts = ["--" + b + "\r\nContent-Type: text/plain; charset=\"utf-8\"\r\n\r\n" + body + "\r\n"]
    for name, ctype, data in attachments:
        parts.append("--" + b + "\r\nContent-Type: %s; name=\"%s\"\r\nContent-Disposition: attachment; filename=\"%s\"\r\n"
                     "Content-Transfer-Encoding: base64\r\n\r\n%s\r\n" % (ctype, name, name, base64.encodebytes(data).decode().replace("\n", "\r\n")))
    return (head + "Content-Type: multipart/mixed; boundary=\"%s\"\r\n\r\n" % b + "".join(parts) + "--" + b + "--\r\n").encode()


HEADER = ["Name", "Value"]
PARA = "Shared paragraph of the template with a footnote marker and a date 2020-01-02."


def family_docs(outdir):
    """-> (docs [(name, path)], families {family: [names]}); deterministic (no seed): replays regenerate the same bytes"""
    docs, fams = [], {}

    def put(fam, rel, data):
        p = os.path.join(outdir, fam, rel)
        os.makedirs(os.path.dirname(p), exist_ok=True)
        with open(p, "wb") as fh:
            fh.write(data)
        name = "family/" + fam + "/" + rel
        docs.append((name, p))
        fams.setdefault(fam, []).append(name)
        return data

    # --- tables: the same row markup in a rectangular and in a ragged table (longer row after / before / in another table)
    rect = [HEADER, ["beta", "2"]]
    ragged_after = [HEADER, ["alpha", "1", "note"]]
    ragged_before = [["gamma", "3", "remark", "extra"], HEADER]
    empty_rows = [HEADER, ["", ""], ["delta", "4"]]
    for fam, mk, ext in (("rtf-table", _rtf, "rtf"), ("html-table", _html, "html")):
        put(fam, "rect." + ext, mk("Summary", [rect], [PARA]))
        put(fam, "ragged_after." + ext, mk("Report", [ragged_after], [PARA]))
        put(fam, "ragged_before." + ext, mk("Report 2", [ragged_before], [PARA, PARA]))
        put(fam, "two_tables." + ext, mk("Both", [ragged_after, empty_rows], []))
    r_rect = put("xlsx-sheet", "rect.xlsx", _xlsx([("Data", rect)]))
    r_rag = put("xlsx-sheet", "ragged.xlsx", _xlsx([("Data", ragged_after)]))
    put("xlsx-sheet", "two_sheets.xlsx", _xlsx([("Data", ragged_before), ("Other", empty_rows)]))
    # --- plain text formats: same header line, ragged / rectangular rows
    put("csv-rows", "rect.csv", b"Name,Value\nbeta,2\n")
    put("csv-rows", "ragged.csv", b"Name,Value\nalpha,1,note\n")
    put("csv-rows", "rect.tsv", b"Name\tValue\nbeta\t2\n")
    # --- the same file name with different content / the same content under different names
    a = _rtf("Quarterly", [rect], ["first version"])
    b = _rtf("Quarterly", [ragged_after], ["second version, another table"])
    put("same-name", "a/report.rtf", a)
    put("same-name", "b/report.rtf", b)
    put("same-name", "c/copy_of_a.rtf", a)
    put("same-name-html", "a/index.html", _html("Index", [rect], ["page one"]))
    put("same-name-html", "b/index.html", _html("Index", [ragged_before], ["page two"]))
    # --- equal length, equal first 4 kB, different tail (a key made of 'size + head')
    head = ("line of the common head %04d\n" * 160) % tuple(range(160))
    put("same-head", "x.txt", (head + "tail: the quick brown fox 0001\n").encode())
    put("same-head", "y.txt", (head + "tail: jumps over lazy dog 0002\n").encode())
    put("same-head", "x.md", (head + "tail: the quick brown fox 0001\n").encode())
    # --- archives: same member names with different content; an archive around a workbook / an e-mail around a workbook
    put("zip-members", "bundle_a.zip", _zip([("inside/doc.rtf", a), ("inside/data.xlsx", r_rect)]))
    put("zip-members", "bundle_b.zip", _zip([("inside/doc.rtf", b), ("inside/data.xlsx", r_rag)]))
    put("zip-members", "bundle_b.tar", _tar([("inside/doc.rtf", b), ("inside/data.xlsx", r_rect), ("inside/page.html", _html("Index", [rect]))]))
    put("mail-attachments", "with_book.eml", _eml("books", "see attachment", [("data.xlsx", "application/vnd.openxmlformats-officedocument.spreadsheetml.sheet", r_rect)]))
    put("mail-attachments", "with_other_book.eml", _eml("books", "see attachment", [("data.xlsx", "application/vnd.openxmlformats-officedocument.spreadsheetml.sheet", r_rag)]))
    put("mail-attachments", "plain.eml", _eml("books", "see attachment"))
    return docs, fams


def pair_cover(names):
    """a sequence in which every ordered pair (a, b), a != b, of `names` is adjacent (and every document occurs again after
    every other one)"""
    seq = []
    for a in names:
        for b in names:
            if a != b:
                if not seq or seq[-1] != a:
                    seq.append(a)
                seq.append(b)
    return seq


def _child(fn, timeout):
    """runs fn(write_line) in a forked child; returns (lines, finished).  The parent reads with a deadline per line and
    SIGKILLs the child when it stays silent for `timeout` seconds: nothing the library does can hang the caller."""
    r, w = os.pipe()
    pid = os.fork()
    if pid == 0:
        try:
            os.close(r)

            def emit(obj):
                os.write(w, (json.dumps(obj) + "\n").encode())
            fn(emit)
            emit({"end": True})
        except BaseException as e:  # noqa: BLE001
            try:
                os.write(w, (json.dumps({"crash": type(e).__name__ + ": " + str(e)[:200]}) + "\n").encode())
            except Exception:  # noqa: BLE001
                pass
        finally:
            os._exit(0)
    os.close(w)
    buf, lines, finished = b"", [], False
    deadline = time.time() + timeout
    try:
        while True:
            left = deadline - time.time()
            if left <= 0:
                break
            ready, _, _ = select.select([r], [], [], left)
            if not ready:
                break
            chunk = os.read(r, 65536)
            if not chunk:
                break
            buf += chunk
            while b"\n" in buf:
                line, buf = buf.split(b"\n", 1)
                obj = json.loads(line.decode())
                lines.append(obj)
                deadline = time.time() + timeout
                if obj.get("end"):
                    finished = True
            if finished:
                break
    finally:
        os.close(r)
        try:
            os.kill(pid, signal.SIGKILL)
        except OSError:
            pass
        os.waitpid(pid, 0)
    return lines, finished


def kept_sequence(paths, digest_results, timeout=60):
    """a fresh (forked) process extracts `paths` in this order and KEEPS the result objects; -> (digests, digests of the
    same kept objects after the whole sequence) or None when the child did not finish"""
    def work(emit):
        import sharepoint2text
        kept, ds = [], []
        for p in paths:
            try:
                res = list(sharepoint2text.read_file(p))
                kept.append(res)
                ds.append(digest_results(res))
            except Exception as e:  # noqa: BLE001
                kept.append(None)
                c = e.__cause__
                ds.append("ERR:" + type(e).__name__ + (":" + type(c).__name__ if c is not None else ""))
        again = [d if res is None else digest_results(res) for res, d in zip(kept, ds)]
        emit({"d": ds, "again": again})
    lines, finished = _child(work, timeout)
    for ln in lines:
        if "d" in ln:
            return ln["d"], ln["again"]
    return None


def check_family_sequence(by_name, seq, baseline, digest_results, isolated_digest=None):
    """(ok, what, key)"""
    base = baseline if baseline is not None else {n: isolated_digest(by_name[n]) for n in set(seq)}
    got = kept_sequence([by_name[n] for n in seq], digest_results)
    if got is None:
        return False, f"a fresh process that extracts {seq} in this order does not finish", "sequence.result-depends-on-history"
    ds, again = got
    for i, (n, d) in enumerate(zip(seq, ds)):
        if d != base[n]:
            return False, (f"a fresh process that extracts {seq[:i + 1]} in this order gets digest {d} for {n}; "
                           f"a fresh process that extracts {n} alone gets {base[n]}"), "sequence.result-depends-on-history"
    for i, (n, d, a) in enumerate(zip(seq, ds, again)):
        if a != d:
            return False, (f"the result objects returned for {n} (step {i} of {seq}) had digest {d} when they were returned and have "
                           f"digest {a} after the later extractions {seq[i + 1:]}: a returned result changes behind the caller's back"), \
                "sequence.returned-result-changed-later"
    return True, "every document has its isolated digest and every returned result keeps it", ""


def run_family_sequences(by_name, fams, baseline, digest_results):
    """[(seq, ok, what, key)] — one forked child per family; a failing cover sequence is shrunk to a failing pair if one exists"""
    out = []
    for fam in sorted(fams):
        names = [n for n in fams[fam] if n in baseline]
        if len(names) < 2:
            continue
        seq = pair_cover(names)
        ok, what, key = check_family_sequence(by_name, seq, baseline, digest_results)
        if not ok:
            for a in names:
                for b in names:
                    for short in ([a, b], [b, a, b]):
                        if a == b:
                            continue
                        ok2, what2, key2 = check_family_sequence(by_name, short, baseline, digest_results)
                        if not ok2:
                            out.append((short, False, what2, key2))
                            return out
        out.append((seq, ok, what, key))
        if not ok:
            return out
    return out


# =============================================================================================
#  2. suspended generators
# =============================================================================================
def _ext(name):
    return name.rsplit(".", 1)[-1].lower() if "." in os.path.basename(name) else ""


def suspended_plan(docs, baseline, rng, thorough, content_probe):
    """[(a, max_yields, [(b, mode)], use_content_probe)] — quick tier: every document against itself in the same thread at its
    first yield, one document per extension additionally from another thread and against a sibling; archives / mailboxes at two
    yields with the probe of the yielded content's type; thorough: everything for every document, three yields"""
    names = [n for n, _ in docs if not baseline[n].startswith("ERR") and "aesV5" not in n]
    by_ext = {}
    for n in names:
        by_ext.setdefault(_ext(n), []).append(n)
    plan, seen_ext = [], set()
    order = sorted(names, key=lambda n: (not n.startswith("family/"), n))
    for a in order:
        e = _ext(a)
        sibs = [n for n in by_ext[e] if n != a]
        sib = sibs[rng.randrange(len(sibs))] if sibs else None
        multi = e in ("zip", "tar", "7z", "tgz", "gz", "bz2", "xz", "mbox", "eml", "msg")
        if thorough or e not in seen_ext:
            bs = [(a, "same-thread"), (a, "other-thread")] + ([(sib, "same-thread"), (sib, "other-thread")] if sib else [])
            plan.append((a, 3 if thorough else 2, bs, True))
        else:
            plan.append((a, 2 if multi else 1, [(a, "same-thread")], multi))
        seen_ext.add(e)
    return plan


def run_suspended(by_name, plan, probes, extract_digest, timeout, t_budget=None):
    """-> (records, hung) ; records: dicts {a, k, b, mode, d}; hung: the case that was running when the child went silent"""
    def work(emit):
        import sharepoint2text
        t0 = time.time()
        for a, max_yields, bs, use_probe in plan:
            if t_budget is not None and time.time() - t0 > t_budget:
                emit({"stopped": a})
                break
            try:
                gen = sharepoint2text.read_file(by_name[a])
            except Exception:  # noqa: BLE001
                continue
            k = 0
            try:
                while k < max_yields:
                    try:
                        c = next(gen)
                    except StopIteration:
                        break
                    except Exception:  # noqa: BLE001 - a document that fails later is part of the corpus
                        break
                    k += 1
                    cands = list(bs)
                    pb = probes.get(type(c).__name__) if use_probe else None
                    if pb and pb != a and all(pb != b for b, _m in cands):
                        cands.append((pb, "same-thread"))
                    for b, mode in cands:
                        emit({"try": 1, "a": a, "k": k, "b": b, "mode": mode})
                        if mode == "same-thread":
                            d = extract_digest(by_name[b])
                        else:
                            box = {}
                            th = threading.Thread(target=lambda: box.__setitem__("d", extract_digest(by_name[b])), daemon=True)
                            th.start()
                            th.join()      # the parent's deadline is the timeout
                            d = box.get("d")
                        emit({"a": a, "k": k, "b": b, "mode": mode, "d": d})
            finally:
                try:
                    gen.close()
                except Exception:  # noqa: BLE001
                    pass
    lines, finished = _child(work, timeout)
    recs = [ln for ln in lines if "d" in ln]
    hung = None
    if not finished:
        tries = [ln for ln in lines if ln.get("try")]
        crash = [ln for ln in lines if "crash" in ln]
        if crash:
            hung = {"crash": crash[0]["crash"], **({k: tries[-1][k] for k in ("a", "k", "b", "mode")} if tries else {})}
        elif tries and (not recs or any(tries[-1][k] != recs[-1][k] for k in ("a", "k", "b", "mode"))):
            hung = {k: tries[-1][k] for k in ("a", "k", "b", "mode")}
        else:
            hung = {"silent": True}
    return recs, hung, [ln for ln in lines if "stopped" in ln]


def describe_suspended(r):
    who = "the same thread" if r["mode"] == "same-thread" else "another thread"
    return (f"the generator of read_file({r['a']}) is suspended after its result #{r['k']} (the consumer has not resumed or closed it yet) "
            f"while {who} extracts {r['b']}")


def judge_suspended(recs, hung, baseline, timeout):
    """-> (what, replay) of the first failing case or None"""
    for r in recs:
        if r["d"] != baseline.get(r["b"], r["d"]):
            return (describe_suspended(r) + f": digest {r['d']}, alone in a fresh process {baseline[r['b']]}",
                    {"kind": "suspended", "a": r["a"], "k": r["k"], "b": r["b"], "mode": r["mode"]})
    if hung and "a" in hung and "crash" not in hung:
        return (describe_suspended(hung) + f": that extraction does not finish within {timeout:.0f} s (alone it takes a fraction of a second) — "
                "process-global state (a lock) is still held by the suspended extraction",
                {"kind": "suspended", "a": hung["a"], "k": hung["k"], "b": hung["b"], "mode": hung["mode"]})
    return None


# =============================================================================================
#  3. cached callables found at run time
# =============================================================================================
def _is_cache_wrapper(v):
    return callable(v) and hasattr(v, "cache_info") and hasattr(v, "__wrapped__")


def cached_callables():
    """[(owner, attribute, kind, wrapper)] — module attributes and (class / static / plain) methods of classes of the package"""
    out = []
    for modname, mod in sorted(sys.modules.items()):
        if not modname.startswith("sharepoint2text") or mod is None or ".tests" in modname:
            continue
        for n, v in sorted(vars(mod).items(), key=lambda kv: kv[0]):
            if _is_cache_wrapper(v) and getattr(v, "__module__", None) == modname:
                out.append((mod, n, "plain", v))
            elif isinstance(v, type) and v.__module__ == modname:
                for cn, cv in sorted(vars(v).items(), key=lambda kv: kv[0]):
                    raw = cv.__func__ if isinstance(cv, (classmethod, staticmethod)) else cv
                    if _is_cache_wrapper(raw):
                        kind = "classmethod" if isinstance(cv, classmethod) else "staticmethod" if isinstance(cv, staticmethod) else "method"
                        out.append((v, cn, kind, raw))
    return out


def _value_repr(v, depth=0):
    if depth > 5:
        return "..."
    if isinstance(v, (int, float, bool, str, bytes, type(None), bytearray)):
        return repr(v) if not isinstance(v, (bytes, bytearray, str)) or len(v) < 200 else "sha1:" + hashlib.sha1(repr(v).encode()).hexdigest()[:12]
    if isinstance(v, (tuple, list)):
        return type(v).__name__ + "[" + ",".join(_value_repr(x, depth + 1) for x in v) + "]"
    if isinstance(v, (set, frozenset)):
        return "set{" + ",".join(sorted(_value_repr(x, depth + 1) for x in v)) + "}"
    if isinstance(v, dict):
        return "dict{" + ",".join(sorted(_value_repr(k, depth + 1) + ":" + _value_repr(x, depth + 1) for k, x in v.items())) + "}"
    if isinstance(v, type) or callable(v):
        return "<callable " + getattr(v, "__qualname__", type(v).__name__) + ">"
    d = getattr(v, "__dict__", None)
    if isinstance(d, dict) and depth < 3:
        return "<" + type(v).__name__ + " " + _value_repr(d, depth + 1) + ">"
    return "<" + type(v).__name__ + ">"


class CacheRecorder:
    """wraps every cache wrapper found by cached_callables() while real documents are extracted; records, per call,
    the arguments, the object handed out and its value at that moment (bounded: 400 distinct calls per function)"""

    LIMIT = 400

    def __enter__(self):
        self.sites = cached_callables()
        self.records = {}         # (owner name, attr) -> {args repr: (args, kwargs, handed-out object, value repr, document)}
        self.current = None
        self._saved = []
        for owner, attr, kind, raw in self.sites:
            raw.cache_clear()      # the recorded history starts from empty caches: what is found depends on these documents only
            key = (getattr(owner, "__qualname__", None) and owner.__module__ + "." + owner.__qualname__ or owner.__name__, attr)
            self.records[key] = {}
            proxy = self._proxy(key, raw)
            self._saved.append((owner, attr, vars(owner)[attr]))
            setattr(owner, attr, classmethod(proxy) if kind == "classmethod" else staticmethod(proxy) if kind == "staticmethod" else proxy)
        return self

    def _proxy(self, key, raw):
        recs = self.records[key]
        rec = self

        def proxy(*a, **kw):
            r = raw(*a, **kw)
            if len(recs) < rec.LIMIT:
                try:
                    ak = _value_repr([a, kw])
                    if ak not in recs:
                        recs[ak] = (a, kw, r, _value_repr(r), rec.current)
                except Exception:  # noqa: BLE001 - recording must never change the outcome of the call
                    pass
            return r
        proxy.__wrapped__ = getattr(raw, "__wrapped__", None)
        proxy.cache_info = raw.cache_info
        proxy.cache_clear = raw.cache_clear
        proxy.cache_parameters = getattr(raw, "cache_parameters", None)
        proxy.__name__ = getattr(raw, "__name__", "cached")
        return proxy

    def __exit__(self, *exc):
        for owner, attr, orig in self._saved:
            setattr(owner, attr, orig)
        return False


def check_cached_callables(rec):
    """-> [(key, what)] : (i) a value handed out by a cache has been modified since; (ii) cached(args) != uncached(args)"""
    by_key = {((getattr(o, "__qualname__", None) and o.__module__ + "." + o.__qualname__ or o.__name__), a): raw for o, a, _k, raw in rec.sites}
    out = []
    for key, recs in sorted(rec.records.items()):
        raw = by_key[key]
        for ak, (a, kw, obj, then, doc) in recs.items():
            now = _value_repr(obj)
            if now != then:
                out.append(("cache.value-modified-after-handout",
                            f"{key[0]}.{key[1]}({ak[:160]}) (first called while extracting {doc}) handed out {then[:200]}; the library modified that "
                            f"object afterwards, it is now {now[:200]} — and the process-wide cache keeps answering with it", key, doc))
                break

            def call(g):
                try:
                    return ("ok", _value_repr(g(*a, **kw)))
                except Exception as e:  # noqa: BLE001
                    return ("err", type(e).__name__)
            c, u = call(raw), call(raw.__wrapped__)
            if c != u:
                out.append(("cache.lru-not-transparent",
                            f"{key[0]}.{key[1]}({ak[:160]}) after the real extraction history answers {str(c)[:200]}, the uncached function {str(u)[:200]}",
                            key, doc))
                break
    return out
