"""C03, part "carrier" — what ONE unit is made of.

The other generated documents of C03 give every slide / page exactly one text carrier (one text box).  A real slide is
a composition: several shapes of several kinds (title / body / other placeholders, grouped shapes, tables, SmartArt,
charts, notes, comments), several paragraphs per shape, several shapes of the same kind, and — in OOXML — related parts
that the slide reaches through relationship ids which are only unique WITHIN the slide part (PowerPoint numbers them
rId1, rId2, ... on every slide anew).  This module generates such compositions for PPTX and ODP as token documents
(every paragraph / cell / node carries a token `TOK<slide>x<n>` naming the slide it was typed on) and judges the
property statement on the real extractor:

  numbers   unit numbers are 1..n in show order;
  foreign   a unit returns (text, tables, heading path) no token of another slide            -- unconditional;
  cover     every token of a SUPPORTED carrier of slide k is returned by unit k;
  join      get_full_text() == trimmed newline-join of the unit texts.

SUPPORTED is decided on the running code, not from a list: a carrier shape (kind + placeholder role + nesting) is
supported iff a one-slide document holding that carrier alone with a single paragraph comes back with its token.  So a
carrier the library does not read today (SmartArt, charts, notes) only falls under `foreign`; from the day a change
makes the library read it, every multi-paragraph, repeated and cross-slide instance of it falls under `cover` as well —
without anybody editing this file.
"""
import io
import re
import zipfile

TOKRE = re.compile(r"TOK\d+x\d+")
RNS = "http://schemas.openxmlformats.org/officeDocument/2006/relationships"
PKG_RELS = "http://schemas.openxmlformats.org/package/2006/relationships"
NS_A = "http://schemas.openxmlformats.org/drawingml/2006/main"
NS_P = "http://schemas.openxmlformats.org/presentationml/2006/main"
NS_DGM = "http://schemas.openxmlformats.org/drawingml/2006/diagram"
NS_C = "http://schemas.openxmlformats.org/drawingml/2006/chart"
NS_DSP = "http://schemas.microsoft.com/office/drawing/2008/diagram"
TABLE_URI = "http://schemas.openxmlformats.org/drawingml/2006/table"
PNS = f'xmlns:a="{NS_A}" xmlns:r="{RNS}" xmlns:p="{NS_P}"'


def _x(s):
    return s.replace("&", "&amp;").replace("<", "&lt;").replace(">", "&gt;").replace('"', "&quot;")


# =============================================================================================================== PPTX
# placeholder roles of a p:sp (None = plain text box; "idx" = <p:ph idx="1"/> without a type: content placeholder)
PPTX_PH = [None, None, "title", "ctrTitle", "body", "subTitle", "obj", "idx", "ftr", "dt", "sldNum", "pic", "tbl", "dgm", "chart"]
PPTX_RELATED = ("dgm", "chart", "notes", "comment")     # carriers whose text lives in a part reached through a slide relationship


def _a_paras(paras):
    return "".join(f"<a:p><a:r><a:t>{_x(t)}</a:t></a:r></a:p>" for t in paras)


def _pptx_sp(sid, c):
    ph = c.get("ph")
    phx = "" if ph is None else ('<p:ph idx="1"/>' if ph == "idx" else f'<p:ph type="{ph}"/>')
    s = (f'<p:sp><p:nvSpPr><p:cNvPr id="{sid}" name="s{sid}"/><p:cNvSpPr/><p:nvPr>{phx}</p:nvPr></p:nvSpPr>'
         f'<p:spPr><a:xfrm><a:off x="{c.get("x", 100)}" y="{c.get("y", 100)}"/><a:ext cx="1000" cy="500"/></a:xfrm></p:spPr>'
         f'<p:txBody><a:bodyPr/>{_a_paras(c["paras"])}</p:txBody></p:sp>')
    if c.get("grp"):
        s = (f'<p:grpSp><p:nvGrpSpPr><p:cNvPr id="{sid + 50}" name="g"/><p:cNvGrpSpPr/><p:nvPr/></p:nvGrpSpPr><p:grpSpPr/>'
             f'{s}</p:grpSp>')
    return s


def _pptx_frame(sid, c, inner):
    return (f'<p:graphicFrame><p:nvGraphicFramePr><p:cNvPr id="{sid}" name="f{sid}"/><p:cNvGraphicFramePr/><p:nvPr/></p:nvGraphicFramePr>'
            f'<p:xfrm><a:off x="{c.get("x", 100)}" y="{c.get("y", 100)}"/><a:ext cx="4000" cy="2000"/></p:xfrm>'
            f'<a:graphic>{inner}</a:graphic></p:graphicFrame>')


def _rels_xml(entries):
    return (f'<?xml version="1.0" encoding="UTF-8" standalone="yes"?><Relationships xmlns="{PKG_RELS}">'
            + "".join(f'<Relationship Id="{_x(i)}" Type="{_x(t)}" Target="{_x(tg)}"/>' for i, t, tg in entries) + "</Relationships>")


def build_pptx(d):
    """d = {"fmt": "pptx", "rid": "local" | "global", "slides": [{"part": n, "carriers": [...]}]} -> BytesIO.
    Slide k of the show is part ppt/slides/slide<part>.xml; related parts are numbered by the carrier's own "part".
    rid "local": every slide numbers its relationships rId1 (layout), rId2, rId3, ... on its own, as PowerPoint does;
    rid "global": ids are unique in the whole package."""
    b = io.BytesIO()
    with zipfile.ZipFile(b, "w", zipfile.ZIP_DEFLATED) as z:
        z.writestr("[Content_Types].xml", '<?xml version="1.0" encoding="UTF-8" standalone="yes"?>'
                   '<Types xmlns="http://schemas.openxmlformats.org/package/2006/content-types">'
                   '<Default Extension="rels" ContentType="application/vnd.openxmlformats-package.relationships+xml"/>'
                   '<Default Extension="xml" ContentType="application/xml"/>'
                   '<Override PartName="/ppt/presentation.xml" ContentType="application/vnd.openxmlformats-officedocument.presentationml.presentation.main+xml"/></Types>')
        z.writestr("_rels/.rels", _rels_xml([("rId1", RNS + "/officeDocument", "ppt/presentation.xml")]))
        n = len(d["slides"])
        z.writestr("ppt/presentation.xml", f'<?xml version="1.0" encoding="UTF-8" standalone="yes"?><p:presentation {PNS}><p:sldIdLst>'
                   + "".join(f'<p:sldId id="{256 + s["part"]}" r:id="rId{k + 2}"/>' for k, s in enumerate(d["slides"]))
                   + "</p:sldIdLst></p:presentation>")
        z.writestr("ppt/_rels/presentation.xml.rels", _rels_xml(
            [("rId1", RNS + "/slideMaster", "slideMasters/slideMaster1.xml")]
            + [(f"rId{k + 2}", RNS + "/slide", f'slides/slide{s["part"]}.xml') for k, s in enumerate(d["slides"])]))
        for k, s in enumerate(d["slides"]):
            rels = [("rId1", RNS + "/slideLayout", "../slideLayouts/slideLayout1.xml")]
            nxt = [2]

            def rid(typ, target, rels=rels, nxt=nxt, k=k):
                i = f"rId{nxt[0]}" if d.get("rid", "local") == "local" else f"rId{100 * (k + 1) + nxt[0]}"
                nxt[0] += 1
                rels.append((i, typ, target))
                return i
            shapes = ""
            for j, c in enumerate(s["carriers"]):
                sid = 2 + j
                kind = c["k"]
                if kind == "sp":
                    shapes += _pptx_sp(sid, c)
                elif kind == "tbl":
                    shapes += _pptx_frame(sid, c, f'<a:graphicData uri="{TABLE_URI}"><a:tbl><a:tblPr/><a:tblGrid/>' + "".join(
                        "<a:tr>" + "".join(f"<a:tc><a:txBody><a:bodyPr/>{_a_paras([t])}</a:txBody></a:tc>" for t in row) + "</a:tr>"
                        for row in c["rows"]) + "</a:tbl></a:graphicData>")
                elif kind == "dgm":
                    p = c["part"]
                    dm = rid(RNS + "/diagramData", f"../diagrams/data{p}.xml")
                    lo = rid(RNS + "/diagramLayout", f"../diagrams/layout{p}.xml")
                    qs = rid(RNS + "/diagramQuickStyle", f"../diagrams/quickStyle{p}.xml")
                    cs = rid(RNS + "/diagramColors", f"../diagrams/colors{p}.xml")
                    rid("http://schemas.microsoft.com/office/2007/relationships/diagramDrawing", f"../diagrams/drawing{p}.xml")
                    shapes += _pptx_frame(sid, c, f'<a:graphicData uri="{NS_DGM}"><dgm:relIds xmlns:dgm="{NS_DGM}" r:dm="{dm}" r:lo="{lo}" r:qs="{qs}" r:cs="{cs}"/></a:graphicData>')
                    pts = '<dgm:pt modelId="{0}" type="doc"><dgm:prSet/><dgm:spPr/></dgm:pt>' + "".join(
                        f'<dgm:pt modelId="{{{i + 1}}}"><dgm:prSet/><dgm:spPr/><dgm:t><a:bodyPr/><a:lstStyle/>{_a_paras([t])}</dgm:t></dgm:pt>'
                        for i, t in enumerate(c["paras"]))
                    z.writestr(f"ppt/diagrams/data{p}.xml", f'<?xml version="1.0" encoding="UTF-8" standalone="yes"?><dgm:dataModel xmlns:dgm="{NS_DGM}" xmlns:a="{NS_A}">'
                               f"<dgm:ptLst>{pts}</dgm:ptLst><dgm:cxnLst/><dgm:bg/><dgm:whole/></dgm:dataModel>")
                    z.writestr(f"ppt/diagrams/drawing{p}.xml", f'<?xml version="1.0" encoding="UTF-8" standalone="yes"?><dsp:drawing xmlns:dsp="{NS_DSP}" xmlns:a="{NS_A}"><dsp:spTree>'
                               + "".join(f'<dsp:sp modelId="{{{i + 1}}}"><dsp:txBody><a:bodyPr/>{_a_paras([t])}</dsp:txBody></dsp:sp>' for i, t in enumerate(c["paras"]))
                               + "</dsp:spTree></dsp:drawing>")
                    for nm in ("layout", "quickStyle", "colors"):
                        z.writestr(f"ppt/diagrams/{nm}{p}.xml", f'<?xml version="1.0" encoding="UTF-8" standalone="yes"?><dgm:{nm}Def xmlns:dgm="{NS_DGM}"/>')
                elif kind == "chart":
                    p = c["part"]
                    ci = rid(RNS + "/chart", f"../charts/chart{p}.xml")
                    shapes += _pptx_frame(sid, c, f'<a:graphicData uri="{NS_C}"><c:chart xmlns:c="{NS_C}" r:id="{ci}"/></a:graphicData>')
                    z.writestr(f"ppt/charts/chart{p}.xml", f'<?xml version="1.0" encoding="UTF-8" standalone="yes"?><c:chartSpace xmlns:c="{NS_C}" xmlns:a="{NS_A}"><c:chart>'
                               f'<c:title><c:tx><c:rich><a:bodyPr/>{_a_paras(c["paras"][:1])}</c:rich></c:tx></c:title><c:plotArea><c:barChart><c:ser><c:cat><c:strRef><c:strCache>'
                               + "".join(f'<c:pt idx="{i}"><c:v>{_x(t)}</c:v></c:pt>' for i, t in enumerate(c["paras"][1:]))
                               + "</c:strCache></c:strRef></c:cat></c:ser></c:barChart></c:plotArea></c:chart></c:chartSpace>")
                elif kind == "notes":
                    p = c["part"]
                    rid(RNS + "/notesSlide", f"../notesSlides/notesSlide{p}.xml")
                    z.writestr(f"ppt/notesSlides/notesSlide{p}.xml", f'<?xml version="1.0" encoding="UTF-8" standalone="yes"?><p:notes {PNS}><p:cSld><p:spTree>'
                               '<p:nvGrpSpPr><p:cNvPr id="1" name=""/><p:cNvGrpSpPr/><p:nvPr/></p:nvGrpSpPr><p:grpSpPr/>'
                               f'<p:sp><p:nvSpPr><p:cNvPr id="3" name="Notes"/><p:cNvSpPr/><p:nvPr><p:ph type="body" idx="1"/></p:nvPr></p:nvSpPr><p:spPr/>'
                               f'<p:txBody><a:bodyPr/>{_a_paras(c["paras"])}</p:txBody></p:sp></p:spTree></p:cSld></p:notes>')
                elif kind == "comment":
                    p = c["part"]
                    rid(RNS + "/comments", f"../comments/comment{p}.xml")
                    z.writestr(f"ppt/comments/comment{p}.xml", f'<?xml version="1.0" encoding="UTF-8" standalone="yes"?><p:cmLst {PNS}>'
                               + "".join(f'<p:cm authorId="0" dt="2024-01-01T00:00:00" idx="{i + 1}"><p:pos x="10" y="10"/><p:text>{_x(t)}</p:text></p:cm>' for i, t in enumerate(c["paras"]))
                               + "</p:cmLst>")
            z.writestr(f'ppt/slides/slide{s["part"]}.xml', f'<?xml version="1.0" encoding="UTF-8" standalone="yes"?><p:sld {PNS}><p:cSld><p:spTree>'
                       '<p:nvGrpSpPr><p:cNvPr id="1" name=""/><p:cNvGrpSpPr/><p:nvPr/></p:nvGrpSpPr><p:grpSpPr/>'
                       f"{shapes}</p:spTree></p:cSld></p:sld>")
            z.writestr(f'ppt/slides/_rels/slide{s["part"]}.xml.rels', _rels_xml(rels))
    b.seek(0)
    return b


# ================================================================================================================ ODP
ODF_NS = ('xmlns:office="urn:oasis:names:tc:opendocument:xmlns:office:1.0" xmlns:text="urn:oasis:names:tc:opendocument:xmlns:text:1.0" '
          'xmlns:table="urn:oasis:names:tc:opendocument:xmlns:table:1.0" xmlns:draw="urn:oasis:names:tc:opendocument:xmlns:drawing:1.0" '
          'xmlns:presentation="urn:oasis:names:tc:opendocument:xmlns:presentation:1.0" xmlns:svg="urn:oasis:names:tc:opendocument:xmlns:svg-compatible:1.0" '
          'xmlns:style="urn:oasis:names:tc:opendocument:xmlns:style:1.0" xmlns:dc="http://purl.org/dc/elements/1.1/"')
ODP_CLASSES = [None, None, "title", "subtitle", "outline", "text", "object", "notes", "page-number", "x-unknown"]
ODP_STYLES = ["", "P1", "P2", "TitleText", "MyTitle", "Title1", "BodyText", "Body1", "P1Body", "Standard"]


def _odp_paras(c):
    ps = c["paras"]
    st = c.get("styles") or [""] * len(ps)
    out = []
    for t, s in zip(ps, st):
        p = "<text:p" + (f' text:style-name="{_x(s)}"' if s else "") + ">" + (f"<text:span>{_x(t)}</text:span>" if c.get("span") else _x(t)) + "</text:p>"
        if c.get("list"):
            p = f"<text:list><text:list-item>{p}</text:list-item></text:list>"
        out.append(p)
    return "".join(out)


def _odp_pos(c):
    return f'svg:x="{c.get("x", 1)}cm" svg:y="{c.get("y", 1)}cm" svg:width="5cm" svg:height="2cm"'


def build_odp(d):
    mt = "application/vnd.oasis.opendocument.presentation"
    body = ""
    for k, s in enumerate(d["slides"]):
        inner, notes = "", ""
        for c in s["carriers"]:
            kind = c["k"]
            if kind == "frame":
                cls = f' presentation:class="{c["cls"]}"' if c.get("cls") else ""
                f = f'<draw:frame{cls} {_odp_pos(c)}><draw:text-box>{_odp_paras(c)}</draw:text-box></draw:frame>'
                inner += f"<draw:g>{f}</draw:g>" if c.get("grp") else f
            elif kind == "tbl":
                inner += (f'<draw:frame {_odp_pos(c)}><table:table>' + "".join(
                    "<table:table-row>" + "".join(f"<table:table-cell><text:p>{_x(t)}</text:p></table:table-cell>" for t in row) + "</table:table-row>"
                    for row in c["rows"]) + "</table:table></draw:frame>")
            elif kind == "shape":
                inner += f'<draw:custom-shape {_odp_pos(c)}>{_odp_paras(c)}</draw:custom-shape>'
            elif kind == "annot":
                inner += f'<office:annotation><dc:creator>me</dc:creator><dc:date>2024-01-01T00:00:00</dc:date>{_odp_paras(c)}</office:annotation>'
            elif kind == "notes":
                notes += (f'<presentation:notes><draw:page-thumbnail/><draw:frame presentation:class="notes" {_odp_pos(c)}><draw:text-box>{_odp_paras(c)}'
                          "</draw:text-box></draw:frame></presentation:notes>")
        body += f'<draw:page draw:name="{_x(s.get("name", f"page{k + 1}"))}" draw:master-page-name="Default">{inner}{notes}</draw:page>'
    b = io.BytesIO()
    with zipfile.ZipFile(b, "w") as z:
        z.writestr(zipfile.ZipInfo("mimetype"), mt)
        z.writestr("content.xml", f'<?xml version="1.0" encoding="UTF-8"?><office:document-content {ODF_NS} office:version="1.2"><office:body>'
                                  f"<office:presentation>{body}</office:presentation></office:body></office:document-content>")
        z.writestr("META-INF/manifest.xml", '<?xml version="1.0" encoding="UTF-8"?><manifest:manifest xmlns:manifest="urn:oasis:names:tc:opendocument:xmlns:manifest:1.0" manifest:version="1.2">'
                   f'<manifest:file-entry manifest:full-path="/" manifest:media-type="{mt}"/><manifest:file-entry manifest:full-path="content.xml" manifest:media-type="text/xml"/></manifest:manifest>')
    b.seek(0)
    return b


# =========================================================================================================== reading
def carrier_tokens(c):
    return list(c["paras"]) if "paras" in c else [t for row in c["rows"] for t in row]


def read_units(d):
    """-> ([(number, set of tokens the unit returns)], [unit texts], full text) from the real extractor"""
    if d["fmt"] == "pptx":
        from sharepoint2text.parsing.extractors.ms_modern.pptx_extractor import read_pptx
        res = next(read_pptx(build_pptx(d)))
    else:
        from sharepoint2text.parsing.extractors.open_office.odp_extractor import read_odp
        res = next(read_odp(build_odp(d)))
    us, texts = [], []
    for u in res.iterate_units():
        md = u.get_metadata()
        blob = [u.get_text(), repr([t.data for t in u.get_tables()]), repr(list(getattr(md, "location", []) or []))]
        us.append((md.unit_number, set(TOKRE.findall("\n".join(blob)))))
        texts.append(u.get_text())
    return us, texts, res.get_full_text()


def shape_of(c):
    """what makes two carriers 'the same kind of thing' for the library: everything but text, position, part numbers,
    paragraph count and paragraph style names"""
    return tuple(sorted((k, v) for k, v in c.items() if k not in ("paras", "rows", "x", "y", "part", "styles") and v not in (None, False)))


_SUPPORT = {}


def supported(fmt, c):
    """decided on the running code: the carrier alone on a one-slide document, one paragraph / one cell"""
    key = (fmt, shape_of(c))
    if key not in _SUPPORT:
        probe = {k: v for k, v in c.items() if k not in ("paras", "rows", "styles")}
        if "rows" in c:
            probe["rows"] = [["TOK1x1"]]
        else:
            probe["paras"] = ["TOK1x1"] if c["k"] != "chart" else ["TOK1x1", "TOK1x1"]
        probe["part"] = 1
        try:
            us, _, _ = read_units({"fmt": fmt, "rid": "local", "slides": [{"part": 1, "carriers": [probe]}]})
            _SUPPORT[key] = len(us) == 1 and "TOK1x1" in us[0][1]
        except Exception:  # noqa: BLE001
            _SUPPORT[key] = False
    return _SUPPORT[key]


def reset_support():
    _SUPPORT.clear()


def check(d):
    """the property statement on one composed deck -> [(key, what)]"""
    fmt = d["fmt"]
    try:
        us, texts, full = read_units(d)
    except Exception as e:  # noqa: BLE001
        return [(f"{fmt}.raises", f"read_{fmt} raised {type(e).__name__}: {e} on composed deck {describe(d)}")]
    n = len(d["slides"])
    if [k for k, _ in us] != list(range(1, n + 1)):
        return [(f"{fmt}.units-do-not-mirror-slides", f"{fmt} deck with {n} slides {describe(d)} gave unit numbers {[k for k, _ in us]}")]
    for k, toks in us:
        foreign = sorted(t for t in toks if not t.startswith(f"TOK{k}x"))
        if foreign:
            return [(f"{fmt}.text-in-foreign-unit", f"{fmt} deck {describe(d)}: unit {k} returns {foreign}, text typed on slide "
                                                   f"{sorted({int(t[3:].split('x')[0]) for t in foreign})} (units return {[(k2, sorted(t2)) for k2, t2 in us]})")]
    for k, s in enumerate(d["slides"], start=1):
        for c in s["carriers"]:
            if supported(fmt, c):
                missing = [t for t in carrier_tokens(c) if t not in us[k - 1][1]]
                if missing:
                    return [(f"{fmt}.unit-misses-own-text", f"{fmt} deck {describe(d)}: slide {k} holds {carrier_tokens(c)} in a {label(c)} (a kind of shape the library reads: "
                                                           f"alone on a slide with one paragraph its text is returned) but unit {k} returns only {sorted(us[k - 1][1])}; {missing} is in no unit")]
    if full != "\n".join(texts).strip():
        return [(f"{fmt}.full-text-not-join-of-units", f"{fmt} deck {describe(d)}: get_full_text()={full!r:.120} is not the trimmed newline-join of the unit texts")]
    return []


def label(c):
    bits = [c["k"]] + [f"{k}={v}" for k, v in shape_of(c) if k != "k"]
    return " ".join(bits)


def describe(d):
    return "[" + " | ".join(f"slide {k} (part {s['part']}): " + ", ".join(f"{label(c)} {carrier_tokens(c)}" + (f" styles {c['styles']}" if c.get("styles") and any(c["styles"]) else "")
                                                                          for c in s["carriers"]) for k, s in enumerate(d["slides"], start=1)) + "]" + \
        (f" (relationship ids {d['rid']} to each slide part)" if d["fmt"] == "pptx" else "")


# =========================================================================================================== generators
def _number(d):
    """give every paragraph / cell its token TOK<slide>x<n> (slide = position in the show)"""
    for k, s in enumerate(d["slides"], start=1):
        i = 0
        for c in s["carriers"]:
            if "rows" in c:
                rows = []
                for row in c["rows"]:
                    r = []
                    for _ in row:
                        i += 1
                        r.append(f"TOK{k}x{i}")
                    rows.append(r)
                c["rows"] = rows
            else:
                ps = []
                for _ in c["paras"]:
                    i += 1
                    ps.append(f"TOK{k}x{i}")
                c["paras"] = ps
    return d


def gen_pptx_carrier(rng, kinds):
    k = rng.choice(kinds)
    y = rng.choice([100, 100, 500, 900, 1300])
    if k == "sp":
        return {"k": "sp", "ph": rng.choice(PPTX_PH), "grp": rng.random() < 0.2, "paras": [0] * rng.choice([1, 1, 2, 3]), "y": y, "x": rng.choice([100, 700])}
    if k == "tbl":
        return {"k": "tbl", "rows": [[0] * rng.choice([1, 2])] * rng.choice([1, 2]), "y": y}
    return {"k": k, "paras": [0] * rng.choice([1, 2, 3]), "y": y}


def gen_pptx(rng, focus=None):
    """a composed deck.  focus = a carrier kind every slide gets (so that the systematic part of a run puts every kind
    on several slides at once); related parts are numbered independently of the slides."""
    n = rng.randint(2, 4)
    parts = rng.sample(range(1, n + 3), n)
    slides = []
    for _ in range(n):
        cs = [gen_pptx_carrier(rng, ["sp", "sp", "sp", "tbl", "dgm", "chart", "notes", "comment"]) for _ in range(rng.randint(0, 3))]
        if focus and rng.random() < 0.85:
            cs.insert(rng.randint(0, len(cs)), gen_pptx_carrier(rng, [focus]))
        # at most one notes / comment part per slide
        seen = set()
        cs = [c for c in cs if not (c["k"] in ("notes", "comment") and (c["k"] in seen or seen.add(c["k"])))]
        slides.append({"carriers": cs})
    d = {"fmt": "pptx", "rid": rng.choice(["local", "local", "global"]), "slides": slides}
    for k in PPTX_RELATED:                      # related parts: numbered on their own, not in slide order
        holders = [c for s in slides for c in s["carriers"] if c["k"] == k]
        nums = rng.sample(range(1, len(holders) + 3), len(holders))
        for c, p in zip(holders, nums):
            c["part"] = p
    for s, p in zip(slides, parts):
        s["part"] = p
    return _number(d)


def gen_odp_carrier(rng, kinds):
    k = rng.choice(kinds)
    y = rng.choice([1, 1, 3, 5, 7])
    m = rng.choice([1, 1, 2, 3])
    if k == "frame":
        return {"k": "frame", "cls": rng.choice(ODP_CLASSES), "grp": rng.random() < 0.1, "list": rng.random() < 0.25, "span": rng.random() < 0.3,
                "paras": [0] * m, "styles": [rng.choice(ODP_STYLES) for _ in range(m)], "y": y, "x": rng.choice([1, 9])}
    if k == "tbl":
        return {"k": "tbl", "rows": [[0] * rng.choice([1, 2])] * rng.choice([1, 2]), "y": y}
    return {"k": k, "paras": [0] * m, "styles": [rng.choice(ODP_STYLES) for _ in range(m)], "y": y}


def gen_odp(rng, focus=None):
    n = rng.randint(1, 4)
    slides = []
    for _ in range(n):
        cs = [gen_odp_carrier(rng, ["frame", "frame", "frame", "frame", "tbl", "shape", "annot", "notes"]) for _ in range(rng.randint(0, 4))]
        if focus and rng.random() < 0.85:
            c = gen_odp_carrier(rng, ["frame"])
            c["cls"] = focus if focus != "-" else None
            cs.insert(rng.randint(0, len(cs)), c)
        seen = set()
        cs = [c for c in cs if not (c["k"] == "notes" and (c["k"] in seen or seen.add(c["k"])))]
        slides.append({"part": len(slides) + 1, "carriers": cs})
    return _number({"fmt": "odp", "slides": slides})


def systematic(rng):
    """the decks every run reads whatever the seed: every PPTX carrier kind on >= 2 slides of one deck under slide-local
    relationship ids; every ODP placeholder class with several paragraphs and twice on a slide."""
    out = []
    for k in ("sp", "tbl") + PPTX_RELATED:
        out.append(gen_pptx(rng, focus=k))
    for ph in [p for p in PPTX_PH if p]:
        d = gen_pptx(rng)
        for s in d["slides"]:
            for _ in range(2):
                s["carriers"].append({"k": "sp", "ph": ph, "grp": False, "paras": [0, 0], "y": rng.choice([100, 500]), "x": 100})
        out.append(_number(d))
    for cls in ["-"] + [c for c in ODP_CLASSES if c]:
        d = gen_odp(rng, focus=cls)
        for s in d["slides"]:
            m = rng.choice([2, 3])
            s["carriers"].append({"k": "frame", "cls": None if cls == "-" else cls, "grp": False, "list": False, "span": False, "paras": [0] * m,
                                  "styles": [rng.choice(ODP_STYLES) for _ in range(m)], "y": rng.choice([1, 3]), "x": 1})
        out.append(_number(d))
    return out


def gen(rng, kind=None):
    kind = kind or rng.choice(["pptx", "odp"])
    return gen_pptx(rng, rng.choice([None, "dgm", "chart", "notes", "comment"])) if kind == "pptx" else gen_odp(rng, rng.choice([None, "title", "outline", "-"]))


# ============================================================================================================== shrink
def shrink(d):
    """greedy: drop slides' carriers, paragraphs and whole trailing slides while the deck still fails with the same key"""
    import copy
    r = check(d)
    if not r:
        return d
    key = r[0][0]

    def fails(x):
        try:
            rr = check(x)
        except Exception:  # noqa: BLE001
            return False
        return bool(rr) and rr[0][0] == key
    cur = copy.deepcopy(d)
    changed = True
    while changed:
        changed = False
        for si in range(len(cur["slides"]) - 1, -1, -1):
            if len(cur["slides"]) > 1:
                t = copy.deepcopy(cur)
                del t["slides"][si]
                t = _number(t)
                if fails(t):
                    cur, changed = t, True
                    continue
            for ci in range(len(cur["slides"][si]["carriers"]) - 1, -1, -1):
                t = copy.deepcopy(cur)
                del t["slides"][si]["carriers"][ci]
                t = _number(t)
                if fails(t):
                    cur, changed = t, True
                    continue
                c = cur["slides"][si]["carriers"][ci]
                if "paras" in c and len(c["paras"]) > 1:
                    t = copy.deepcopy(cur)
                    t["slides"][si]["carriers"][ci]["paras"].pop()
                    if t["slides"][si]["carriers"][ci].get("styles"):
                        t["slides"][si]["carriers"][ci]["styles"].pop()
                    t = _number(t)
                    if fails(t):
                        cur, changed = t, True
    return cur


def e2e(rng, n):
    """[(key, what, replay)] over the systematic decks and n random ones of each format"""
    out = []
    reset_support()
    docs = systematic(rng) + [gen(rng, "pptx") for _ in range(n)] + [gen(rng, "odp") for _ in range(n)]
    seen = set()
    for d in docs:
        r = check(d)
        if r and r[0][0] not in seen:
            seen.add(r[0][0])
            s = shrink(d)
            key, what = (check(s) or r)[0]
            out.append((key, what, {"carrier_doc": s}))
    return out


# ===================================================================================== correspondence with the Lean model
BLANKS = ["", " ", "\t", "  "]


def gen_odp_corr(rng):
    """decks for the correspondence of `_extract_slide`'s paragraph loop with S2T.Units.Carrier.odpClassify: text-box frames
    only (every presentation:class, every style name, lists, spans, blank paragraphs, padded text), frames at distinct or
    equal positions"""
    n = rng.randint(1, 3)
    slides = []
    for _ in range(n):
        cs = []
        for _ in range(rng.randint(0, 4)):
            c = gen_odp_carrier(rng, ["frame"])
            c["grp"] = False
            cs.append(c)
        slides.append({"part": len(slides) + 1, "carriers": cs})
    d = _number({"fmt": "odp", "slides": slides})
    for s in d["slides"]:
        for c in s["carriers"]:
            for i in range(len(c["paras"])):
                r = rng.random()
                if r < 0.15:
                    c["paras"][i] = rng.choice(BLANKS)
                elif r < 0.3:
                    c["paras"][i] = rng.choice([" ", "\t", ""]) + c["paras"][i] + rng.choice([" ", "  ", ""])
    return d


def corr_odp(ctx, broken, s1, Broken):
    """real read_odp (slide.title / body_text / other_text) against the model's classification of the slide's paragraphs
    taken in frame order (frames sorted by (y, x), stable — the one thing re-stated here)"""
    from sharepoint2text.parsing.extractors.open_office.odp_extractor import read_odp
    reqs, exp = [], []
    for _ in range(ctx.n(60, 600)):
        d = gen_odp_corr(ctx.rng)
        try:
            res = next(read_odp(build_odp(d)))
            got = [{"title": sl.title or None, "body": list(sl.body_text), "other": list(sl.other_text)} for sl in res.slides]
        except Exception as e:  # noqa: BLE001
            got = None
            broken.append(Broken("correspondence", "c03.odp_classify", f"read_odp raised {type(e).__name__}: {e}", case={"carrier_doc": d}))
            continue
        if len(got) != len(d["slides"]):
            broken.append(Broken("correspondence", "c03.odp_classify", f"{len(got)} slides for {len(d['slides'])} pages", case={"carrier_doc": d}))
            continue
        for s, g in zip(d["slides"], got):
            frames = sorted(s["carriers"], key=lambda c: (c["y"], c["x"]))
            paras = [{"style": st, "text": t} for c in frames for t, st in zip(c["paras"], c["styles"])]
            reqs.append({"op": "c03.odp_classify", "paras": paras})
            exp.append((d, g, paras))
    bad = 0
    for (d, g, paras), w in zip(exp, ctx.drive(reqs)):
        ctx.case(("odp-classify", repr(paras)), nontrivial=any(p["text"].strip() for p in paras))
        ctx.count(f"odp-classify/paragraphs={min(len(paras), 6)}")
        want = w if "drv_error" in w else {"title": s1(w["title"]), "body": [s1(x) for x in w["body"]], "other": [s1(x) for x in w["other"]]}
        if g != want:
            bad += 1
            if bad <= 6:
                broken.append(Broken("correspondence", "c03.odp_classify", f"paragraphs {paras}: impl={g} model={want}", case={"carrier_doc": d}))
    return bad
