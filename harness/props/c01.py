"""C01 — stable failure surface, termination, CLI discipline.

Tie between the generated control skeletons (S2T/Gen/Wrappers.lean, analysed in Lean) and the real
functions: (1) fault injection at the parser boundary — a file object that raises a chosen exception
at its k-th method call — must escape as a class the analysis allows; (2) a hostile-bytes stream
(fixtures, byte-level and container-aware mutations, format A -> extractor B) must end in results
or a family exception, within a time budget; (3) the CLI discipline on the same inputs.
"""
from __future__ import annotations

import base64
import contextlib
import io
import os
import re
import signal
import struct
import subprocess
import sys
import tempfile
import time
import zipfile

import corpus
from run import Broken, Violation

_HERE = os.path.dirname(os.path.abspath(__file__))
for _p in (os.path.join(_HERE, "..", "builders"), os.path.join(_HERE, "..", "..", "tools")):
    if os.path.abspath(_p) not in sys.path:
        sys.path.insert(0, os.path.abspath(_p))
import c01_carriers as CC  # noqa: E402
import c01_xmlgraph as XG  # noqa: E402
import regex_inventory as RI  # noqa: E402

GEN = ["Exceptions", "Wrappers", "Loops", "Regexes", "C01Iter"]
RULE = ("cases = (extractor x injected exception class x call index) fault injections + (input bytes x extractor) "
        "hostile-stream runs + CLI invocations; distinct = distinct (extractor, sha1(input)/fault) pairs; "
        "non-trivial = the extractor got past its first statement (fault index > 0 or input is a mutated real document); "
        "+ (inventoried regular expression x unbounded repeat x pump count x cut) strings at the pattern level and embedded in carrier "
        "documents (EPUB nav/NCX/OPF/chapter, RTF, HTML, MHTML, mbox) through the extractor; + CLI runs (all output modes, in-process and "
        "as a real subprocess) on multi-result inputs whose failure surfaces after an earlier result (damaged later archive member / folder / message); "
        "+ (ZIP-container fixture x XML member x reference relation found in the member x rewiring) WELL-FORMED mutants: reference cycles of length 1/2/3/all "
        "(entities bare or intact), dangling / duplicated / empty ids, OPC relationship cycles — through the extractor, and the hanging ones through read_file")
ASSUMPTIONS = [
    "BaseException-only exceptions (KeyboardInterrupt, GeneratorExit, SystemExit) are out of scope",
    "the whitelist of total atoms in tools/gen/wrappers.py (names, constants, attribute reads, comparisons of those, logging calls, perf_counter, imports) does not raise",
    "termination inside third-party parsers is not proved (only sampled here under a time limit)",
    "running time of CPython's regular-expression matcher on the inventoried patterns is not proved (star height decided in Lean; every unbounded repeat pumped 20..60 times under a time limit on every run)",
    "read_file: the file exists and is readable (os:* atoms total)",
]
TRUSTED = ["tools/gen/wrappers.py (Python AST -> Stmt skeleton)", "big-step semantics of try/except/finally/raise in S2T/Model/Wrapper.lean"]
LIMIT_S = 40
PUMP_LIMIT_S = 4        # one matching operation of one pattern on one pumped string (<= 60 repeats)
CARRIER_LIMIT_S = 10    # one extractor run on a carrier document with a pumped string


class FaultIO(io.BytesIO):
    """BytesIO that raises `exc` at its k-th method call (read/seek/tell/getvalue/getbuffer/readinto/...)."""

    def __init__(self, data, k, exc, fault_on_seek=True):
        super().__init__(data)
        self._k, self._exc, self._n = k, exc, 0
        self._fault_on_seek = fault_on_seek

    def _tick(self):
        n = self._n
        self._n += 1
        if n == self._k:
            raise self._exc

    def read(self, *a):
        self._tick()
        return super().read(*a)

    def seek(self, *a):
        if self._fault_on_seek:
            self._tick()
        return super().seek(*a)

    def tell(self):
        self._tick()
        return super().tell()

    def getvalue(self):
        self._tick()
        return super().getvalue()

    def readinto(self, b):
        self._tick()
        return super().readinto(b)

    def readline(self, *a):
        self._tick()
        return super().readline(*a)


def _exc_instances():
    from sharepoint2text.parsing import exceptions as X
    fam = [X.ExtractionFileEncryptedError("injected"), X.ExtractionZipBombError("injected"),
           X.ExtractionFailedError("injected"), X.LegacyMicrosoftParsingError("injected"),
           X.ExtractionFileFormatNotSupportedError("injected")]
    other = [ValueError("injected"), KeyError("injected"), struct.error("injected"), RecursionError("injected"),
             MemoryError("injected"), zipfile.BadZipFile("injected"), UnicodeDecodeError("utf-8", b"x", 0, 1, "injected"),
             AssertionError("injected"), OSError("injected"), StopIteration("injected"), IndexError("injected"),
             TypeError("injected"), AttributeError("injected"), EOFError("injected"), NotImplementedError("injected"),
             ZeroDivisionError("injected"), LookupError("injected"), OverflowError("injected")]
    return fam, other


def _good_input_for(ft, fx):
    for name, data in fx:
        if corpus.file_type_of(name) == ft and "password" not in name and len(data) < 400_000:
            return name, data
    return None, b"garbage"


def _consume_with(fn, fobj, path):
    fam = corpus.family()
    try:
        for _ in fn(fobj, path):
            pass
        return ("ok", None)
    except fam as e:
        return ("family", type(e).__name__)
    except Exception as e:  # noqa
        return ("other", type(e).__name__)


_HANDLER_NAMES = {}


def _named_in_handlers(modname):
    """names of the exception classes mentioned in `except` clauses of the module's current source"""
    if modname not in _HANDLER_NAMES:
        import ast
        import importlib
        names = set()
        try:
            src = open(importlib.import_module(modname).__file__, encoding="utf-8").read()
            for node in ast.walk(ast.parse(src)):
                if isinstance(node, ast.ExceptHandler) and node.type is not None:
                    for t in ast.walk(node.type):
                        if isinstance(t, ast.Name):
                            names.add(t.id)
                        elif isinstance(t, ast.Attribute):
                            names.add(t.attr)
        except Exception:  # noqa
            pass
        _HANDLER_NAMES[modname] = names
    return _HANDLER_NAMES[modname]


def _fault_injection(ctx, fx):
    broken = []
    regs = corpus.registry()
    outs = ctx.drive([{"op": "c01.escapes", "name": f} for _, _, f in regs])
    fam_excs, other_excs = _exc_instances()
    for (ft, m, f), a in zip(regs, outs):
        if "drv_error" in a:
            broken.append(Broken("correspondence", f"c01.escapes:{f}", a["drv_error"]))
            continue
        fn = corpus.extractor(m, f)
        name, data = _good_input_for(ft, fx)
        ks = [0, 1, 2, 3, 5, 8] if ctx.thorough else [0, 1, 3]
        if ctx.thorough:
            excs = fam_excs + other_excs
        else:
            # every exception class the extractor's CURRENT source names in an `except` clause is injected on every run
            # (a handler that is wrong only for its own class must not depend on the seed); the others are sampled
            named = _named_in_handlers(m)
            must = [e for e in other_excs if type(e).__name__ in named]
            rest = [e for e in other_excs if type(e).__name__ not in named]
            excs = fam_excs + must + ctx.rng.sample(rest, min(len(rest), max(4, 8 - len(must))))
        for exc in excs:
            for k in ks:
                kind, cls = _consume_with(fn, FaultIO(data, k, exc), "x." + ft)
                ctx.case(("inject", f, type(exc).__name__, k), nontrivial=k > 0)
                ctx.count(f"inject/{kind}")
                allowed = True
                if kind == "other":
                    allowed = a["other"]
                elif kind == "family":
                    allowed = a["famAll"] or cls in a["fams"]
                if not allowed:
                    broken.append(Broken("correspondence", f"c01.escapes:{f}",
                                         f"injected {type(exc).__name__} at call {k}: escaped {kind}:{cls}, analysis allows {a}",
                                         case={"kind": "inject", "extractor": [m, f], "fixture": name, "exc": type(exc).__name__, "k": k}))
        ctx.sample({"extractor": f, "analysis": a, "fixture": name})
    return broken


def _hostile_cases(ctx, fx):
    """[(label, ft-of-extractor, module, fn, bytes)]"""
    rng = ctx.rng
    regs = corpus.registry()
    by_ft = {}
    from sharepoint2text.parsing import router
    for ft, (m, f) in router._EXTRACTOR_REGISTRY.items():
        by_ft[ft] = (m, f)
    small = [(n, d) for n, d in fx if len(d) <= 350_000]
    cases = []
    per = ctx.n(3, 40)
    for name, data in small:
        ft = corpus.file_type_of(name)
        if ft is None or ft not in by_ft:
            continue
        m, f = by_ft[ft]
        cases.append((f"fixture:{name}", m, f, data))
        for kind, mb in corpus.mutations(rng, name, data, small, per):
            cases.append((f"{kind}:{name}", m, f, mb))
    # format A -> extractor B
    nx = ctx.n(40, 600)
    for _ in range(nx):
        name, data = rng.choice(small)
        _, m, f = rng.choice(regs)
        if rng.random() < 0.4:
            kind, data2 = (corpus.mutations(rng, name, data, small, 1) or [("same", data)])[0]
        else:
            kind, data2 = "same", data
        cases.append((f"cross[{kind}]:{name}->{f}", m, f, data2))
    # grammar/dictionary generated RTF (control words harvested from the current source x extreme parameters)
    rm, rf = by_ft["rtf"]
    for i, d in enumerate(corpus.rtf_token_docs(rng, ctx.n(500, 6000))):
        cases.append((f"rtfgrammar:{i}", rm, rf, d))
    # 7z archives with a mutated header block and recomputed checksums (the header parser is the library's own code)
    am, af = by_ft["7z"] if "7z" in by_ft else by_ft.get("zip")
    for label, d in corpus.sevenzip_header_mutants(rng, n_random=ctx.n(40, 400), exhaustive=ctx.thorough):
        cases.append((label, am, af, d))
    # tiny synthetic inputs for every extractor
    tiny = [b"", b"\x00", b"PK", b"PK\x03\x04", b"\xd0\xcf\x11\xe0\xa1\xb1\x1a\xe1", b"%PDF-1.4", b"{\\rtf1", b"From a\n", b"<", b"7z\xbc\xaf\x27\x1c",
            b"\xff\xfe", b"\xef\xbb\xbf", b"\x1f\x8b", b"BZh", b"\xfd7zXZ\x00", b"PK\x05\x06" + b"\x00" * 18, b"{\\rtf1 \\u-10179?\\u-8704?}", b"\xd0\xcf\x11\xe0\xa1\xb1\x1a\xe1" + b"\x00" * 600]
    for _, m, f in regs:
        for t in tiny:
            cases.append((f"tiny:{t[:8]!r}->{f}", m, f, t))
    return cases


def _run_case(args):
    label, m, f, data = args
    fn = corpus.extractor(m, f)
    r = corpus.run_extractor(fn, data, path=None, limit_s=LIMIT_S)
    return (label, m, f, r[0], r[1] if r[0] != "ok" else len(r[1]), r[2] if len(r) > 2 else "")


def _hostile_stream(ctx, fx):
    import hashlib
    broken = []
    cases = _hostile_cases(ctx, fx)
    results = []
    if ctx.thorough:
        import multiprocessing as mp
        with mp.get_context("fork").Pool(min(14, os.cpu_count() or 2)) as pool:
            results = pool.map(_run_case, cases, chunksize=8)
    else:
        results = []
        hangs = 0
        for c in cases:
            r = _run_case(c)
            results.append(r)
            if r[3] == "hang":
                hangs += 1
                if hangs >= 2:   # do not sit through one time limit per case once a hang is established
                    break
        cases = cases[:len(results)]
    nbad = 0
    for (label, m, f, data), (_, _, _, kind, info, rep) in zip(cases, results):
        ctx.case(("hostile", f, hashlib.sha1(data).hexdigest()), nontrivial=not label.startswith("tiny"))
        ctx.count(f"hostile/{label.split(':')[0].split('[')[0]}/{kind}")
        if kind in ("other", "hang"):
            nbad += 1
            if nbad <= 12:
                broken.append(Broken("correspondence", "c01.surface", f"{label}: {kind} {info} {rep} escaped {f} (model: impossible)",
                                     case={"kind": "bytes", "extractor": [m, f], "label": label, "data_b64": base64.b64encode(data).decode()}))
    ctx.sample({"hostile_cases": len(cases), "example_labels": [c[0] for c in cases[:: max(1, len(cases) // 5)]][:6]})
    return broken



# ----------------------------------------------------------------------------- read_file entry point
def _read_file_once(ext, data):
    """-> None | reason.  The bytes are written to <tmp>/f.<ext> and consumed through sharepoint2text.read_file"""
    import sharepoint2text
    with tempfile.TemporaryDirectory(prefix="s2t_c01rf_") as td:
        p = os.path.join(td, "f." + ext)
        with open(p, "wb") as fh:
            fh.write(data)
        r = corpus.run_extractor(lambda fobj, path: sharepoint2text.read_file(p), data, path=None, limit_s=LIMIT_S)
    if r[0] == "other":
        return f"read_file(f.{ext}) let {r[1]} escape ({r[2]}) — not an ExtractionError subclass"
    if r[0] == "hang":
        return f"read_file(f.{ext}) did not terminate within {LIMIT_S}s"
    return None


def _read_file_cases(ctx, fx):
    """[(label, ext, bytes)]: every routed extension (registry keys and aliases) x content of another format, truncated /
    mutated content, and short inputs that begin with another container's signature"""
    from sharepoint2text.parsing import router
    rng = ctx.rng
    exts = sorted(set(router._EXTRACTOR_REGISTRY) | set(getattr(router, "_EXTENSION_ALIASES", {})))
    small = [(n, d) for n, d in fx if len(d) <= 120_000]
    magic = [b"PK\x03\x04", b"PK\x03\x04" + b"\x14\x00" * 40, b"\xd0\xcf\x11\xe0\xa1\xb1\x1a\xe1" + b"\x00" * 520, b"{\\rtf1 x}", b"%PDF-1.7\n%%EOF",
             b"7z\xbc\xaf\x27\x1c\x00\x04", b"<html><p>x", b"From a@b Thu Jan  1 00:00:00 1970\n\nx\n", b"", b"\x00" * 64]
    zips = [d for n, d in small if d[:4] == b"PK\x03\x04"]
    cases = []
    for ext in exts:
        for mg in (magic if ctx.thorough else rng.sample(magic, 4) + [magic[0], magic[1]]):
            cases.append((f"rf-magic:{mg[:6]!r}", ext, mg))
        for _ in range(ctx.n(2, 10)):
            name, data = rng.choice(small)
            r = rng.random()
            if r < 0.4:
                kind, data2 = "same", data
            elif r < 0.7 and zips:
                z = rng.choice(zips)
                kind, data2 = "zip-truncated", z[: rng.randint(5, max(6, len(z) - 1))]
            else:
                kind, data2 = (corpus.mutations(rng, name, data, small, 1) or [("same", data)])[0]
            cases.append((f"rf-cross[{kind}]:{name}", ext, data2))
    return cases


def _read_file_stream(ctx, fx):
    import hashlib
    broken = []
    nbad = 0
    for label, ext, data in _read_file_cases(ctx, fx):
        why = _read_file_once(ext, data)
        ctx.case(("read_file", ext, hashlib.sha1(data).hexdigest()))
        ctx.count(f"read_file/{label.split(':')[0].split('[')[0]}/{'bad' if why else 'ok-or-family'}")
        if why:
            nbad += 1
            if nbad <= 6:
                broken.append(Broken("correspondence", "c01.read_file", f"{label}: {why} (model: impossible)",
                                     case={"kind": "read_file", "ext": ext, "label": label, "data_b64": base64.b64encode(data).decode()}))
            if nbad >= 12:
                break
    return broken


# ----------------------------------------------------------------------------- CLI
_CLI_LIMIT_S = 30


def _cli_once(argv):
    """cli.main in this process under an alarm: a run that does not end (a consumer waiting for a producer thread that
    died, a loop) comes back as rc 'HANG' — termination is part of the statement, and the check itself must end"""
    from sharepoint2text import cli
    out, err = io.StringIO(), io.StringIO()
    old = signal.signal(signal.SIGALRM, corpus._alarm)
    signal.alarm(_CLI_LIMIT_S)
    try:
        with contextlib.redirect_stdout(out), contextlib.redirect_stderr(err):
            try:
                rc = cli.main(argv)
            except SystemExit as e:
                rc = f"SystemExit:{e.code}"
            except corpus.Timeout:
                rc = f"HANG: no exit within {_CLI_LIMIT_S} s"
            except BaseException as e:  # noqa
                rc = f"RAISED:{type(e).__name__}"
    finally:
        signal.alarm(0)
        signal.signal(signal.SIGALRM, old)
    return rc, out.getvalue(), err.getvalue()


def _cli_ok(rc, out, err):
    if rc == 0:
        return (len(out) > 0 and out.endswith("\n")), "exit 0 must print the result"
    if rc == 1:
        lines = err.splitlines()
        return (out == "" and len(lines) == 1), f"exit 1 needs empty stdout (got {len(out)} chars) and exactly one stderr line (got {len(lines)})"
    return False, f"exit status {rc!r}"


def _cli_discipline(ctx, fx):
    broken = []
    rng = ctx.rng
    small = [(n, d) for n, d in fx if len(d) <= 350_000 and corpus.file_type_of(n)]
    picks = small if ctx.thorough else rng.sample(small, min(14, len(small)))
    with tempfile.TemporaryDirectory(prefix="s2t_c01_") as td:
        n = 0
        for name, data in picks:
            variants = [("fixture", data)] + corpus.mutations(rng, name, data, small, ctx.n(1, 4))
            for kind, b in variants:
                p = os.path.join(td, f"f{n}_" + os.path.basename(name))
                n += 1
                with open(p, "wb") as fh:
                    fh.write(b)
                for flags in ([], ["--json"], ["--json-unit"], ["--json", "--binary"]) if (ctx.thorough or kind == "fixture") else ([rng.choice(["--json", "--json-unit"])],):
                    rc, out, err = _cli_once([p, *flags])
                    ok, why = _cli_ok(rc, out, err)
                    ctx.case(("cli", name, kind, tuple(flags), len(b)))
                    ctx.count(f"cli/{kind if kind == 'fixture' else 'mutated'}/rc={rc}")
                    if not ok:
                        broken.append(Broken("correspondence", "c01.cli", f"{name} [{kind}] {flags}: {why}",
                                             case={"kind": "cli", "name": os.path.basename(name), "flags": flags, "data_b64": base64.b64encode(b).decode()}))
                os.unlink(p)
        # generated inputs whose serialisation fails late: XLSX with a duration / time / date cell
        try:
            import datetime
            import openpyxl
            wb = openpyxl.Workbook()
            ws = wb.active
            ws.append(["name", "duration", "when"])
            ws.append(["a", datetime.timedelta(hours=1, minutes=2), datetime.datetime(2024, 1, 2, 3, 4, 5)])
            ws.append(["b", datetime.time(1, 2, 3), datetime.date(2024, 1, 2)])
            p = os.path.join(td, "typed_cells.xlsx")
            wb.save(p)
            with open(p, "rb") as fh:
                b = fh.read()
            for flags in ([], ["--json"], ["--json-unit"], ["--json", "--binary"]):
                rc, out, err = _cli_once([p, *flags])
                ok, why = _cli_ok(rc, out, err)
                ctx.case(("cli", "typed_cells.xlsx", tuple(flags)))
                ctx.count(f"cli/generated/rc={rc}")
                if not ok:
                    broken.append(Broken("correspondence", "c01.cli", f"typed_cells.xlsx {flags}: {why}",
                                         case={"kind": "cli", "name": "typed_cells.xlsx", "flags": flags, "data_b64": base64.b64encode(b).decode()}))
        except ImportError:
            pass
        # nonexistent file and directory
        for argv in ([os.path.join(td, "missing.docx")], [td]):
            rc, out, err = _cli_once(argv)
            ok, why = _cli_ok(rc, out, err)
            ctx.case(("cli", tuple(argv)))
            if not ok or rc != 1:
                broken.append(Broken("correspondence", "c01.cli", f"{argv}: {why}", case={"kind": "cli-argv", "argv": argv}))
    return broken[:10]


def _attachments(ctx, fx):
    """EmailContent.iterate_supported_attachments: whatever an attachment's extractor does, only family
    exceptions escape (C01_attachments); faults are injected on read/tell/getvalue calls only (seek(0) on the payload is assumed total, as in the theorem)"""
    from sharepoint2text.parsing.extractors.data_types import EmailAddress, EmailAttachment, EmailContent
    from sharepoint2text.parsing.mime_types import MIME_TYPE_MAPPING
    broken = []
    fam = corpus.family()
    fam_excs, other_excs = _exc_instances()
    rng = ctx.rng
    mimes = sorted(MIME_TYPE_MAPPING)
    small = [(n, d) for n, d in fx if len(d) < 200_000]
    hung = 0
    for i in range(ctx.n(60, 600)):
        atts = []
        for _ in range(rng.randint(1, 3)):
            mt = rng.choice(mimes)
            name, data = rng.choice(small)
            if rng.random() < 0.5:
                data = (corpus.mutations(rng, name, data, small, 1) or [("same", data)])[0][1]
            fname = rng.choice([os.path.basename(name), "a." + MIME_TYPE_MAPPING[mt], "noext", "x.bin"])
            if rng.random() < 0.4:
                stream = FaultIO(data, rng.randint(0, 5), rng.choice(fam_excs + other_excs), fault_on_seek=False)
            else:
                stream = io.BytesIO(data)
            atts.append(EmailAttachment(filename=fname, mime_type=mt, data=stream, is_supported_mime_type=True))
        ec = EmailContent(from_email=EmailAddress(), attachments=atts)
        if hung >= 2:       # non-termination is established
            break
        old_h = signal.signal(signal.SIGALRM, corpus._alarm)
        signal.alarm(_CLI_LIMIT_S)
        try:
            for _ in ec.iterate_supported_attachments():
                pass
            kind = "ok"
        except corpus.Timeout:
            kind = "hang"
            hung += 1
            broken.append(Broken("correspondence", "c01.attachments", f"iterate_supported_attachments did not end within {_CLI_LIMIT_S} s ({[a.filename for a in atts]})",
                                 case={"kind": "attachments", "names": [a.filename for a in atts], "mimes": [a.mime_type for a in atts], "exc": "hang"}))
        except fam as e:
            kind = "family"
        except Exception as e:  # noqa
            kind = "other"
            broken.append(Broken("correspondence", "c01.attachments", f"{type(e).__name__} escaped iterate_supported_attachments ({[a.filename for a in atts]})",
                                 case={"kind": "attachments", "names": [a.filename for a in atts], "mimes": [a.mime_type for a in atts], "exc": type(e).__name__}))
        finally:
            signal.alarm(0)
            signal.signal(signal.SIGALRM, old_h)
        ctx.case(("att", i, tuple(a.filename for a in atts)))
        ctx.count(f"attachments/{kind}")
    return broken[:5]


# ----------------------------------------------------------------------------- the library's own regular expressions
def _timed(fn, limit_s):
    """seconds fn() took, or None when it had to be interrupted after limit_s (CPython's matcher polls signals)"""
    old = signal.signal(signal.SIGALRM, corpus._alarm)
    t0 = time.perf_counter()
    signal.alarm(limit_s)
    try:
        try:
            fn()
            return time.perf_counter() - t0
        except corpus.Timeout:
            return None
    finally:
        signal.alarm(0)
        signal.signal(signal.SIGALRM, old)


def _regex_entries():
    ents, _dyn = RI.inventory(corpus.REPO)
    return ents


def _ent_case(ent, label, n, attack):
    raw = attack if isinstance(attack, (bytes, bytearray)) else attack.encode("utf-8", "surrogatepass")
    return {"kind": "regex", "file": ent["file"], "pat": ent["pat"], "flags": ent["flags"], "label": label, "n": n,
            "attack_b64": base64.b64encode(raw).decode(), "attack_is_bytes": isinstance(attack, (bytes, bytearray))}


def _pattern_attack(ent, ns):
    """pattern level: -> None | (label, n, attack) — the first pumped string on which scanning needs more than PUMP_LIMIT_S"""
    pat = RI.text_pat(ent["pat"])
    rx = re.compile(pat, ent["flags"])
    n_ops = 0
    for label, n, s in sorted(RI.attacks(pat, ent["flags"], ns), key=lambda a: a[1]):
        n_ops += 1
        if _timed(lambda: sum(1 for _ in rx.finditer(s)), PUMP_LIMIT_S) is None:
            return (label, n, s), n_ops
    return None, n_ops


def _extractor_of_ft(ft):
    from sharepoint2text.parsing import router
    return router._EXTRACTOR_REGISTRY[ft]


def _carrier_docs(ent, ns, labels=None):
    """[(carrier label, (module, fn), document bytes, attack label, n)] for one inventoried pattern"""
    car = CC.carriers().get(ent["file"], [])
    if not car:
        return
    pat = RI.text_pat(ent["pat"])
    for label, n, s in sorted(RI.attacks(pat, ent["flags"], ns), key=lambda a: a[1]):
        if labels and label.split(":", 1)[1] not in labels:
            continue
        for clabel, ft, build in car:
            try:
                mf = _extractor_of_ft(ft)
            except KeyError:
                continue
            yield clabel, tuple(mf), build(s), label, n


def _regex_pumping(ctx, heavy=False, only=None):
    """every inventoried pattern x every unbounded repeat: body repeated n times, continuation cut / spoiled;
    (1) the pattern alone, (2) embedded in every carrier document of the pattern's file, through the extractor"""
    import hashlib
    broken = []
    ents = [e for e in _regex_entries() if only is None or (e["file"], e["pat"]) in only]
    ns_pat = tuple(range(20, 61, 2)) if heavy else (20, 24, 28, 40, 60)
    ns_car = (20, 24, 28, 32, 40, 60) if heavy else ((24, 40, 60) if ctx.thorough else (32,))
    labels = None if (heavy or ctx.thorough) else ("cut", "cut+nul", "drop-last")
    slow_pat = []
    for e in ents:
        hit, n_ops = _pattern_attack(e, ns_pat)
        ctx.case(("regex", e["file"], e["pat"], e["flags"]), nontrivial=n_ops > 0)
        ctx.count(f"regex/pattern/{'hang' if hit else ('pumped' if n_ops else 'no-unbounded-repeat')}")
        ctx.count("regex/pattern-ops", n_ops)
        if hit:
            slow_pat.append(e)
            label, n, s = hit
            broken.append(Broken("correspondence", "c01.regex",
                                 f"{e['file']}: pattern {e['pat']!r} (flags {e['flags']}) needs more than {PUMP_LIMIT_S}s on a {len(s)}-character string "
                                 f"({label}, {n} repeats) (model: star height reviewed, no blow-up)", case=_ent_case(e, label, n, s)))
    # carriers: the slow patterns first, so that a hang is met within the first documents
    seen = set()
    hangs = 0
    order = slow_pat + [e for e in ents if e not in slow_pat]
    for e in order:
        if hangs >= 2:
            break
        for clabel, (m, f), doc, label, n in _carrier_docs(e, ns_car, labels):
            h = hashlib.sha1(doc).hexdigest()
            if (f, h) in seen:
                continue
            seen.add((f, h))
            why = _check_bytes(m, f, doc, CARRIER_LIMIT_S)
            ctx.case(("regex-carrier", f, h))
            ctx.count(f"regex/carrier/{clabel}/{'bad' if why else 'ok-or-family'}")
            if why:
                hangs += 1
                broken.append(Broken("correspondence", "c01.surface", f"regex-carrier:{clabel} [{e['pat']!r} {label} n={n}]: {why} (model: impossible)",
                                     case={"kind": "bytes", "extractor": [m, f], "label": f"regex-carrier:{clabel}:{label}:n={n}", "limit_s": CARRIER_LIMIT_S,
                                           "data_b64": base64.b64encode(doc).decode()}))
                break
    ctx.sample({"regex_inventory": len(ents), "carrier_documents": len(seen), "files_with_carriers": sorted(CC.carriers())})
    return broken


def _regex_case_violations(c):
    """search/replay for a recorded pattern-level blow-up: first try to reach it through an extractor (carrier document);
    only if no carrier reaches it report the pattern itself"""
    attack = base64.b64decode(c["attack_b64"])
    if not c.get("attack_is_bytes"):
        attack = attack.decode("utf-8", "surrogatepass")
    cur = [e for e in _regex_entries() if e["file"] == c["file"]]
    ent = next((e for e in cur if e["pat"] == c["pat"] and e["flags"] == c["flags"]), None)
    if ent is not None:
        for clabel, (m, f), doc, label, n in _carrier_docs(ent, tuple(range(20, 61, 4))):
            if label.split(":")[0] != c["label"].split(":")[0]:
                continue
            why = _check_bytes(m, f, doc, CARRIER_LIMIT_S)
            if why:
                return [Violation(f"surface:{f}", f"{why} [{clabel}: pattern {ent['pat']!r} of {ent['file']}, {label}, {n} repeats]",
                                  {"kind": "bytes", "extractor": [m, f], "label": f"regex-carrier:{clabel}:{label}:n={n}", "limit_s": CARRIER_LIMIT_S,
                                   "data_b64": base64.b64encode(doc).decode()})]
    # pattern level: any pattern the file compiles NOW that cannot get through the recorded string
    for e in cur:
        pat = RI.text_pat(e["pat"])
        if isinstance(pat, bytes) != isinstance(attack, bytes):
            continue
        rx = re.compile(pat, e["flags"])
        if _timed(lambda: sum(1 for _ in rx.finditer(attack)), PUMP_LIMIT_S) is None:
            return [Violation(f"regex:{e['file']}", f"{e['file']}: pattern {e['pat']!r} (flags {e['flags']}) does not get through a {len(attack)}-character string within "
                              f"{PUMP_LIMIT_S}s ({c['label']}, {c['n']} repeats); no carrier document of the harness reaches it", c)]
    return []


# ----------------------------------------------------------------------------- CLI on inputs that fail after the first result
def _cli_subprocess(argv):
    env = dict(os.environ)
    env["PYTHONPATH"] = corpus.REPO + os.pathsep + env.get("PYTHONPATH", "")
    try:
        p = subprocess.run([sys.executable, "-m", "sharepoint2text.cli", *argv], capture_output=True, text=True, timeout=60, env=env, cwd=corpus.REPO)
    except subprocess.TimeoutExpired:
        return "TIMEOUT", "", ""
    return p.returncode, p.stdout, p.stderr


def _yields_before_failure(path):
    """library-level classification of an input: ('ok', n) | ('family', n) | ('other', n) with n = results produced before the end"""
    import sharepoint2text
    n = 0
    old = signal.signal(signal.SIGALRM, corpus._alarm)
    signal.alarm(_CLI_LIMIT_S)
    try:
        for _ in sharepoint2text.read_file(path):
            n += 1
        return "ok", n
    except corpus.Timeout:
        return "hang", n
    except corpus.family():
        return "family", n
    except Exception:  # noqa
        return "other", n
    finally:
        signal.alarm(0)
        signal.signal(signal.SIGALRM, old)


def _cli_late_failures(ctx):
    broken = []
    inputs = CC.late_failure_inputs(ctx.rng)
    late = 0
    hung = 0
    with tempfile.TemporaryDirectory(prefix="s2t_c01late_") as td:
        for i, (name, data, what) in enumerate(inputs):
            p = os.path.join(td, name)
            with open(p, "wb") as fh:
                fh.write(data)
            if hung >= 2:
                break
            kind, n = _yields_before_failure(p)
            if kind == "hang":
                hung += 1
                broken.append(Broken("correspondence", "c01.read_file", f"{name} ({what}): read_file did not end within {_CLI_LIMIT_S} s after {n} result(s)",
                                     case={"kind": "cli", "name": name, "flags": [], "data_b64": base64.b64encode(data).decode()}))
            is_late = kind != "ok" and n >= 1
            late += is_late
            ctx.count(f"cli/late-input/{kind}-after-{min(n, 3)}")
            runs = [(fl, False) for fl in ([], ["--json"], ["--json-unit"], ["--json", "--binary"])]
            if is_late and (ctx.thorough or late <= 2):
                runs += [([], True), (["--json"], True)]
            for flags, sub in runs:
                if hung >= 2:       # non-termination is established: do not sit through one time limit per further run
                    break
                rc, out, err = _cli_subprocess([p, *flags]) if sub else _cli_once([p, *flags])
                if isinstance(rc, str) and (rc.startswith("HANG") or rc == "TIMEOUT"):
                    hung += 1
                ok, why = _cli_ok(rc, out, err)
                ctx.case(("cli-late", name, tuple(flags), sub, len(data)), nontrivial=is_late)
                ctx.count(f"cli/{'late' if is_late else 'multi'}{'-subprocess' if sub else ''}/rc={rc}")
                if not ok:
                    broken.append(Broken("correspondence", "c01.cli", f"{name} ({what}; library: {kind} after {n} result(s)) {flags}{' [subprocess]' if sub else ''}: {why}",
                                         case={"kind": "cli", "name": name, "flags": flags, "subprocess": sub, "data_b64": base64.b64encode(data).decode()}))
            os.unlink(p)
    ctx.sample({"late_failure_inputs": len(inputs), "fail_after_first_result": late})
    if late == 0:
        ctx.notes.append("no generated multi-result input failed after its first result (the library no longer produces results lazily?)")
    return broken[:6]



# ----------------------------------------------------------------------------- well-formed hostile structure (reference graphs)
def _xmlgraph_fixtures(fx):
    from sharepoint2text.parsing import router
    return [(n, d) for n, d in fx if d[:4] == b"PK\x03\x04" and len(d) <= 350_000 and corpus.file_type_of(n) in router._EXTRACTOR_REGISTRY
            and "password" not in n]


def _xmlgraph_build(fxd, spec):
    if isinstance(spec, (bytes, bytearray)):
        return bytes(spec)
    if "inject" in spec:
        return XG.zip_inject(fxd[spec["fixture"]], spec)
    return XG.zip_mutant(fxd[spec["fixture"]], spec["member"], spec["id"], spec["ref"], spec["op"])


def _xmlgraph_stream(ctx, fx, exhaustive=False, max_bad=1):
    """every reference relation visible in the XML members of the container fixtures, rewired into cycles / dangling /
    duplicate ids (harness/builders/c01_xmlgraph.py): the documents stay well-formed, so they reach the code that FOLLOWS references"""
    import hashlib
    from sharepoint2text.parsing import router
    broken = []
    zf = _xmlgraph_fixtures(fx)
    fxd = dict(zf)
    module_of = lambda n: router._EXTRACTOR_REGISTRY[corpus.file_type_of(n)][0]  # noqa: E731
    if exhaustive:
        # references the fixtures do not contain: XML names the extractor's CURRENT source mentions, injected as cyclic references
        # between the entities of every id site — first the names used by the functions that contain a `while`, then every relation
        # of every fixture, then the remaining names
        plan = XG.inject_plan(zf, module_of, focus_only=True) + XG.plan(ctx.rng, zf, True, 12)
        plan += [p for p in XG.inject_plan(zf, module_of) if p not in plan]
    else:
        plan = XG.plan(ctx.rng, zf, ctx.thorough, ctx.n(3, 12))
    seen = set()
    nbad = 0
    for label, name, spec in plan:
        data = _xmlgraph_build(fxd, spec)
        if data is None:
            ctx.count("xmlgraph/not-applicable")
            continue
        m, f = router._EXTRACTOR_REGISTRY[corpus.file_type_of(name)]
        h = hashlib.sha1(data).hexdigest()
        if (f, h) in seen:
            continue
        seen.add((f, h))
        why = _check_bytes(m, f, data, CARRIER_LIMIT_S)
        ctx.case(("xmlgraph", f, h))
        ctx.count(f"xmlgraph/{label.split(']')[0].split('[')[1].split('+')[0]}/{name.rsplit('.', 1)[-1]}/{'bad' if why else 'ok-or-family'}")
        if why:
            nbad += 1
            broken.append(Broken("correspondence", "c01.surface", f"{label}: {why} (model: impossible)",
                                 case={"kind": "bytes", "extractor": [m, f], "label": label, "limit_s": CARRIER_LIMIT_S,
                                       "data_b64": base64.b64encode(data).decode()}))
            if nbad >= max_bad:
                break
    ctx.sample({"xmlgraph_mutants": len(seen), "example_labels": [p[0] for p in plan[:: max(1, len(plan) // 5)]][:6]})
    return broken


def correspondence(ctx):
    fx = corpus.fixtures()
    broken = []
    broken += _xmlgraph_stream(ctx, fx)
    if any("did not terminate" in b.detail for b in broken) and not ctx.thorough:
        # a concrete hanging input is established: the remaining byte streams would sit through one time limit per further hang
        broken += _fault_injection(ctx, fx)
        broken += _attachments(ctx, fx)
        ctx.notes.append("hostile-bytes / read_file / CLI / regex streams skipped in this run: the reference-graph stream already produced a hanging input")
        return {"broken": broken, "violations": []}
    broken += _fault_injection(ctx, fx)
    broken += _attachments(ctx, fx)
    broken += _hostile_stream(ctx, fx)
    broken += _read_file_stream(ctx, fx)
    broken += _cli_discipline(ctx, fx)
    broken += _cli_late_failures(ctx)
    broken += _regex_pumping(ctx)
    return {"broken": broken, "violations": []}


# ----------------------------------------------------------------------------- oracle on the real code
def _check_bytes(m, f, data, limit_s=LIMIT_S):
    fn = corpus.extractor(m, f)
    r = corpus.run_extractor(fn, data, path=None, limit_s=limit_s)
    if r[0] == "other":
        return f"{f} let {r[1]} escape ({r[2]}) — not an ExtractionError subclass"
    if r[0] == "hang":
        return f"{f} did not terminate within {limit_s}s on {len(data)} bytes"
    return None


def search(ctx, broken):
    out = []
    fx = corpus.fixtures()
    # 1. re-run recorded disagreeing inputs against the property statement itself
    for b in broken:
        c = b.case or {}
        if c.get("kind") == "bytes":
            data = base64.b64decode(c["data_b64"])
            why = _check_bytes(*c["extractor"], data, c.get("limit_s", LIMIT_S))
            if why:
                out.append(Violation(f"surface:{c['extractor'][1]}", why, {"kind": "bytes", "extractor": c["extractor"], "label": c["label"], "data_b64": c["data_b64"],
                                                                           **({"limit_s": c["limit_s"]} if "limit_s" in c else {})}))
        elif c.get("kind") == "regex":
            out += _regex_case_violations(c)
        elif c.get("kind") == "read_file":
            why = _read_file_once(c["ext"], base64.b64decode(c["data_b64"]))
            if why:
                out.append(Violation(f"surface:read_file", why, c))
        elif c.get("kind") == "inject":
            m, f = c["extractor"]
            fam_excs, other_excs = _exc_instances()
            exc = next(e for e in fam_excs + other_excs if type(e).__name__ == c["exc"])
            name, data = next(((n, d) for n, d in fx if n == c["fixture"]), (None, b"garbage"))
            kind, cls = _consume_with(corpus.extractor(m, f), FaultIO(data, c["k"], exc), None)
            if kind == "other":
                out.append(Violation(f"surface:{f}", f"{f}: a {c['exc']} raised by the input stream at call {c['k']} escapes as {cls}", c))
        elif c.get("kind") == "attachments":
            out.append(Violation("surface:attachments", b.detail, c))
        elif c.get("kind") == "cli":
            with tempfile.TemporaryDirectory(prefix="s2t_c01_") as td:
                p = os.path.join(td, c["name"])
                with open(p, "wb") as fh:
                    fh.write(base64.b64decode(c["data_b64"]))
                rc, o, e = _cli_subprocess([p, *c["flags"]]) if c.get("subprocess") else _cli_once([p, *c["flags"]])
                ok, why = _cli_ok(rc, o, e)
                if not ok:
                    out.append(Violation("cli:discipline", f"CLI {c['flags']} on {c['name']}: {why}", c))
    if out:
        # one violation per mechanism is enough
        seen_keys, uniq = set(), []
        for v in out:
            if v.key not in seen_keys:
                seen_keys.add(v.key)
                uniq.append(v)
        return uniq
    # 2a. the library's regular expressions: heavier pumping (every even repeat count 20..60, every cut) of every inventoried
    #     pattern — a new or changed pattern is in the inventory of the CURRENT source
    for b in _regex_pumping(ctx, heavy=True):
        c = b.case or {}
        if c.get("kind") == "regex":
            out += _regex_case_violations(c)
        elif c.get("kind") == "bytes":
            why = _check_bytes(*c["extractor"], base64.b64decode(c["data_b64"]), c.get("limit_s", LIMIT_S))
            if why:
                out.append(Violation(f"surface:{c['extractor'][1]}", why, c))
        if out:
            return out[:1]
    # 2b. CLI on inputs that fail after the first result
    for b in _cli_late_failures(ctx):
        out.append(Violation("cli:discipline", b.detail, b.case))
    if out:
        return out[:1]
    # 2c. a termination obligation broke (new `while`, reference-chasing loop, growing for-loop, recursion): every reference relation of
    #     every container fixture rewired into cycles, exhaustively
    for b in _xmlgraph_stream(ctx, fx, exhaustive=True):
        c = b.case
        why = _check_bytes(*c["extractor"], base64.b64decode(c["data_b64"]), c.get("limit_s", LIMIT_S))
        if why:
            return [Violation(f"surface:{c['extractor'][1]}", why, c)]
    # 2. a theorem / skeleton obligation broke: hunt with fault injection (cheap, targeted at wrappers) and the hostile stream
    fam_excs, other_excs = _exc_instances()
    for ft, m, f in corpus.registry():
        fn = corpus.extractor(m, f)
        name, data = _good_input_for(ft, fx)
        for exc in other_excs:
            for k in range(0, 12):
                kind, cls = _consume_with(fn, FaultIO(data, k, exc), None)
                if kind == "other":
                    out.append(Violation(f"surface:{f}", f"{f}: a {type(exc).__name__} raised by the input stream at call {k} escapes as {cls}",
                                         {"kind": "inject", "extractor": [m, f], "fixture": name, "exc": type(exc).__name__, "k": k}))
                    break
            else:
                continue
            break
    if out:
        return out
    for label, m, f, data in _hostile_cases(ctx, fx):
        why = _check_bytes(m, f, data)
        if why:
            out.append(Violation(f"surface:{f}", why, {"kind": "bytes", "extractor": [m, f], "label": label, "data_b64": base64.b64encode(data).decode()}))
            if len(out) >= 3:
                break
    if not out:
        for label, ext, data in _read_file_cases(ctx, fx):
            why = _read_file_once(ext, data)
            if why:
                out.append(Violation("surface:read_file", why, {"kind": "read_file", "ext": ext, "label": label, "data_b64": base64.b64encode(data).decode()}))
                break
    if not out:
        for b in _cli_discipline(ctx, fx):
            c = b.case
            out.append(Violation("cli:discipline", b.detail, c))
    return out


def replay(ctx, payload):
    c = payload.get("replay", {})
    if c.get("kind") == "bytes":
        why = _check_bytes(*c["extractor"], base64.b64decode(c["data_b64"]), c.get("limit_s", LIMIT_S))
        return (why is None), why or "only family exceptions / results"
    if c.get("kind") == "regex":
        vs = _regex_case_violations(c)
        return (not vs), "; ".join(v.what for v in vs) or "every pattern of the file gets through the recorded string"
    if c.get("kind") == "read_file":
        why = _read_file_once(c["ext"], base64.b64decode(c["data_b64"]))
        return (why is None), why or "only family exceptions / results"
    if c.get("kind") == "inject":
        vs = search(ctx, [Broken("correspondence", "replay", "", case=c)])
        return (not vs), "; ".join(v.what for v in vs) or "holds"
    if c.get("kind") == "cli":
        vs = search(ctx, [Broken("correspondence", "replay", "", case=c)])
        return (not vs), "; ".join(v.what for v in vs) or "holds"
    return False, "replay names a broken obligation, not an input: " + payload.get("what", "")
