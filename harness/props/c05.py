"""C05 — to_json is JSON-serialisable and from_json restores the same object.

Correspondence of S2T.Model.Serial (ser / deser / CLI shaping / cell normalisation) with the real
`serialization.py`, `cli.py`, `xlsx_extractor._get_cell_value`, on
  (a) type-directed instances of every registered dataclass (strict = exactly as hinted, loose = with tuples, sets,
      foreign objects, mistyped fields, marker-looking content everywhere),
  (b) results and units of the real extractors on the repository fixtures and on generated XLSX workbooks,
  (c) a malformed stream: serialised documents with one injected fault, and junk documents,
  (d) process histories: sequences of to_json / serialize_extraction / from_json / CLI calls executed in FRESH process
      states (harness/workers/c05_history.py: a zygote interpreter that imported the library and made no library call
      forks one child per history; JSON "stored by another process" is written by yet another child), compared call by
      call with the registry state machine of S2T/Model/SerialState.lean (op c05.hist) and judged afterwards, in that
      process state, by the oracle.  This harness process itself is useless for that: it calls `_get_type_registry()`
      before anything else and keeps every kind of object serialised and deserialised.
  (e) binary payloads of every SIZE CLASS (props/c05_codec.py): described payloads from 0 B to 12 MiB - every power of two and
      every integer constant of serialization.py / cli.py as b-1, b, b+1, six content patterns - at a binary leaf of a type-directed
      instance and delivered by the extractors on generated files; the real text of the leaf against the model's b64enc at 3-aligned
      windows (theorems C05_codec_window / _suffix / _length make the windows stand for the text), the rest against the model's answer
      for the small twin, the restored payload byte for byte; the real CLI on a file with an 8 MiB + 1 attachment,
and an oracle of the property statement itself on the real code (independent of the Lean model).
"""
from __future__ import annotations

import base64
import contextlib
import copy
import dataclasses
import datetime
import decimal
import fractions
import io
import json
import math
import os
import subprocess
import tempfile
import types
import typing

import corpus
from props import c05_codec as CODEC
from run import Broken, Infra, Violation

GEN = ["Schema", "SerialState", "SerialSites", "SerialCodec"]
RULE = ("cases = type-directed instances of every registered dataclass (strict: every field from its hint; loose: "
        "+tuples/sets/foreign objects/mistyped fields), strings and dict keys drawn from the marker vocabulary "
        "(_type,_bytes,_bytesio,class names,base64 text); + results and units of the extractors on all fixtures and "
        "generated XLSX workbooks; + serialised documents with one injected fault; + CLI payloads; + process histories in fresh "
        "process states (per concrete class: its stored JSON restored after serialising / restoring unrelated, related and same-class "
        "objects, failing from_json calls, repeated calls, unit serialisation, CLI runs; every include_binary order; CLI flag permutations); "
        "+ the real cli.main under all four flag combinations on generated inputs (mbox / zip / tar with 1-3 results, each with none / one / several / "
        "equal / empty binary payloads; equal results); + consumption histories (objects whose several streams hold equal bytes restored 2-3 times, "
        "every stream read / closed / read through the interface after all were collected, restored again in between, every restored object re-observed). "
        "+ binary payloads of every size class (powers of two 16 B .. 8 MiB and every integer constant of the serialiser / CLI source as b-1, b, b+1; one random size up to 12 MiB; "
        "patterns random / 00 / FF / '+/' / whitespace-NUL-'=' / special first and last bytes, every pattern at every exact boundary up to 64 KiB) at a binary leaf of an instance and "
        "in generated e-mails / documents, compared with the model at 3-aligned windows across every boundary, by length, around the leaf, and byte for byte after from_json. "
        "distinct = distinct encoded value; non-trivial = value contains a container, a binary leaf or a nested instance")
ASSUMPTIONS = [
    "json.loads(json.dumps(j)) == j for plain data (None/bool/int/float/str/list/dict with str keys): CPython's json, "
    "exercised by the oracle on every case but not modelled",
    "base64: the model decodes canonical base64 only; CPython's lenient decoding of non-canonical text is outside the model "
    "(such malformed cases are counted as 'unmodelled' and skipped)",
    "for a field hinted Any the type-directed instances use None/bool/int/float/str/bytes/BytesIO/list/tuple/set/dict/dataclass "
    "values; objects of other types (timedelta, Decimal, ...) are judged only where an extractor produces them",
    "objects are as their constructor leaves them (__post_init__ applied); attributes re-assigned afterwards are outside the theorems",
    "openpyxl (read_only, data_only) hands cells over as None/bool/int/float/str/datetime/date/time/timedelta (Cell universe of the model; "
    "anything else is covered by the `other` constructor)",
    "dataclasses.fields order, typing.get_type_hints, dict insertion order, str(key) are CPython's",
    "restored streams: the caller reads, rewinds and closes them (no write / truncate); sharing of lists / dicts / nested instances between restored "
    "objects is judged by the oracle only (identity walk + demonstrated effect), not modelled in Lean",
    "binary payloads above 3 KiB are compared with the model's b64enc at sampled 3-aligned windows (across every power of two, every integer constant of the "
    "source and their small multiples, random ones, head, tail), by the length formula and byte for byte after the round trip - not character by character; sizes above 12 MiB are not generated",
    "process histories: state that could make the round trip history-dependent lives in the inventoried kinds of cells (module-level "
    "containers / globals of serialization.py and cli.py, caches, mutable defaults, attribute stores in the path functions); anything else "
    "is only exercised by the fresh-process histories, not proved absent",
]
TRUSTED = ["tools/gen/serial_codec.py (codec call sites of serialization.py -> Lean inventory) + harness/props/c05_codec.py (described payloads, size classes, windows)",
           "tools/gen/serial.py (registry/fields/hints/defaults/__post_init__ -> Lean schema)",
           "tools/gen/serial_sites.py (returned expressions of the deserialiser's path, stream constructor sites, module-level objects, mentions of the "
           "flag-taking serialisers in cli.py -> Lean inventory)",
           "harness/builders/c14docs.py + the e-mail / mbox / zip / tar writers in harness/props/c05.py (generated inputs)",
           "tools/gen/serial_state.py (state cells of the serialisation path and their classified mentions -> Lean inventory)",
           "harness/workers/c05_history.py (fork-based fresh process states: the state right after importing the package stands for a fresh interpreter)",
           "model of _serialize_for_json/_deserialize_value/_deserialize_dataclass in S2T/Model/Serial.lean (tied by this correspondence)"]

MARKERS = ("_type", "_bytes", "_bytesio")


# =============================================================================================== encoding
def _reg():
    from sharepoint2text.parsing.extractors import serialization as S
    return S._get_type_registry()


def enc_key(k):
    if k is None:
        return ["n"]
    if isinstance(k, bool):
        return ["b", k]
    if isinstance(k, int):
        return ["i", str(k)]
    if isinstance(k, str):
        return ["s", k]
    return ["k", str(k)]


def enc(v):
    """Python value -> tagged protocol value (see S2T/Drv/C05.lean)."""
    if v is None:
        return ["n"]
    if isinstance(v, bool):
        return ["b", v]
    if isinstance(v, int):
        return ["i", str(v)]
    if isinstance(v, float):
        return ["f", repr(v)]
    if isinstance(v, str):
        return ["s", v]
    if isinstance(v, (io.BytesIO, bytearray, bytes)):
        # a generated payload (props/c05_codec.py) travels as its description: a replay of a few characters stands for MiBs
        raw = v.getvalue() if isinstance(v, io.BytesIO) else v
        d = CODEC.lookup(raw)
        if d is not None:
            kind = "yi" if isinstance(v, io.BytesIO) else "ya" if isinstance(v, bytearray) else "y"
            return ["yg", kind, d] + ([v.tell()] if isinstance(v, io.BytesIO) and v.tell() else [])
    if isinstance(v, io.BytesIO):
        # a stream that has been read carries its cursor (third element, ignored by the Lean side: the model's
        # serialiser encodes the whole buffer) so that a replay rebuilds the object in the same state
        return ["yi", list(v.getvalue())] + ([v.tell()] if v.tell() else [])
    if isinstance(v, bytearray):
        return ["ya", list(v)]
    if isinstance(v, bytes):
        return ["y", list(v)]
    if dataclasses.is_dataclass(v) and not isinstance(v, type):
        return ["o", type(v).__name__, [[f.name, enc(getattr(v, f.name))] for f in dataclasses.fields(v)]]
    if isinstance(v, dict):
        return ["d", [[enc_key(k), enc(x)] for k, x in v.items()]]
    if isinstance(v, list):
        return ["l", [enc(x) for x in v]]
    if isinstance(v, tuple):
        return ["tu", [enc(x) for x in v]]
    if isinstance(v, (set, frozenset)):
        return ["se", [enc(x) for x in v]]
    return ["x", type(v).__name__]


_FOREIGN = {
    "timedelta": lambda: datetime.timedelta(hours=30),
    "datetime": lambda: datetime.datetime(2020, 1, 2, 3, 4, 5),
    "date": lambda: datetime.date(2020, 1, 2),
    "time": lambda: datetime.time(1, 2, 3),
    "Decimal": lambda: decimal.Decimal("1.5"),
    "Fraction": lambda: fractions.Fraction(1, 3),
    "complex": lambda: 1j,
}


def dec_key(t):
    tag = t[0]
    if tag == "n":
        return None
    if tag == "b":
        return t[1]
    if tag == "i":
        return int(t[1])
    if tag == "s":
        return t[1]
    try:
        return float(t[1])
    except ValueError:
        return (t[1],)


def dec(t):
    """tagged protocol value -> Python value (dataclass instances through their constructor)."""
    tag = t[0]
    if tag == "n":
        return None
    if tag == "b":
        return t[1]
    if tag == "i":
        return int(t[1])
    if tag == "f":
        return float(t[1])
    if tag == "s":
        return t[1]
    if tag == "y":
        return bytes(t[1])
    if tag == "ya":
        return bytearray(t[1])
    if tag == "yi":
        b = io.BytesIO(bytes(t[1]))
        if len(t) > 2:
            b.seek(int(t[2]))
        return b
    if tag == "yg":
        raw = CODEC.payload(t[2])
        if t[1] == "yi":
            b = io.BytesIO(raw)
            if len(t) > 3:
                b.seek(int(t[3]))
            return b
        return bytearray(raw) if t[1] == "ya" else raw
    if tag == "l":
        return [dec(x) for x in t[1]]
    if tag == "tu":
        return tuple(dec(x) for x in t[1])
    if tag == "se":
        return {dec(x) for x in t[1]}
    if tag == "d":
        return {dec_key(k): dec(x) for k, x in t[1]}
    if tag == "o":
        cls = _reg()[t[1]]
        return cls(**{n: dec(x) for n, x in t[2]})
    if tag == "x":
        return _FOREIGN.get(t[1], object)()
    raise ValueError(tag)


def nontrivial(t):
    return t[0] in ("o", "d", "l", "tu", "se") and json.dumps(t).count('["') > 3


# =============================================================================================== generators
class TypeDirected:
    """Instances of registered dataclasses, fields populated from their type hints."""

    def __init__(self, rng, strict=True, untyped_marker_dicts=False):
        from sharepoint2text.parsing.extractors import data_types as D
        self.rng, self.strict, self.umd = rng, strict, untyped_marker_dicts
        self.reg = dict(_reg())
        self.concrete = [c for c in self.reg.values() if not self.abstract(c)]
        self.names = sorted(self.reg)
        self.D = D

    @staticmethod
    def abstract(c):
        return bool(getattr(c, "_is_protocol", False)) or bool(getattr(c, "__abstractmethods__", ()))

    def string(self):
        r = self.rng
        k = r.random()
        if k < 0.25:
            return r.choice(MARKERS + ("value", "_dict", "__type", "_Type", "_bytes ", " _type"))
        if k < 0.35:
            return r.choice(self.names)
        if k < 0.5:
            return base64.b64encode(bytes(r.randrange(256) for _ in range(r.randrange(0, 5)))).decode()
        if k < 0.6:
            return r.choice(["", " ", " padded ", "\tx\n", " nbsp ", "\x1cfs", "ünï \U0001F600", "a\"b\\c", "null", "{}", "0"])
        return "".join(r.choice("ab_ tyepsio=/+1\n") for _ in range(r.randrange(0, 9)))

    def blob(self):
        r = self.rng
        n = r.choice([0, 1, 2, 3, 4, 5, 6, 7, 16, 33])
        return bytes(r.randrange(256) for _ in range(n))

    def key(self, markers_ok):
        r = self.rng
        k = r.random()
        if markers_ok and k < 0.35:
            return r.choice(MARKERS)
        if k < 0.5:
            return r.choice(["value", "_dict", "__bytes", "type", "data", "name", "unit_index", "image_index"])
        if not self.strict and k < 0.6:
            return r.choice([1, 0, -7, None, True, 2.5, (1, 2), b"k", "1"])
        s = self.string()
        return s if (markers_ok or s not in MARKERS) else "k" + s

    def scalar(self):
        r = self.rng
        return r.choice([None, True, False, 0, 1, -1, 2 ** 70, r.randrange(-10 ** 6, 10 ** 6), 0.0, -0.0, 1.5, float("nan"), float("inf"),
                         -float("inf"), 1e300, 5e-324, r.random(), self.string(), self.string()])

    def foreign(self):
        return _FOREIGN[self.rng.choice(sorted(_FOREIGN))]()

    def any_value(self, d):
        r = self.rng
        k = r.random()
        if d > 3 or k < (0.2 if d <= 1 else 0.45):
            return self.scalar()
        if k < 0.52:
            return self.blob()
        if k < 0.57:
            return io.BytesIO(self.blob())
        if k < 0.60:
            return bytearray(self.blob())
        if k < 0.72:
            return [self.any_value(d + 1) for _ in range(r.randrange(0, 4))]
        if k < 0.76:
            return tuple(self.any_value(d + 1) for _ in range(r.randrange(0, 3)))
        if k < 0.79:
            # iteration order of a set with a str / None element depends on the interpreter's hash seed, and histories
            # are replayed in other interpreters: several elements only where the order is seed-independent (numbers)
            n_el = r.randrange(0, 3)
            if n_el >= 2:
                return set(r.sample([1, 2.5, 7, -3, 0.5], 2))
            return {r.choice([1, "a", "_type", None, 2.5, "_bytes"]) for _ in range(n_el)}
        if k < 0.90:
            return {self.key(self.umd): self.any_value(d + 1) for _ in range(r.randrange(0, 4))}
        if k < 0.97 or self.strict:
            return self.instance(r.choice(self.concrete), d + 2)
        return self.foreign()

    def gen(self, tp, d):
        r = self.rng
        if not self.strict and r.random() < 0.04:
            return r.choice([self.scalar(), self.foreign(), {self.key(True): self.scalar()}, [self.scalar()], self.blob()])
        if tp is typing.Any:
            return self.any_value(d)
        if tp is type(None):
            return None
        origin, args = typing.get_origin(tp), typing.get_args(tp)
        if origin is typing.Union or origin is types.UnionType:
            non = [a for a in args if a is not type(None)]
            if len(non) < len(args) and r.random() < 0.3:
                return None
            return self.gen(r.choice(non), d)
        if tp is bool:
            return r.random() < 0.5
        if tp is int:
            return r.choice([0, 1, -1, 2 ** 70, -(2 ** 63), r.randrange(-1000, 1000)])
        if tp is float:
            return r.choice([0.0, -0.0, 1.5, float("nan"), float("inf"), -float("inf"), 1e300, r.random()])
        if tp is str:
            return self.string()
        if tp is bytes:
            return self.blob()
        if tp is bytearray:
            return bytearray(self.blob())
        if tp is io.BytesIO:
            b = io.BytesIO(self.blob())
            b.seek(r.randrange(0, len(b.getvalue()) + 1))
            return b
        if origin is list:
            n = 0 if d > 4 else r.choice([0, 1, 1, 2, 3])
            xs = [self.gen(args[0] if args else typing.Any, d + 1) for _ in range(n)]
            if not self.strict and r.random() < 0.15:
                return tuple(xs)
            return xs
        if origin is dict:
            n = r.choice([0, 1, 2, 3])
            return {self.key(True): self.gen(args[1] if len(args) > 1 else typing.Any, d + 1) for _ in range(n)}
        if isinstance(tp, type) and dataclasses.is_dataclass(tp):
            return self.instance(tp, d + 1)
        if isinstance(tp, type):  # Protocol (ImageInterface, ...): any concrete registered class of that family
            suffix = tp.__name__.replace("Interface", "")
            fam = [c for c in self.concrete if c.__name__.endswith(suffix) or suffix in [b.__name__.replace("Interface", "") for b in c.__mro__[1:]]]
            return self.instance(r.choice(fam or self.concrete), d + 1)
        raise TypeError(f"unhandled hint {tp!r}")

    def instance(self, cls, d=0):
        r = self.rng
        if self.abstract(cls):
            subs = [c for c in self.concrete if cls in c.__mro__]
            cls = r.choice(subs or self.concrete)
        hints = typing.get_type_hints(cls)
        kw, later = {}, {}
        for f in dataclasses.fields(cls):
            required = f.default is dataclasses.MISSING and f.default_factory is dataclasses.MISSING
            if required or (d <= 3 and r.random() < 0.75):
                (kw if f.init else later)[f.name] = self.gen(hints.get(f.name, typing.Any), d + 1)
        try:
            obj = cls(**kw)
        except (AttributeError, TypeError):
            if self.strict:
                raise
            # a loose instance whose __post_init__ rejects a mistyped field: build this one strictly
            self.strict = True
            try:
                return self.instance(cls, d)
            finally:
                self.strict = False
        for k, v in later.items():  # fields the constructor does not take are populated afterwards
            setattr(obj, k, v)
        return obj


def instances(ctx, rng, n_per_class, strict, umd=False):
    g = TypeDirected(rng, strict=strict, untyped_marker_dicts=umd)
    out = []
    for name in g.names:
        cls = g.reg[name]
        if g.abstract(cls):
            continue
        heavy = "Any" in repr(typing.get_type_hints(cls)) or "Dict" in repr(typing.get_type_hints(cls))
        for _ in range(n_per_class * (6 if heavy else 1)):
            try:
                out.append(g.instance(cls))
            except (AttributeError, TypeError):
                # a loose instance whose __post_init__ rejects a mistyped field
                if strict:
                    raise
    return out


# =============================================================================================== constructor / deserialiser normalisers
# from_json rebuilds every object THROUGH ITS CONSTRUCTOR (and through _deserialize_value): whatever code runs there
# (__post_init__, a hand-written __init__ / __new__ / __setattr__, a descriptor, a helper they call, the deserialiser
# itself) is applied a second time to a value it has already been applied to.  The round trip therefore needs every such
# normaliser f to be a projection: f(f(s)) = f(s) (theorem C05_ctor_roundtrip_iff_idempotent; strip is one:
# C05_strip_idempotent).  A normaliser that is not (remove ONE level of something: a regex substitution whose result can
# match again, replace('  ', ' '), removeprefix, html.unescape, unquote, ...) is invisible on ordinary strings; the
# strings that expose it are built from WHAT THE NORMALISER LOOKS FOR: the string constants and regular expressions
# reachable from the construction hooks (harvested from the code objects of the CURRENT source, module-level patterns and
# library helpers followed), each doubled, tripled, nested into itself and placed in its look-around context, plus an
# exhaustive small alphabet of white space / line breaks and the classics of double encoding.
_CTOR_HOOKS = ("__post_init__", "__init__", "__new__", "__setattr__", "__set__", "__set_name__", "__init_subclass__")
_WS_ALPHABET = ("\n", " ", "\t", "\r", "a", " ")
_CLASSICS = ("&amp;amp;lt;b&amp;gt;", "%252520a%2520", "a\\\\n\\\\\\\\b", "''a''", '""a""', "Re: Re: RE: a", "Fwd: Fw: a", "a\n\n b", "a\r\n\r\n\tb",
             "  a  b   c    d  ", "a\n\n\n\nb", "=?utf-8?q?=3D=3F?=", "<<a>>", "((a))", "[[a]]", "a....b", "a--b---c", "a__b___c", "//a///b", "..//a",
             "﻿﻿a", "a​​b", "AİıSSßﬁ", "é́", "ÅÅÅ", "0x0x1", "++1", "--1", "001", "1e1e1",
             "a\x00\x00b", "a\x0b\x0c\x1c\x1d\x85   b", "\\n\\\\n", "a\\", "%%s", "{{a}}", "{a}", "$${a}", "a;;b", "a,,b", "a::b", "a||b", "a\t\t\tb")


def _rx_sample(pattern, rng):
    """one (before, consumed, after) of a regular expression: `consumed` matches, `before` / `after` satisfy its look-behind / look-ahead"""
    try:
        import re._parser as sp
        import re._constants as sc
    except ImportError:  # Python < 3.11
        import sre_parse as sp
        import sre_constants as sc
    try:
        tree = sp.parse(pattern)
    except Exception:
        return None
    ctx_b, ctx_a = [], []
    cat = {"CATEGORY_DIGIT": "7", "CATEGORY_SPACE": " ", "CATEGORY_WORD": "w", "CATEGORY_NOT_DIGIT": "x", "CATEGORY_NOT_SPACE": "x",
           "CATEGORY_NOT_WORD": "-", "CATEGORY_LINEBREAK": "\n", "CATEGORY_NOT_LINEBREAK": "x"}

    def cls(items):
        pos, neg = [], False
        for op, av in items:
            name = str(op)
            if name == "NEGATE":
                neg = True
            elif name == "LITERAL":
                pos.append(chr(av))
            elif name == "RANGE":
                pos.append(chr(rng.choice([av[0], av[1], (av[0] + av[1]) // 2])))
            elif name == "CATEGORY":
                pos.append(cat.get(str(av), "x"))
        if neg:
            for c in "x -\n7":
                if c not in pos:
                    return c
            return "~"
        return rng.choice(pos) if pos else ""

    def walk(seq, depth=0):
        out = []
        for op, av in seq:
            name = str(op)
            if name == "LITERAL":
                out.append(chr(av))
            elif name == "NOT_LITERAL":
                out.append("x" if chr(av) != "x" else "y")
            elif name == "ANY":
                out.append("x")
            elif name == "IN":
                out.append(cls(av))
            elif name in ("MAX_REPEAT", "MIN_REPEAT", "POSSESSIVE_REPEAT"):
                lo, hi, sub = av
                n = rng.choice([lo, min(lo + 1, hi), min(lo + 2, hi), min(max(lo, 1), hi)])
                out.append("".join(walk(sub, depth + 1) for _ in range(min(n, 4))))
            elif name == "SUBPATTERN":
                out.append(walk(av[-1], depth + 1))
            elif name == "ATOMIC_GROUP":
                out.append(walk(av, depth + 1))
            elif name == "BRANCH":
                out.append(walk(rng.choice(av[1]), depth + 1))
            elif name == "ASSERT":
                direction, sub = av
                (ctx_a if direction > 0 else ctx_b).append(walk(sub, depth + 1))
            elif name == "CATEGORY":
                out.append(cat.get(str(av), "x"))
            # AT, ASSERT_NOT, GROUPREF, ...: no text
        return "".join(out)

    try:
        body = walk(tree)
    except Exception:
        return None
    return "".join(ctx_b), body, "".join(ctx_a)


def _harvest_tokens(fns, rng, budget=400):
    """string constants and regular expressions reachable from the code objects of `fns` (library helpers and module-level
    names followed): [(before, token, after)]"""
    import re as _re
    import types as _types
    lits, pats, seen, todo = [], [], set(), [(f, 0) for f in fns]

    def consts(code):
        for c in code.co_consts:
            if isinstance(c, str):
                yield c
            elif isinstance(c, bytes):
                yield c.decode("latin-1")
            elif isinstance(c, (tuple, frozenset)):
                for e in c:
                    if isinstance(e, str):
                        yield e
            elif isinstance(c, _types.CodeType):
                yield from consts(c)

    def names(code):
        yield from code.co_names
        for c in code.co_consts:
            if isinstance(c, _types.CodeType):
                yield from names(c)

    while todo and len(seen) < budget:
        f, depth = todo.pop()
        f = getattr(f, "__func__", f)
        f = getattr(f, "__wrapped__", f)
        code = getattr(f, "__code__", None)
        if code is None or code in seen:
            continue
        seen.add(code)
        doc = getattr(f, "__doc__", None)
        for s in consts(code):
            if s and s != doc and len(s) <= 40:
                lits.append(s)
        g = getattr(f, "__globals__", {})
        for n in names(code):
            v = g.get(n)
            if isinstance(v, _re.Pattern):
                pats.append(v.pattern if isinstance(v.pattern, str) else v.pattern.decode("latin-1"))
            elif isinstance(v, str) and 0 < len(v) <= 40:
                lits.append(v)
            elif isinstance(v, (tuple, list, frozenset, set)) and len(v) <= 40:
                lits += [e for e in v if isinstance(e, str) and 0 < len(e) <= 40]
            elif isinstance(v, dict) and len(v) <= 60:
                for k, e in v.items():
                    lits += [t for t in (k, e) if isinstance(t, str) and 0 < len(t) <= 40]
            elif depth < 3 and callable(v) and str(getattr(v, "__module__", "")).startswith("sharepoint2text"):
                if isinstance(v, type):
                    continue
                todo.append((v, depth + 1))
    toks = []
    for s in dict.fromkeys(lits):
        toks.append(("", s, ""))
        if any(ch in s for ch in "\\[(|?*+^$"):      # a constant handed to re.sub / re.compile in place
            pats.append(s)
    for p in dict.fromkeys(pats):
        for _ in range(4):
            t = _rx_sample(p, rng)
            if t and t[1]:
                toks.append(t)
    return list(dict.fromkeys(toks))


def _token_probes(tokens):
    out = []
    for b, t, a in tokens:
        out += [b + t + a, b + t + t + a, b + t + t + t + a, "x" + b + t + t + a + "y", t + t + "y", "x" + t + t, b + t + a + b + t + a, " " + t + " " + t + " "]
        if a or b:
            out += ["x" + b + t + a + "y", "x" + b + t + t + t + t + a + "y", a + t + t + b]
        for i in range(1, min(len(t), 6)):
            out.append("x" + t[:i] + t + t[i:] + "y")       # the token inside itself: removing one leaves one
    return out


def _ws_probes():
    import itertools
    out = []
    for n in (1, 2, 3):
        for tup in itertools.product(_WS_ALPHABET, repeat=n):
            s = "".join(tup)
            if s.strip("a"):
                out.append("x" + s + "y")
    for n in (1, 2):
        for tup in itertools.product(_WS_ALPHABET[:4], repeat=n):
            out.append("".join(tup) + "x" + "".join(tup))
    return out


def _hooks(cls):
    """python-level code that runs while an instance of cls is built: hooks defined in the library along the MRO, descriptors"""
    fns = []
    for k in cls.__mro__:
        if not str(getattr(k, "__module__", "")).startswith("sharepoint2text"):
            continue
        for n, v in vars(k).items():
            code = getattr(getattr(v, "__func__", v), "__code__", None)
            # library source only: not the dataclass-generated __init__, not typing.Protocol's _no_init_or_replace_init
            if n in _CTOR_HOOKS and code is not None and (os.sep + "sharepoint2text" + os.sep) in code.co_filename:
                fns.append(v)
            elif isinstance(v, property) and v.fset is not None:
                fns.append(v.fset)
            elif not isinstance(v, (type, staticmethod, classmethod)) and hasattr(type(v), "__set__") and hasattr(type(v).__set__, "__code__"):
                fns.append(type(v).__set__)
    for f in dataclasses.fields(cls):
        if f.default_factory is not dataclasses.MISSING and hasattr(f.default_factory, "__code__"):
            fns.append(f.default_factory)
    return fns


def _put(tp, s, g, d=0):
    """a value of hint tp that carries the string s (None: the hint has no place for a string)"""
    origin, args = typing.get_origin(tp), typing.get_args(tp)
    if tp is str or tp is typing.Any:
        return s
    if tp is bytes:
        return s.encode("utf-8", "surrogatepass")
    if origin is typing.Union or origin is types.UnionType:
        for a in args:
            if a is not type(None):
                v = _put(a, s, g, d)
                if v is not None:
                    return v
        return None
    if origin is list and d < 2:
        v = _put(args[0] if args else typing.Any, s, g, d + 1)
        return None if v is None else [v, v]
    if origin is dict and d < 2:
        v = _put(args[1] if len(args) > 1 else typing.Any, s, g, d + 1)
        if v is None or (args and args[0] not in (str, typing.Any)):
            return None
        return {("k" + s if s in MARKERS else s): v, "k": v}
    return None


_CTOR_ARGS = {}      # id(instance) -> (instance, the instance as it was BUILT: ["o", class, constructor arguments])


def _with_ctor_args(x, name, kw):
    # a replay rebuilds the instance through its constructor: it has to record what the constructor was GIVEN, not the
    # attributes the constructor left (with a normaliser that is not a projection the two differ, and the recorded
    # attributes would be normalised a second time by the replay itself)
    _CTOR_ARGS[id(x)] = (x, ["o", name, [[k, enc(v)] for k, v in kw.items()]])
    return x


def _built_value(x):
    hit = _CTOR_ARGS.get(id(x))
    return hit[1] if hit is not None and hit[0] is x else enc(x)


def normaliser_probes(ctx, rng, per_field=None):
    """[(class name, field, instance)]: every concrete registered class x every field that can carry a string x the probe strings.
    Classes with construction hooks get the full vocabulary (hook tokens + deserialiser tokens + white-space alphabet + classics),
    the others share it round-robin (their only normaliser is the deserialiser, which treats all classes alike)."""
    from sharepoint2text.parsing.extractors import serialization as S
    g = TypeDirected(rng, strict=True)
    ser_fns = [v for v in vars(S).values() if isinstance(v, types.FunctionType) and v.__module__ == S.__name__]
    common = _token_probes(_harvest_tokens(ser_fns, rng)) + _ws_probes() + list(_CLASSICS)
    common = list(dict.fromkeys(common))
    out, rr = [], 0
    for name in g.names:
        cls = g.reg[name]
        if g.abstract(cls):
            continue
        hooks = _hooks(cls)
        hints = typing.get_type_hints(cls)
        slots = [f for f in dataclasses.fields(cls) if f.init and _put(hints.get(f.name, typing.Any), "s", g) is not None]
        if not slots:
            continue
        if hooks:
            vocab = list(dict.fromkeys(_token_probes(_harvest_tokens(hooks, rng)) + common))
            if per_field:
                vocab = vocab[:0] + rng.sample(vocab, min(len(vocab), per_field))
        else:
            k = ctx.n(10, 60)
            vocab = [common[(rr + i) % len(common)] for i in range(k)]
            rr += k
        try:
            base = g.instance(cls, 4)      # required fields only: the probes are the content
        except Exception:
            continue
        kw0 = {f.name: getattr(base, f.name) for f in dataclasses.fields(cls) if f.init}
        if hooks:
            for f in slots:
                for s in vocab:
                    try:
                        kw = dict(kw0, **{f.name: _put(hints.get(f.name, typing.Any), s, g)})
                        out.append((name, f.name, _with_ctor_args(cls(**kw), name, kw)))
                    except Exception:
                        pass
        else:
            for i, s in enumerate(vocab):     # all string slots at once, the vocabulary rotated over them
                try:
                    kw = dict(kw0, **{f.name: _put(hints.get(f.name, typing.Any), vocab[(i + q) % len(vocab)], g) for q, f in enumerate(slots)})
                    out.append((name, "*", _with_ctor_args(cls(**kw), name, kw)))
                except Exception:
                    pass
    return out


def probe_violations(ctx, probes):
    """the property statement on every probe instance (real code only); [(instance, [Violation])] of the failing ones, first per key"""
    from sharepoint2text.parsing.extractors import serialization as S
    from sharepoint2text.parsing.extractors.data_types import ExtractionInterface
    bad, seen = [], set()
    for i, (name, fname, x) in enumerate(probes):
        if i % 40:      # every 40th probe goes through the whole oracle; the others first through its core (the round trip)
            try:
                j = S.serialize_extraction(x)
                y = ExtractionInterface.from_json(json.loads(json.dumps(j)))
                if type(y) is type(x) and S.serialize_extraction(y) == j:
                    continue
            except Exception:
                pass
        try:
            vs = [v for v in check_value(x, {"value": _built_value(x)}) if v.key not in {k for k, _ in WITNESSES}]
        except Exception:
            continue
        vs = [v for v in vs if (v.key, name, fname) not in seen]
        if vs:
            for v in vs:
                seen.add((v.key, name, fname))
                v.what = f"[constructor/deserialiser normaliser probe, field {name}.{fname}] " + v.what
            bad.append((x, vs))
    return bad


def xlsx_bytes(rows):
    import openpyxl
    wb = openpyxl.Workbook()
    ws = wb.active
    ws.title = "S1"
    for row in rows:
        ws.append(list(row))
    bio = io.BytesIO()
    wb.save(bio)
    return bio.getvalue()


# ----------------------------------------------------------------------------------------------- generated input files
# A generated input is described by a spec (plain JSON, stored in replays):
#   {"k": "eml", "subject": s, "atts": [[filename, hex payload], ...]}
#   {"k": "mbox", "mails": [eml spec, ...]}
#   {"k": "doc", "fmt": "docx"|"xlsx"|"odt"|"pptx", "spec": <builders/c14docs spec>}      a document carrying pictures
#   {"k": "txt", "text": s}
#   {"k": "zip"|"tar", "members": [[member name, spec], ...]}
# The facets are varied independently: number of results (1 / several: mails of an mbox, members of an archive),
# binary payloads per result (none / one / several), equal payloads (inside one result, across results), empty payloads.
_EXT = {"eml": "eml", "mbox": "mbox", "txt": "txt", "zip": "zip", "tar": "tar"}
_DOC_MEDIA = {"docx": ("word/media/", "media/"), "pptx": ("ppt/media/", "../media/"), "xlsx": ("xl/media/", "../media/"),
              "odt": ("Pictures/", "Pictures/")}
_PAYLOADS = ["", "00017061796c6f61642d6f6e65" * 3, "fffe7061796c6f61642d74776f" * 2, "89504e470d0a1a0a00"]


def doc_spec(fmt, tails):
    """a document with one picture per unit; equal tails = the same picture stored as separate parts"""
    pre, ref = _DOC_MEDIA[fmt]
    media, units = {}, []
    for i, t in enumerate(tails):
        media[f"{pre}i{i}.png"] = {"kind": "png", "w": 3, "h": 4, "tail": t}
        units.append([{"t": "embed", "part": f"{pre}i{i}.png", "ref": f"{ref}i{i}.png"}])
    return {"k": "doc", "fmt": fmt, "spec": {"fmt": fmt, "media": media, "units": units or [[]]}}


def _eml_spec(i, atts):
    return {"k": "eml", "subject": f"mail {i}", "atts": [list(a) for a in atts]}


def _payload_bytes(hx):
    """payload of an attachment / picture tail: hex, or a description "@pattern:seed:length" (props/c05_codec.py)"""
    return CODEC.payload(hx) if CODEC.is_desc(hx) else bytes.fromhex(hx)


def _expand_payloads(spec):
    """c14docs document spec with every described picture tail written out as hex (the builder takes hex)"""
    if isinstance(spec, dict):
        return {k: (CODEC.payload(v).hex() if k == "tail" and CODEC.is_desc(v) else _expand_payloads(v)) for k, v in spec.items()}
    if isinstance(spec, list):
        return [_expand_payloads(v) for v in spec]
    return spec


def _eml_bytes(spec):
    bnd = "=_s2t_c05_boundary"
    head = (f"From: alice@example.org\nTo: bob@example.org\nSubject: {spec.get('subject', 'mail')}\n"
            "Date: Mon, 01 Jan 2024 10:00:00 +0000\nMIME-Version: 1.0\n")
    body = f"body of {spec.get('subject', 'mail')}\n"
    if not spec.get("atts"):
        return (head + 'Content-Type: text/plain; charset="utf-8"\n\n' + body).encode()
    parts = ['Content-Type: text/plain; charset="utf-8"\n\n' + body]
    for name, hx in spec["atts"]:
        b64 = base64.encodebytes(_payload_bytes(hx)).decode()
        parts.append(f'Content-Type: application/octet-stream\nContent-Transfer-Encoding: base64\n'
                     f'Content-Disposition: attachment; filename="{name}"\n\n{b64}')
    text = head + f'Content-Type: multipart/mixed; boundary="{bnd}"\n\n' + "".join(f"--{bnd}\n{p}\n" for p in parts) + f"--{bnd}--\n"
    return text.encode()


def build_input(spec):
    """(file name, bytes) of a generated input"""
    k = spec["k"]
    if k == "eml":
        data = _eml_bytes(spec)
    elif k == "mbox":
        data = b"".join(b"From alice@example.org Mon Jan  1 10:00:00 2024\n" + _eml_bytes(m) + b"\n" for m in spec["mails"])
    elif k == "txt":
        data = spec.get("text", "").encode()
    elif k == "doc":
        from builders import c14docs
        data = c14docs.build(_expand_payloads(spec["spec"]))
    elif k == "zip":
        import zipfile
        bio = io.BytesIO()
        with zipfile.ZipFile(bio, "w", zipfile.ZIP_DEFLATED) as z:
            for name, m in spec["members"]:
                z.writestr(zipfile.ZipInfo(name, date_time=(2024, 1, 1, 10, 0, 0)), build_input(m)[1])
        data = bio.getvalue()
    elif k == "tar":
        import tarfile
        bio = io.BytesIO()
        with tarfile.open(fileobj=bio, mode="w") as t:
            for name, m in spec["members"]:
                d = build_input(m)[1]
                ti = tarfile.TarInfo(name)
                ti.size = len(d)
                t.addfile(ti, io.BytesIO(d))
        data = bio.getvalue()
    else:
        raise ValueError(k)
    return spec.get("name") or ("gen." + (spec["fmt"] if k == "doc" else _EXT[k])), data


def _input_text(spec):
    """one line a reader can follow"""
    k = spec["k"]
    if k == "eml":
        return "eml(" + ", ".join((f"{n}:{h}" if CODEC.is_desc(h) else f"{n}:{len(h) // 2}B#{_PAYLOADS.index(h) if h in _PAYLOADS else 'x'}")
                                  for n, h in spec.get("atts", [])) + ")"
    if k == "mbox":
        return "mbox[" + ", ".join(_input_text(m) for m in spec["mails"]) + "]"
    if k == "doc":
        big = [m["tail"] for m in spec["spec"]["media"].values() if CODEC.is_desc(m.get("tail"))]
        return f"{spec['fmt']}({len(spec['spec']['media'])} pictures{' ' + ','.join(big) if big else ''})"
    if k in ("zip", "tar"):
        return k + "[" + ", ".join(f"{n}={_input_text(m)}" for n, m in spec["members"]) + "]"
    return k


def core_inputs():
    """the facet corners, on every run"""
    p1, p2 = _PAYLOADS[1], _PAYLOADS[2]
    t = "00ff10"
    return [
        {"k": "mbox", "mails": [_eml_spec(1, [["a.bin", p1]]), _eml_spec(2, [["b.bin", p2]])]},            # several results, each a payload
        {"k": "mbox", "mails": [_eml_spec(1, [["a.bin", p1]]), _eml_spec(2, [["a.bin", p1]])]},            # the same file in two results
        _eml_spec(3, [["report.bin", p1], ["report-copy.bin", p1]]),                                       # the same file twice in one result
        {"k": "zip", "members": [["m1.eml", _eml_spec(4, [["x.bin", p2]])], ["d.docx", doc_spec("docx", [t, t])]]},
        {"k": "tar", "members": [["s.xlsx", doc_spec("xlsx", [t])], ["n.txt", {"k": "txt", "text": "plain text member"}]]},
        doc_spec("docx", [t, t]),                                                                          # the same picture twice
        {"k": "mbox", "mails": [_eml_spec(5, []), _eml_spec(6, [["e.bin", ""], ["f.bin", p2], ["g.bin", ""]])]},   # none / empty payloads
        {"k": "zip", "members": [["a.odt", doc_spec("odt", [t])], ["b.odt", doc_spec("odt", [t])], ["c.pptx", doc_spec("pptx", [t, "aa"])]]},
        {"k": "mbox", "mails": [_eml_spec(7, [["same.bin", p1]]), _eml_spec(7, [["same.bin", p1]]), _eml_spec(7, [])]},   # EQUAL results (the same mail twice)
    ]


def gen_input_specs(rng, n):
    out = core_inputs()
    for i in range(n):
        def mail(j):
            return _eml_spec(j, [[f"f{q}.bin", rng.choice(_PAYLOADS)] for q in range(rng.choice([0, 1, 1, 2, 3]))])

        def doc():
            return doc_spec(rng.choice(sorted(_DOC_MEDIA)), [rng.choice(["00ff10", "aa", ""]) for _ in range(rng.choice([0, 1, 2, 2]))])
        kind = rng.choice(["mbox", "mbox", "zip", "tar", "eml", "doc"])
        if kind == "mbox":
            out.append({"k": "mbox", "mails": [mail(j) for j in range(rng.choice([1, 2, 2, 3]))]})
        elif kind in ("zip", "tar"):
            ms = []
            for j in range(rng.choice([1, 2, 2, 3])):
                m = rng.choice([mail(j), doc(), {"k": "txt", "text": f"member {j}"}])
                ms.append([f"m{j}." + (m["fmt"] if m["k"] == "doc" else _EXT[m["k"]]), m])
            out.append({"k": kind, "members": ms})
        elif kind == "eml":
            out.append(mail(i))
        else:
            out.append(doc())
    return out


def input_path(spec):
    """the file of a generated input.  Its place is a function of the spec (results carry the path of the file in their
    metadata: the harness, the history worker and a replay must see the same one); written once, atomically."""
    import hashlib
    name, data = build_input(spec)
    d = os.path.join(tempfile.gettempdir(), "s2t_c05_inputs", hashlib.sha1(json.dumps(spec, sort_keys=True).encode()).hexdigest()[:16])
    path = os.path.join(d, name)
    if not os.path.exists(path):
        os.makedirs(d, exist_ok=True)
        tmp = f"{path}.{os.getpid()}.tmp"
        with open(tmp, "wb") as fh:
            fh.write(data)
        os.replace(tmp, path)
    return path


def _input_results(spec, limit_s=60):
    """results of the library on a generated input, read the way the CLI reads it (from a file)"""
    import sharepoint2text
    path = input_path(spec)
    r = corpus.run_extractor(lambda _b, p: sharepoint2text.read_file(p), b"", path=path, limit_s=limit_s)
    return r[1] if r[0] == "ok" else []


def _stream_leaves(x, path=()):
    """[(path, io.BytesIO)] of a Python value, dataclass fields / list / dict order"""
    out = []
    if isinstance(x, io.BytesIO):
        out.append((path, x))
    elif dataclasses.is_dataclass(x) and not isinstance(x, type):
        for f in dataclasses.fields(x):
            out += _stream_leaves(getattr(x, f.name, None), path + (f.name,))
    elif isinstance(x, dict):
        for k, v in x.items():
            out += _stream_leaves(v, path + (str(k),))
    elif isinstance(x, (list, tuple, set, frozenset)):
        for i, v in enumerate(x):
            out += _stream_leaves(v, path + (i,))
    return out


def _api_streams(x):
    """[(what, stream)] the way a caller gets at image / attachment bytes: get_bytes() of every image, .data of every attachment"""
    out = []
    if hasattr(x, "iterate_images"):
        try:
            for i, im in enumerate(x.iterate_images()):
                out.append((f"image {i}", im.get_bytes()))
        except Exception:
            pass
    for i, a in enumerate(getattr(x, "attachments", None) or []):
        if isinstance(getattr(a, "data", None), io.BytesIO):
            out.append((f"attachment {i}", a.data))
    return out


def with_equal_payloads(x, rng):
    """a copy of x in which several (all, if there are only two) io.BytesIO leaves hold the SAME bytes — as separate stream
    objects, like the same file attached twice; None if x has no stream"""
    try:
        y = copy.deepcopy(x)
    except Exception:
        return None
    ls = _stream_leaves(y)
    if not ls:
        return None
    payload = rng.choice([s.getvalue() for _, s in ls] + [b"", b"\x00same\xff" * 3])
    chosen = ls if len(ls) <= 2 else rng.sample(ls, rng.randrange(2, len(ls) + 1))
    for _, s in chosen:
        s.seek(0)
        s.truncate(0)
        s.write(payload)
        s.seek(rng.choice([0, 0, len(payload)]))
    return y


def cell_values(rng, n):
    base = [None, True, False, 0, 7, -3, 2 ** 40, 1.5, -0.0, 1e300, "", "text", "_type", "_bytes", "aGk=", " pad ",
            datetime.datetime(2021, 3, 4, 5, 6, 7), datetime.datetime(1999, 12, 31, 23, 59, 59, 123456), datetime.date(2020, 2, 29),
            datetime.time(1, 2, 3), datetime.time(23, 59, 59, 5), datetime.timedelta(hours=30), datetime.timedelta(seconds=1),
            datetime.timedelta(days=-1, seconds=5), datetime.timedelta(0), decimal.Decimal("1.50"), fractions.Fraction(1, 3), 1j, b"raw", (1, 2)]
    out = list(base)
    for _ in range(n):
        k = rng.random()
        if k < 0.2:
            out.append(datetime.timedelta(seconds=rng.randrange(-10 ** 6, 10 ** 7), microseconds=rng.choice([0, 0, 250000])))
        elif k < 0.4:
            out.append(datetime.datetime(rng.randrange(1900, 2100), rng.randrange(1, 13), rng.randrange(1, 29), rng.randrange(24), rng.randrange(60)))
        elif k < 0.5:
            out.append(datetime.time(rng.randrange(24), rng.randrange(60), rng.randrange(60)))
        elif k < 0.6:
            out.append(datetime.date(rng.randrange(1900, 2100), rng.randrange(1, 13), rng.randrange(1, 29)))
        elif k < 0.8:
            out.append(rng.choice([rng.random() * 1000, rng.randrange(-999, 999), str(rng.random())]))
        else:
            out.append(rng.choice(base))
    return out


def enc_cell(v):
    if v is None:
        return ["n"]
    if isinstance(v, bool):
        return ["b", v]
    if isinstance(v, int):
        return ["i", str(v)]
    if isinstance(v, float):
        return ["f", repr(v)]
    if isinstance(v, str):
        return ["s", v]
    if isinstance(v, datetime.datetime):
        return ["datetime", v.isoformat()]
    if isinstance(v, datetime.date):
        return ["date", v.isoformat()]
    if isinstance(v, datetime.time):
        return ["time", v.isoformat()]
    if isinstance(v, datetime.timedelta):
        return ["timedelta", str(v)]
    return ["other", type(v).__name__, str(v)]


def workbook_rows(rng):
    """rows for a generated XLSX: only what openpyxl can write (and reads back as the Cell universe)."""
    pool = [None, True, 3, -2, 1.25, "text", "_type", "_bytes", "aGk=", datetime.datetime(2021, 3, 4, 5, 6, 7), datetime.date(2020, 2, 29),
            datetime.time(1, 2, 3), datetime.timedelta(hours=30), datetime.timedelta(seconds=90), "=1+1", "#DIV/0!"]
    ncol = rng.randrange(1, 5)
    rows = [[rng.choice(["h", "_type", "_bytes", "colA", None, 5]) for _ in range(ncol)]]
    for _ in range(rng.randrange(1, 5)):
        rows.append([rng.choice(pool) for _ in range(ncol)])
    return rows


def extractor_results(ctx, max_size, limit):
    """[(descriptor, result)] of the real extractors on the repository fixtures."""
    from sharepoint2text.parsing import router
    out = []
    fx = corpus.fixtures(max_size=max_size)
    ctx.rng.shuffle(fx)
    # keep one of every extension first
    seen_ext, ordered, rest = set(), [], []
    for rel, data in sorted(fx, key=lambda x: len(x[1])):
        e = os.path.splitext(rel)[1].lower()
        (rest if e in seen_ext else ordered).append((rel, data))
        seen_ext.add(e)
    for rel, data in (ordered + rest)[:limit]:
        try:
            fn = router.get_extractor(rel)
        except Exception:
            continue
        r = corpus.run_extractor(fn, data, path=rel, limit_s=20)
        if r[0] != "ok":
            ctx.count("fixture/" + r[0])
            continue
        for i, res in enumerate(r[1]):
            out.append(({"fixture": rel, "index": i}, res))
    return out


# =============================================================================================== real-code adaptors
def real_rt(x):
    """what the real code does with x: (j, jn, back) with errors as {'err': class}"""
    from sharepoint2text.parsing.extractors import serialization as S
    j = S.serialize_extraction(x, include_binary=True)
    jn = S.serialize_extraction(x, include_binary=False)
    try:
        back = {"ok": S.deserialize_extraction(copy.deepcopy(j))}
    except Exception as e:
        back = {"err": _errname(e)}
    return j, jn, back


def _errname(e):
    import binascii
    if isinstance(e, binascii.Error):
        return "binascii.Error"
    return type(e).__name__


def real_deser(j):
    from sharepoint2text.parsing.extractors import serialization as S
    try:
        return {"ok": enc(S.deserialize_extraction(copy.deepcopy(j)))}
    except Exception as e:
        return {"err": _errname(e)}


# =============================================================================================== malformed stream
def _paths(j, pre=()):
    """all (path, value) positions of a JSON document"""
    yield pre, j
    if isinstance(j, dict):
        for k, v in j.items():
            yield from _paths(v, pre + (k,))
    elif isinstance(j, list):
        for i, v in enumerate(j):
            yield from _paths(v, pre + (i,))


def _set(j, path, val, delete=False):
    j = copy.deepcopy(j)
    if not path:
        return val
    cur = j
    for p in path[:-1]:
        cur = cur[p]
    if delete:
        del cur[path[-1]]
    else:
        cur[path[-1]] = val
    return j


def one_fault(rng, j, names):
    """(kind, document with exactly one injected fault)"""
    pos = list(_paths(j))
    dicts = [(p, v) for p, v in pos if isinstance(v, dict)]
    objs = [(p, v) for p, v in dicts if "_type" in v]
    bins = [(p, v) for p, v in dicts if "_bytes" in v or "_bytesio" in v]
    kind = rng.choice(["del-key", "type-value", "retype", "b64", "extra-key", "shim", "inject-marker", "top", "none"])
    if kind == "del-key" and objs:
        p, v = rng.choice(objs)
        k = rng.choice(sorted(v))
        return kind, _set(j, p + (k,), None, delete=True)
    if kind == "type-value" and objs:
        p, v = rng.choice(objs)
        nv = rng.choice(["NoSuchClass", "", None, 5, 0, True, 2.5, [], ["x"], {}, {"a": 1}, rng.choice(names), "TableInterface", "UnitMetadataInterface"])
        return kind, _set(j, p + ("_type",), nv)
    if kind == "retype":
        p, v = rng.choice(pos)
        if p:
            nv = rng.choice([None, 5, "text", "aGk=", [], {}, [1, "a"], {"k": 1}, True, 1.5, " x "])
            return kind, _set(j, p, nv)
    if kind == "b64" and bins:
        p, v = rng.choice(bins)
        k = "_bytes" if "_bytes" in v else "_bytesio"
        nv = rng.choice([5, None, [], {}, True, "", "QQ==", "QUI=", "QUJD", "a", "aGk", "a===", "aGk=\n", "!!!!", "QR==", "aGk=aGk=", "ünï"])
        return kind, _set(j, p + (k,), nv)
    if kind == "extra-key" and dicts:
        p, v = rng.choice(dicts)
        return kind, _set(j, p + (rng.choice(["zzz", "unit_index", "image_index", "value", "_dict"]),), rng.choice([1, "s", None, [1]]))
    if kind == "shim":
        ims = [(p, v) for p, v in objs if v.get("_type") == "ImageMetadata"]
        doc = {"_type": "ImageMetadata", "unit_number": 3, "image_number": 4, "content_type": "image/png", "width": 1, "height": None}
        if ims:
            p, doc = rng.choice(ims)
            doc = dict(doc)
        for old, new in (("unit_number", "unit_index"), ("image_number", "image_index")):
            c = rng.random()
            if c < 0.4 and old in doc:
                doc[new] = doc.pop(old)
            elif c < 0.6:
                doc[new] = rng.choice([9, None, "7"])
        return kind, (_set(j, p, doc) if ims else doc)
    if kind == "inject-marker":
        p, v = rng.choice(pos)
        nv = rng.choice([{"_bytes": "aGk="}, {"_bytesio": "aGk=", "x": 1}, {"_bytes": "aGk=", "_type": "TableDim"}, {"_type": "TableDim", "rows": 2},
                         {"_type": "TableDim", "rows": 2, "bogus": 1}, {"_type": "EmailContent"}, {"_type": "PlainTextContent", "content": 5},
                         {"_type": "PlainTextContent", "content": " s "}, {"_bytes": 5}])
        if p:
            return kind, _set(j, p, nv)
    if kind == "top":
        return kind, rng.choice([[], "s", None, 5, {}, {"a": 1}, {"value": 1}, [j], {"_type": None}, {"_type": "TableDim", "rows": [1]}])
    return "none", copy.deepcopy(j)



# =============================================================================================== process histories
WORKER = os.path.join(os.path.dirname(os.path.dirname(os.path.abspath(__file__))), "workers", "c05_history.py")
CLI_FLAGS = (["--json"], ["--json", "--binary"], ["--json-unit"], ["--json-unit", "--binary"])


class HistoryRun:
    """histories executed by the zygote worker (fresh process state per history), started in the background"""

    def __init__(self, hists, par=8):
        self.hists = hists
        env = dict(os.environ)
        env["S2T_REPO"] = corpus.REPO
        env["PYTHONPATH"] = corpus.REPO
        env.pop("PYTHONHASHSEED", None)
        self.p = None
        if hists:
            self.p = subprocess.Popen(["/venv/bin/python", WORKER], stdin=subprocess.PIPE, stdout=subprocess.PIPE, stderr=subprocess.PIPE, env=env)
            import threading
            self._out = None
            data = json.dumps({"histories": hists, "par": par}).encode()

            def pump():
                self._out = self.p.communicate(data)
            self.t = threading.Thread(target=pump, daemon=True)
            self.t.start()

    def finish(self, timeout=900):
        if not self.p:
            return []
        self.t.join(timeout)
        if self.t.is_alive():
            self.p.kill()
            raise Infra("c05 history worker timeout")
        out, err = self._out
        if self.p.returncode != 0:
            raise Infra(f"c05 history worker exit {self.p.returncode}: {err[-600:]!r}")
        res = json.loads(out.decode())
        if len(res) != len(self.hists):
            raise Infra("c05 history worker answered a different number of histories")
        return res


def run_histories(hists, par=8):
    return HistoryRun(hists, par).finish()


def _stored(x, include_binary=True):
    """the JSON another process stored for x (here: this harness process), through json text"""
    from sharepoint2text.parsing.extractors import serialization as S
    return json.loads(json.dumps(S.serialize_extraction(x, include_binary=include_binary)))


def _related(reg):
    """class name -> names of classes tied to it: bases / subclasses in the registry, classes its hints mention
    (nested objects) and classes whose hints mention it"""
    rel = {n: set() for n in reg}
    for n, c in reg.items():
        for b in c.__mro__[1:]:
            if b.__name__ in reg:
                rel[n].add(b.__name__)
                rel[b.__name__].add(n)
        try:
            text = repr(typing.get_type_hints(c))
        except Exception:
            text = ""
        for m in reg:
            if m != n and (m + "'" in text or m + "]" in text or m + "," in text or "." + m in text):
                rel[n].add(m)
                rel[m].add(n)
    return rel


def gen_histories(ctx, rng, pool, fixture_cases, per_class, extra, n_fixture, repeats=12, pairs=30, n_cli=5, n_consume=0, n_cli_gen=0):
    """[(history for the worker, model ops, meta)].  A history = a prefix of library calls (serialising / restoring
    OTHER objects, related and unrelated, with and without binary, failing from_json calls, CLI runs, unit
    serialisation) followed by the calls under judgement on a target object: from_json of the JSON another
    process stored for it, to_json + from_json in this process, the same again."""
    reg = dict(_reg())
    rel = _related(reg)
    by_cls = {}
    for x in pool:
        by_cls.setdefault(type(x).__name__, []).append(x)
    names = sorted(by_cls)
    small_fx = [(d, r) for d, r in fixture_cases if len(json.dumps(enc(r))) < 150_000]
    cli_fx = sorted({d["fixture"] for d, r in small_fx})
    out = []

    def build(target_name, target_obj, target_spec, pattern, pre=None, tail=None):
        objs, ops, mops = {}, [], []
        cnt = [0]

        def new_obj(x, spec):
            cnt[0] += 1
            name = f"o{cnt[0]}"
            objs[name] = spec
            return name

        def pick_other(kind):
            cands = names
            if kind == "related":
                cands = [n for n in names if n in rel.get(target_name, ())] or names
            elif kind == "unrelated":
                cands = [n for n in names if n != target_name and n not in rel.get(target_name, ())] or names
            x = rng.choice(by_cls[rng.choice(cands)])
            return x, {"value": enc(x)}

        def op_ser(x, spec, b, label=None):
            name = new_obj(x, spec)
            o = {"op": "to_json", "obj": name, "bin": b}
            if label:
                o["label"] = label
            ops.append(o)
            mops.append({"k": "ser", "bin": b is not False, "v": enc(x)})
            return name

        def op_deser(x, spec, src=True):
            name = new_obj(x, spec)
            J = _stored(x)
            ops.append({"op": "from_json", "stored": name, "src": name})
            mops.append({"k": "deser", "j": enc(J)})

        def prefix_op(kind):
            if kind in ("ser-other", "ser-related", "ser-nobin"):
                x, spec = pick_other("related" if kind == "ser-related" else "unrelated")
                op_ser(x, spec, False if kind == "ser-nobin" else rng.choice([None, True]))
            elif kind in ("deser-other", "deser-related"):
                x, spec = pick_other("related" if kind == "deser-related" else "unrelated")
                op_deser(x, spec)
            elif kind == "deser-bad":
                x, spec = pick_other(rng.choice(["related", "unrelated", "any"]))
                fk, doc = one_fault(rng, _stored(x), sorted(reg))
                ops.append({"op": "from_json_bad", "json_text": json.dumps(doc)})
                mops.append({"k": "deser", "j": enc(doc), "bad": True})
            elif kind == "cli" and cli_fx:
                ops.append({"op": "cli", "flags": list(rng.choice(CLI_FLAGS)), "fixture": rng.choice(cli_fx)})
                mops.append(None)
            elif kind == "units" and small_fx:
                d, r = rng.choice(small_fx)
                name = new_obj(r, dict(d))
                ops.append({"op": "units", "obj": name})
                mops.append(None)

        kinds = ["ser-other", "ser-related", "ser-nobin", "deser-other", "deser-related", "deser-bad", "cli", "units"]
        if pre is not None:
            pre(op_ser, op_deser, ops, mops)
        elif pattern == "fresh":
            pass
        elif pattern == "mixed":
            for _ in range(rng.randrange(2, 4)):
                prefix_op(rng.choice(kinds))
        else:
            prefix_op(pattern)
        # the calls under judgement
        tname = new_obj(target_obj, target_spec)
        J = _stored(target_obj)
        ops.append({"op": "from_json", "stored": tname, "src": tname})
        mops.append({"k": "deser", "j": enc(J)})
        tail = rng.random() if tail is None else tail
        if tail < 0.6:
            reps = 2 if tail < 0.2 else 1
            for k in range(reps):
                ops.append({"op": "to_json", "obj": tname, "bin": None, "label": f"t{k}"})
                mops.append({"k": "ser", "bin": True, "v": enc(target_obj)})
                ops.append({"op": "from_json", "of": f"t{k}", "src": tname})
                mops.append({"k": "deser", "j": enc(J)})
        elif tail < 0.75:
            ops.append({"op": "to_json", "obj": tname, "bin": False})
            mops.append({"k": "ser", "bin": False, "v": enc(target_obj)})
            ops.append({"op": "to_json", "obj": tname, "bin": None, "label": "t0"})
            mops.append({"k": "ser", "bin": True, "v": enc(target_obj)})
            ops.append({"op": "from_json", "of": "t0", "src": tname})
            mops.append({"k": "deser", "j": enc(J)})
        H = {"id": len(out), "objs": objs, "ops": ops}
        out.append((H, mops, {"pattern": pattern, "target": target_name}))

    patterns = ["fresh", "ser-other", "ser-related", "ser-nobin", "deser-other", "deser-related", "deser-bad", "cli", "units", "mixed", "mixed"]
    for name in names:
        for _ in range(per_class):
            x = rng.choice(by_cls[name])
            build(name, x, {"value": enc(x)}, rng.choice(patterns))
    for _ in range(extra):
        name = rng.choice(names)
        x = rng.choice(by_cls[name])
        build(name, x, {"value": enc(x)}, rng.choice(["ser-other", "ser-related", "deser-bad", "mixed", "mixed", "cli"]))
    # the same call many times (whatever a call leaves behind accumulates): serialising / restoring one object,
    # or a document on which from_json fails, 5 or 40 times, then the calls under judgement
    for _ in range(repeats):
        name = rng.choice(names)
        x = rng.choice(by_cls[name])
        y = rng.choice(by_cls[rng.choice(names)])
        k = rng.choice([5, 40])
        kind = rng.choice(["bad", "bad", "ser", "deser"])
        doc = None
        if kind == "bad":
            for _try in range(12):
                fk, d = one_fault(rng, _stored(rng.choice([x, y])), sorted(reg))
                if "err" in real_deser(d):
                    doc = d
                    break
            if doc is None:
                kind = "deser"

        def pre(op_ser, op_deser, ops, mops, kind=kind, k=k, y=y, doc=doc):
            if kind == "bad":
                for _i in range(k):
                    ops.append({"op": "from_json_bad", "json_text": json.dumps(doc)})
                    mops.append({"k": "deser", "j": enc(doc), "bad": True})
            elif kind == "ser":
                b = rng.choice([None, False])
                n0 = len(ops)
                op_ser(y, {"value": enc(y)}, b)
                for _i in range(k - 1):
                    ops.append(dict(ops[n0]))
                    mops.append(mops[n0])
            else:
                n0 = len(ops)
                op_deser(y, {"value": enc(y)})
                for _i in range(k - 1):
                    ops.append(dict(ops[n0]))
                    mops.append(mops[n0])
        build(name, x, {"value": enc(x)}, f"repeat-{kind}", pre=pre)
    # two objects of the SAME class with extreme shapes (fewest / most binary leaves, fewest / most fields set), every
    # order of the include_binary flags: whatever is remembered per class but true per instance shows here
    binary_classes = [n for n in names if any(list(_binary_positions(x)) for x in by_cls[n])]
    rng.shuffle(binary_classes)
    for name in binary_classes[:pairs]:
        xs = sorted(by_cls[name], key=lambda x: len(list(_binary_positions(x))))
        lo, hi = xs[0], xs[-1]
        for a, b_, flags in ((lo, hi, (None, False)), (hi, lo, (False, None)), (lo, hi, (False, None))):
            if rng.random() < 0.5 and pairs < 1000:
                continue

            def pre(op_ser, op_deser, ops, mops, a=a, f0=flags[0]):
                op_ser(a, {"value": enc(a)}, f0)
            build(name, b_, {"value": enc(b_)}, "same-class-pair", pre=pre, tail=0.7 if flags[1] is False else 0.3)
    for _ in range(min(n_fixture, 4 * len(small_fx))):
        d, r = rng.choice(small_fx)
        spec, x = dict(d), r
        if rng.random() < 0.4:
            try:
                us = list(r.iterate_units())
            except Exception:
                us = []
            if us:
                ui = rng.randrange(len(us))
                spec, x = dict(d, unit=ui), us[ui]
        if len(json.dumps(enc(x))) > 150_000:
            continue
        build(type(x).__name__, x, spec, rng.choice(["ser-other", "cli", "units", "fresh", "mixed", "deser-other", "ser-nobin"]))
    # the CLI several times in one process: every flag combination on one file (preferably one with binary payloads),
    # in a random order, another file in between
    bin_fx = sorted({d["fixture"] for d, r in small_fx if any(True for _ in _binary_positions(r))})
    multi_fx = sorted({d["fixture"] for d, r in small_fx if d.get("index", 0) > 0})   # archives, mailboxes
    for i in range(min(n_cli, len(cli_fx))):
        fx = rng.choice([bin_fx, multi_fx, cli_fx][i % 3] or cli_fx)
        order = [list(f) for f in CLI_FLAGS]
        rng.shuffle(order)
        ops = [{"op": "cli", "flags": f, "fixture": fx} for f in order]
        ops.insert(rng.randrange(1, len(ops)), {"op": "cli", "flags": list(rng.choice(CLI_FLAGS)), "fixture": rng.choice(cli_fx)})
        out.append(({"id": len(out), "objs": {}, "ops": ops}, [None] * len(ops), {"pattern": "cli-repeat", "target": fx}))
    # the CLI on GENERATED inputs (several results x binary payloads x equal payloads): every flag combination, random order
    specs = gen_input_specs(rng, max(0, n_cli_gen - len(core_inputs()))) if n_cli_gen else []
    for spec in specs[:n_cli_gen]:
        order = [list(f) for f in CLI_FLAGS]
        rng.shuffle(order)
        ops = [{"op": "cli", "flags": f, "input": spec} for f in order]
        out.append(({"id": len(out), "objs": {}, "ops": ops}, [None] * len(ops), {"pattern": "cli-generated", "target": _input_text(spec)}))
    # CONSUMPTION histories: the same / equal payloads restored several times, every stream consumed after all were
    # collected, closed, read through the interface, restored again afterwards -- then every restored object re-observed
    if n_consume:
        cands = []          # (class name, object, spec)
        for x in pool:
            if _stream_leaves(x):
                y = with_equal_payloads(x, rng)
                if y is not None and rng.random() < 0.8:
                    x = y
                cands.append((type(x).__name__, x, {"value": enc(x)}))
        rng.shuffle(cands)
        cands.sort(key=lambda c: -min(2, len(_stream_leaves(c[1]))))        # objects with several streams first
        cands = cands[:max(4, n_consume // 2)]
        for spec in core_inputs() + gen_input_specs(rng, 4)[len(core_inputs()):]:
            try:
                rs = _input_results(spec)
            except Exception:
                rs = []
            for i, r in enumerate(rs):
                if _stream_leaves(r) and len(json.dumps(enc(r))) < 150_000:
                    cands.append((type(r).__name__, r, {"input": spec, "index": i}))
        for n in range(n_consume):
            cname, x, spec = cands[n % len(cands)] if cands else (None, None, None)
            if x is None:
                break
            nleaf = len(_stream_leaves(x))
            J = _stored(x)
            objs = {"o1": spec}
            ops, mops, hops = [], [], []
            ys = []

            def restore(via):
                name = f"y{len(ys)}"
                if via == "stored" or not ys:
                    ops.append({"op": "from_json", "stored": "o1", "src": "o1", "as": name})
                else:
                    ops.append({"op": "to_json", "obj": "o1", "bin": None, "label": "t" + name})
                    mops.append({"k": "ser", "bin": True, "v": enc(x)})
                    hops.append(None)
                    ops.append({"op": "from_json", "of": "t" + name, "src": "o1", "as": name})
                mops.append({"k": "deser", "j": enc(J)})
                hops.append({"k": "deser", "id": len(ys), "j": enc(J)})
                ys.append(name)

            def use(yi, how, leaf=None):
                ops.append({"op": "use", "y": ys[yi], "how": how, "leaf": leaf})
                mops.append(None)
                hops.append({"k": "use", "step": yi, "how": how, "leaf": leaf})

            def observe(yi):
                ops.append({"op": "observe", "y": ys[yi]})
                mops.append(None)
                hops.append({"k": "observe", "step": yi})

            pattern = ["collect-consume", "close-one", "interleave", "api", "random", "leafwise"][n % 6]
            if pattern == "collect-consume":
                for _ in range(rng.choice([2, 2, 3])):
                    restore(rng.choice(["stored", "own"]))
                for yi in range(len(ys)):
                    use(yi, "read")
            elif pattern == "close-one":
                restore("stored")
                restore(rng.choice(["stored", "own"]))
                use(0, "close", rng.choice([None, 0]))
                observe(1)
                restore("stored")
                use(1, "read")
                use(2, "read")
            elif pattern == "interleave":
                restore("stored")
                use(0, "read")
                restore(rng.choice(["stored", "own"]))
                use(1, "read")
                use(0, "read")
            elif pattern == "api":
                restore("stored")
                restore("stored")
                use(0, "api-read")
                use(1, "api-read")
            elif pattern == "leafwise":
                restore("stored")
                restore("own")
                pairs_ = [(yi, li) for yi in range(2) for li in range(nleaf)]
                rng.shuffle(pairs_)
                for yi, li in pairs_[:8]:
                    use(yi, rng.choice(["read", "read", "close"]), li)
            else:
                for _ in range(rng.choice([2, 3])):
                    restore(rng.choice(["stored", "own"]))
                for _ in range(rng.randrange(2, 6)):
                    use(rng.randrange(len(ys)), rng.choice(["read", "read", "close"]), rng.choice([None, 0, nleaf - 1]))
            for yi in range(len(ys)):
                observe(yi)
            H = {"id": len(out), "objs": objs, "ops": ops}
            out.append((H, mops, {"pattern": "consume-" + pattern, "target": cname, "heap": hops}))
        # TEMPORARY objects: a caller looping over files builds a result, serialises it and drops it; the next one (same class,
        # payloads of the SAME LENGTH but other bytes) is likely to live at the same addresses -- whatever the serialiser
        # remembers per object identity shows here
        streamy = [c for c in cands if "value" in c[2]]
        for n in range(max(2, n_consume // 8)):
            if not streamy:
                break
            cname, x, _ = streamy[n % len(streamy)]
            objs, ops, mops = {}, [], []
            for k in range(rng.choice([3, 4, 6])):
                y = copy.deepcopy(x)
                for _, st in _stream_leaves(y):
                    data = bytes((b + 1 + 7 * k) % 256 for b in st.getvalue())
                    st.seek(0)
                    st.write(data)
                    st.seek(0)
                objs[f"o{k + 1}"] = {"value": enc(y)}
                for _ in range(rng.choice([1, 1, 2])):
                    b = rng.choice([None, None, False])
                    ops.append({"op": "to_json", "obj": f"o{k + 1}", "bin": b, "temp": True})
                    mops.append({"k": "ser", "bin": b is not False, "v": enc(y)})
            H = {"id": len(out), "objs": objs, "ops": ops}
            out.append((H, mops, {"pattern": "temp-objects", "target": cname}))
    return out


def _history_text(H):
    """one line a reader can follow"""
    parts = []
    for op in H["ops"]:
        spec = H["objs"].get(op.get("obj") or op.get("src") or "", {})
        what = spec.get("fixture") or (_input_text(spec["input"]) + f"[{spec.get('index', 0)}]" if "input" in spec else (spec.get("value") or ["", "?"])[1]) if spec else ""
        if spec.get("unit") is not None:
            what = f"{what}#unit{spec['unit']}"
        if op["op"] == "to_json":
            parts.append(f"to_json({'a temporary ' if op.get('temp') else ''}{what}" + (", include_binary=False)" if op.get("bin") is False else ")"))
        elif op["op"] == "from_json":
            parts.append((f"{op['as']} = " if op.get("as") else "") + f"from_json({'its JSON' if 'of' in op else 'stored JSON of'} {what})")
        elif op["op"] == "from_json_bad":
            parts.append("from_json(malformed document)")
        elif op["op"] == "cli":
            parts.append(f"cli {' '.join(op['flags'])} {op.get('fixture') or _input_text(op['input'])}")
        elif op["op"] == "use":
            leaf = "every stream" if op.get("leaf") is None else f"stream {op['leaf']}"
            parts.append(f"{ {'read': 'read()', 'close': 'close()', 'api-read': 'get_bytes().read() /.data.read() of'}[op['how']] } {leaf} of {op['y']}")
        elif op["op"] == "observe":
            parts.append(f"{op['y']}.to_json()")
        else:
            parts.append(f"{op['op']}({what})")
    return " ; ".join(parts)


def _shrink_history(H, keys, budget=10):
    """drop calls as long as one of the findings stays (each candidate runs in a fresh process state)"""
    cur = H
    changed = True
    while changed and budget > 0:
        changed = False
        for i in range(len(cur["ops"]) - 1):      # the last call stays
            if budget <= 0:
                break
            lab = cur["ops"][i].get("label")
            if lab and any(o.get("of") == lab for o in cur["ops"]):
                continue
            if cur["ops"][i].get("as") and any(o.get("y") == cur["ops"][i]["as"] for o in cur["ops"]):
                continue
            cand = dict(cur, ops=cur["ops"][:i] + cur["ops"][i + 1:])
            used = {o.get("obj") for o in cand["ops"]} | {o.get("src") for o in cand["ops"]}
            cand["objs"] = {k: v for k, v in cur["objs"].items() if k in used}
            budget -= 1
            try:
                r = run_histories([cand], par=1)[0]
            except Exception:
                continue
            if any(f["key"] in keys for f in r.get("findings", [])):
                cur, changed = cand, True
                break
    return cur


def history_violations(hists, results, shrink=True):
    """findings of the worker's judge -> [Violation] (one per key, shortest history first, shrunk)"""
    out, seen = [], set()
    order = sorted(range(len(hists)), key=lambda i: len(hists[i]["ops"]))
    for i in order:
        r = results[i]
        fs = [f for f in r.get("findings", []) if f["key"] != "judge-crashed"]
        fresh = [f for f in fs if f["key"] not in seen]
        if not fresh:
            continue
        H = hists[i]
        keys = {f["key"] for f in fresh}
        if shrink:
            H2 = _shrink_history(H, keys)
            if H2 is not H:
                try:
                    r2 = run_histories([H2], par=1)[0]
                    fs2 = [f for f in r2.get("findings", []) if f["key"] in keys]
                    if fs2:
                        H, fresh = H2, fs2
                except Exception:
                    pass
        for f in fresh:
            if f["key"] in seen:
                continue
            seen.add(f["key"])
            out.append(Violation("history." + f["key"], f"in a fresh process, history [{_history_text(H)}]: {f['what']}", {"history": H}))
    return out


def history_correspondence(ctx, gen, results, broken):
    """the worker's recorded outcomes against the state machine of S2T/Model/SerialState.lean (driver op c05.hist)"""
    reqs = [{"op": "c05.hist", "ops": [m for m in mops if m is not None]} for _, mops, _ in gen]
    outs = pdrive(ctx, reqs)
    mism = 0
    for (H, mops, meta), res, o in zip(gen, results, outs):
        ctx.case(("hist", json.dumps(H["ops"])[:4000], json.dumps(sorted(H["objs"].items()))[:4000]), nontrivial=len(H["ops"]) > 1)
        ctx.count(f"history/{meta['pattern']}")
        if "crash" in res:
            ctx.count("history/child-crashed")
            if len(broken) < 12:
                broken.append(Broken("correspondence", "c05.hist", f"history child crashed: {res['crash'][:300]}", case={"source": "history", "history": H}))
            continue
        if res.get("pristine") is False:
            ctx.count("history/registry-not-empty-after-import")
        if "drv_error" in o:
            broken.append(Broken("correspondence", "driver", o["drv_error"][:300], case={"source": "history"}))
            continue
        mouts = iter(o.get("outs", []))
        bad = None
        for k, (op, m, s) in enumerate(zip(H["ops"], mops, res["steps"])):
            if m is None:
                continue
            mo = next(mouts, {})
            if op["op"] == "to_json":
                if s.get("j") != mo.get("j"):
                    bad = bad or (k, "to_json", s, mo)
            elif "unmodelled" in mo:
                ctx.count("history/step-unmodelled")
            elif m.get("bad"):
                if ("ok" in s) != ("ok" in mo) or ("ok" in s and s["ok"] != mo["ok"]):
                    bad = bad or (k, "from_json(malformed)", s, mo)
            elif s.get("ok") != mo.get("ok") or s.get("err") != mo.get("err"):
                bad = bad or (k, "from_json", s, mo)
        if bad:
            mism += 1
            k, what, s, mo = bad
            if len(broken) < 12:
                broken.append(Broken("correspondence", "c05.hist",
                                     f"history [{_history_text(H)}] step {k} {what}: impl={json.dumps(s)[:300]} model={json.dumps(mo)[:300]}",
                                     case={"source": "history", "history": H}))
    # consumption histories against the heap machine of S2T/Model/SerialHeap.lean (driver op c05.heap)
    hidx = [i for i, (_, _, meta) in enumerate(gen) if meta.get("heap")]
    houts = pdrive(ctx, [{"op": "c05.heap", "ops": [h if h is not None else {"k": "skip"} for h in gen[i][2]["heap"]]} for i in hidx])
    hm = 0
    for i, o in zip(hidx, houts):
        H, _, meta = gen[i]
        res = results[i]
        if "crash" in res:
            continue
        if "drv_error" in o:
            broken.append(Broken("correspondence", "driver", o["drv_error"][:300], case={"source": "history"}))
            continue
        # the heap ops are aligned with the ops that are not to_json (a to_json op carries None)
        bad = None
        for k, (op, hop, s, mo) in enumerate(zip(H["ops"], meta["heap"], res["steps"], o.get("outs", []))):
            if hop is None:
                continue
            ctx.count(f"heap/{hop['k']}" + ("/" + hop["how"] if hop["k"] == "use" else ""))
            if hop["k"] == "deser":
                if "unmodelled" in mo:
                    break
                if s.get("ok") != mo.get("ok") or s.get("err") != mo.get("err"):
                    bad = bad or (k, "from_json", s, mo)
            elif hop["k"] == "use" and hop["how"] != "api-read":
                if s.get("reads") != mo.get("reads"):
                    bad = bad or (k, f"{hop['how']} streams", s, mo)
            elif hop["k"] == "observe":
                if s.get("j") != mo.get("j") or s.get("err") != mo.get("err"):
                    bad = bad or (k, "to_json of a restored object", s, mo)
        if bad:
            hm += 1
            k, what, s, mo = bad
            if len(broken) < 12:
                broken.append(Broken("correspondence", "c05.heap",
                                     f"history [{_history_text(H)}] step {k} {what}: impl={json.dumps(s)[:300]} model={json.dumps(mo)[:300]}",
                                     case={"source": "history", "history": H}))
    ctx.coverage["history_mismatches"] = mism + hm
    ctx.coverage["histories"] = len(gen)
    ctx.coverage["consumption_histories"] = len(hidx)


# =============================================================================================== correspondence
def pdrive(ctx, reqs, workers=8):
    """ctx.drive over several driver processes (the requests are independent)"""
    if len(reqs) < 64:
        return ctx.drive(reqs)
    from concurrent.futures import ThreadPoolExecutor
    # round-robin so that big documents are spread
    parts = [reqs[i::workers] for i in range(workers)]
    with ThreadPoolExecutor(max_workers=workers) as ex:
        res = list(ex.map(ctx.drive, parts))
    out = [None] * len(reqs)
    for i, r in enumerate(res):
        out[i::workers] = r
    return out


def _cmp_rt(ctx, tag, desc, x, o, broken, counters):
    """compare the real code with the model answer `o` of op c05.rt on value x"""
    j, jn, back = real_rt(x)
    bad = []
    if enc(j) != o.get("j"):
        bad.append(("ser(include_binary=True)", enc(j), o.get("j")))
    if enc(jn) != o.get("jn"):
        bad.append(("ser(include_binary=False)", enc(jn), o.get("jn")))
    if "back_unmodelled" in o:
        counters["unmodelled"] += 1      # non-canonical base64 text (possible in loose / malformed cases only)
        if tag in ("strict", "strict-probe", "fixture", "fixture-unit", "generated-xlsx"):
            bad.append(("deser outcome", "model leaves its fragment on a typed value", o["back_unmodelled"]))
    elif "ok" in back:
        if "back_ok" not in o:
            bad.append(("deser outcome", "ok", {k: o[k] for k in o if k.startswith("back_")}))
        else:
            if enc(back["ok"]) != o["back_ok"]:
                bad.append(("deser value", enc(back["ok"]), o["back_ok"]))
            from sharepoint2text.parsing.extractors import serialization as S
            if dataclasses.is_dataclass(back["ok"]) or isinstance(back["ok"], dict):
                try:
                    j2 = enc(S.serialize_extraction(back["ok"]))
                except Exception as e:  # noqa
                    j2 = ["raised", _errname(e)]
                if j2 != o.get("j2"):
                    bad.append(("re-serialised", j2, o.get("j2")))
    else:
        if tag in ("loose", "toplevel-any") and "back_err" in o:
            # several mistyped fields may fail; which one is reached first follows the hash order of a set of
            # field names in _deserialize_dataclass: only "both fail" is compared
            counters["coarse"] = counters.get("coarse", 0) + 1
        elif o.get("back_err") != back["err"]:
            bad.append(("deser error", back["err"], {k: o[k] for k in o if k.startswith("back_")}))
    # the theorems' predicates against the real outcome (model says round trip holds => it must hold for real)
    if o.get("wt") and "ok" in back and o.get("j2") is not None and o.get("j2") != o.get("j"):
        bad.append(("theorem instance", "WellTyped but model j2 != j", None))
    for what, impl, model in bad[:2]:
        if len(broken) < 12:
            broken.append(Broken("correspondence", "c05.rt", f"{tag}: {what}: impl={json.dumps(impl)[:300]} model={json.dumps(model)[:300]}",
                                 case={"source": tag, "desc": desc, "value": enc(x) if len(json.dumps(enc(x))) < 20000 else None}))
    return not bad


# =============================================================================================== binary payloads of every size class
_BIN_KEYS = ("_bytes", "_bytesio")


def codec_input_specs(rng, large):
    """generated input files whose attachment / picture is a described payload of a large size class"""
    top = max([n for n in large if n <= 2 ** 23 + 1] or large)      # the CLI prints this one on every run: the largest power-of-two class
    att = rng.choice([n for n in large if 2 ** 18 < n < top] or large)
    pic = rng.choice([n for n in large if n <= 2 ** 21 + 1] or large)
    return [_eml_spec(90, [["big.bin", CODEC.desc("rand", rng.randrange(1000), top)], ["small.bin", _PAYLOADS[1]],
                           ["mid.bin", CODEC.desc("edge", rng.randrange(1000), att)]]),
            doc_spec(rng.choice(["docx", "odt"]), [CODEC.desc("rand", rng.randrange(1000), pic)])]


def codec_cases(ctx, rng, pool, with_inputs=True):
    """[(tag, desc, x_big, x_small, [(path, d)])]: x_big carries the described payload d at `path`, x_small is the same
    object with the first 33 bytes of it there (small enough to go through the model as a whole)"""
    consts = CODEC.source_constants(corpus.REPO)
    small, large = CODEC.size_classes(rng, consts, ctx.thorough)
    hosts = [(x, ls) for x, ls in ((x, CODEC.leaves(x)) for x in pool) if ls]
    out = []
    if not hosts:
        ctx.notes.append("codec: no instance with a replaceable binary leaf in the pool")
        return out
    pats = list(CODEC.PATTERNS)
    exact = set(CODEC.SMALL_BOUNDS) | {c for c in consts if c <= 65536}
    plan = []
    for i, n in enumerate(small):       # content x size: every pattern at every exact boundary, one (rotating) pattern beside it
        plan += [(n, p) for p in pats] if n in exact else [(n, pats[i % len(pats)])]
    big_pats = ["rand", "edge", "hi", "zero", "ws"]
    k0 = rng.randrange(len(big_pats))
    plan += [(n, big_pats[(k0 + i) % len(big_pats)]) for i, n in enumerate(large)]
    for n, pat in plan:
        d = CODEC.desc(pat, rng.randrange(1000), n)
        raw = CODEC.payload(d)
        x, ls = rng.choice(hosts)
        path, leaf = rng.choice(ls)
        xs, xb = copy.deepcopy(x), copy.deepcopy(x)
        CODEC.set_at(xs, path, CODEC.like(leaf, raw[:33], cursor=0))
        CODEC.set_at(xb, path, CODEC.like(leaf, raw, cursor=rng.choice([0, 0, n // 2, n])))
        out.append(("instance", None, xb, xs, [(path, d)]))
    if with_inputs:
        for spec in codec_input_specs(rng, large):
            for i, r in enumerate(_input_results(spec)):
                found = [(p, l, CODEC.lookup(l.getvalue() if isinstance(l, io.BytesIO) else l)) for p, l in CODEC.leaves(r)]
                found = [(p, l, d) for p, l, d in found if d is not None]
                if not found:
                    ctx.count("codec/input-without-the-payload")
                    continue
                xs = copy.deepcopy(r)
                for p, l, dd in found:
                    CODEC.set_at(xs, p, CODEC.like(l, CODEC.payload(dd)[:33], cursor=0))
                out.append(("input", {"input": spec, "index": i}, r, xs, [(p, dd) for p, _, dd in found]))
    return out


def codec_correspondence(ctx, cases, broken):
    """the real serialiser / deserialiser on payloads of every size class against the model: the text of each described leaf
    at 3-aligned windows (each against the model's b64enc: C05_codec_window / _suffix / _length), everything around the leaves
    against the model's answer for the small twin, the restored payloads byte for byte (C05_binary_restored)"""
    from sharepoint2text.parsing.extractors import serialization as S
    consts = CODEC.source_constants(corpus.REPO)
    reqs, plan = [], []
    for tag, desc, xb, xs, lvs in cases:
        start = len(reqs)
        reqs.append({"op": "c05.rt", "v": enc(xs)})
        per = []
        for path, d in lvs:
            raw = CODEC.payload(d)
            n = len(raw)
            if n <= 3072:
                wins, tail = ([(0, n // 3 * 3)] if n >= 3 else []), n // 3 * 3
            else:
                wins, tail = CODEC.windows(n, ctx.rng, consts)
            per.append((len(reqs), wins, tail))
            reqs.append({"op": "c05.b64", "bytes": list(raw[:33])})
            reqs += [{"op": "c05.b64", "bytes": list(raw[o:o + w])} for o, w in wins]
            reqs.append({"op": "c05.b64", "bytes": list(raw[tail:])})
        plan.append((start, per, len(reqs)))
    outs = pdrive(ctx, reqs)
    for (tag, desc, xb, xs, lvs), (start, per, end) in zip(cases, plan):
        ctx.case(("codec", tag, [d for _, d in lvs], json.dumps(reqs[start]["v"])[:4000]))
        for _, d in lvs:
            n = len(CODEC.payload(d))
            ctx.count(f"codec/{tag}/2^{n.bit_length() - 1 if n else 0}")
        o = outs[start]
        if any("drv_error" in a for a in outs[start:end]):
            broken.append(Broken("correspondence", "driver", str([a["drv_error"] for a in outs[start:end] if "drv_error" in a][:1])[:300],
                                 case={"source": "codec", "payload": lvs[0][1]}))
            continue
        bad = []
        j, jn, back = real_rt(xb)
        js = j
        for (path, d), (at, wins, tail) in zip(lvs, per):
            raw = CODEC.payload(d)
            n = len(raw)
            try:
                node = CODEC.get_at(j, path)
            except (KeyError, IndexError, TypeError, StopIteration):
                node = None
            key = next(iter(node)) if isinstance(node, dict) and len(node) == 1 else None
            if key not in _BIN_KEYS or not isinstance(node[key], str):
                bad.append((f"{d}: leaf at {path}", str(node)[:80], "{'_bytes' | '_bytesio': text}"))
                break
            text = node[key]
            if len(text) != 4 * ((n + 2) // 3):
                bad.append((f"{d} at {path}: length of the text of {n} bytes (C05_codec_length)", len(text), 4 * ((n + 2) // 3)))
            for (off, w), a in zip(wins, outs[at + 1:]):
                got = text[4 * off // 3: 4 * (off + w) // 3]
                if got != a["text"]:
                    k = next((i for i, (p, q) in enumerate(zip(got, a["text"])) if p != q), min(len(got), len(a["text"])))
                    bad.append((f"{d} at {path}: text of bytes [{off}, {off + w}) (C05_codec_window), first difference at character {4 * off // 3 + k}",
                                got[max(0, k - 8): k + 12], a["text"][max(0, k - 8): k + 12]))
                    break
            a = outs[at + 1 + len(wins)]
            if text[4 * tail // 3:] != a["text"]:
                bad.append((f"{d} at {path}: text of the last {n - tail} bytes (C05_codec_suffix)", text[4 * tail // 3:][-24:], a["text"][-24:]))
            js = CODEC.subst_json(js, path, {key: outs[at]["text"]})
        if not bad:
            if enc(js) != o.get("j"):
                bad.append(("ser(include_binary=True) around the payload", json.dumps(enc(js))[:200], json.dumps(o.get("j"))[:200]))
            if enc(jn) != o.get("jn"):
                bad.append(("ser(include_binary=False)", json.dumps(enc(jn))[:200], json.dumps(o.get("jn"))[:200]))
        if "ok" not in back:
            bad.append(("deser outcome", back["err"], "ok"))
        else:
            y = back["ok"]
            try:
                if S.serialize_extraction(y) != j:
                    bad.append(("re-serialised", "differs from to_json() of the original", "identical"))
            except Exception as e:  # noqa
                bad.append(("re-serialised", "raised " + _errname(e), "identical"))
            for path, d in lvs:
                raw = CODEC.payload(d)
                n = len(raw)
                try:
                    leaf = CODEC.get_at(y, path)
                    got = leaf.getvalue() if isinstance(leaf, io.BytesIO) else bytes(leaf)
                except Exception as e:  # noqa
                    bad.append((f"{d}: restored leaf at {path}", "unreachable: " + _errname(e), f"{n} bytes"))
                    break
                if got != raw:
                    k = next((i for i, (p, q) in enumerate(zip(got, raw)) if p != q), min(len(got), n))
                    bad.append((f"{d} at {path}: restored payload (C05_binary_restored)", f"{len(got)} bytes, equal up to byte {k}", f"{n} bytes"))
                    break
                if isinstance(leaf, io.BytesIO) and leaf.tell() != 0:
                    bad.append((f"{d} at {path}: restored stream position", leaf.tell(), 0))
                CODEC.set_at(y, path, CODEC.like(leaf, raw[:33], cursor=0))
            if not bad and "back_ok" in o and enc(y) != o["back_ok"]:
                bad.append(("deser value around the payload", json.dumps(enc(y))[:200], json.dumps(o["back_ok"])[:200]))
        for what, impl, model in bad[:2]:
            if len(broken) < 12:
                broken.append(Broken("correspondence", "c05.codec", f"{tag}: {type(xb).__name__} with {[d for _, d in lvs]}: {what}: impl={impl!r} model={model!r}",
                                     case={"source": "codec", "desc": desc, "payload": lvs[0][1], "value": enc(xb) if desc is None else None}))
    return None


def correspondence(ctx):
    broken, violations = [], []
    counters = {"unmodelled": 0}
    rng = ctx.rng
    # ---------- (a) type-directed instances
    cases = []
    for x in instances(ctx, rng, ctx.n(8, 20), strict=True):
        cases.append(("strict", None, x))
    for x in instances(ctx, rng, ctx.n(5, 10), strict=True, umd=True):
        cases.append(("strict+marker-dicts", None, x))
    for x in instances(ctx, rng, ctx.n(8, 20), strict=False, umd=True):
        cases.append(("loose", None, x))
    # (a'') constructor / deserialiser normalisers: strings built from what the construction hooks and the deserialiser look for
    # (doubled, nested, in look-around context), white-space alphabet, double-encoding classics; in every string slot of
    # every class.  All of them are judged on the real code (round trip = the property's core); the failing ones and a
    # rotating sample go to the model as well
    import random as _random
    prng = _random.Random(ctx.seed * 104729 + 11)
    _CTOR_ARGS.clear()
    probes = normaliser_probes(ctx, prng)
    pbad = probe_violations(ctx, probes)
    ctx.count("probe/instances-judged-on-the-real-code", len(probes))
    ctx.count("probe/failing", len(pbad))
    for x, vs in pbad[:6]:
        cases.append(("strict-probe", None, x))
        for v in vs:
            if not any(o.key == v.key for o in violations):
                violations.append(v)
    for name, fname, x in prng.sample(probes, min(len(probes), ctx.n(250, 1500))):
        cases.append(("strict-probe", None, x))
    # top-level values that are not dataclass instances (serialize_extraction wraps them in {"value": ..})
    g = TypeDirected(rng, strict=False, untyped_marker_dicts=True)
    for _ in range(ctx.n(500, 4000)):
        cases.append(("toplevel-any", None, g.any_value(1)))
    # ---------- (b) extractor results and their units
    res = extractor_results(ctx, max_size=ctx.n(300_000, 20_000_000), limit=ctx.n(60, 400))
    for desc, r in res:
        cases.append(("fixture", desc, r))
        try:
            for ui, u in enumerate(r.iterate_units()):
                if ui < ctx.n(3, 50):
                    cases.append(("fixture-unit", dict(desc, unit=ui), u))
        except Exception as e:  # iterate_units failing is C03/C04's business
            ctx.count("fixture/iterate_units-raised:" + type(e).__name__)
    from sharepoint2text.parsing.extractors.ms_modern import xlsx_extractor
    for i in range(ctx.n(20, 150)):
        rows = workbook_rows(rng)
        r = corpus.run_extractor(xlsx_extractor.read_xlsx, xlsx_bytes(rows), path="gen.xlsx", limit_s=20)
        if r[0] == "ok":
            for x in r[1]:
                cases.append(("generated-xlsx", {"xlsx_rows": [[enc_cell(c) for c in row] for row in rows]}, x))
        else:
            ctx.count("generated-xlsx/" + r[0])
    # ---------- (b') process histories: started now in fresh process states (zygote worker), collected at the end
    import random as _random
    hrng = _random.Random(ctx.seed * 7919 + 5)
    hgen = gen_histories(ctx, hrng, [x for tag, _, x in cases if tag == "strict"],
                         [(d, x) for tag, d, x in cases if tag == "fixture"],
                         per_class=ctx.n(1, 6), extra=ctx.n(40, 400), n_fixture=ctx.n(24, 150),
                         repeats=ctx.n(12, 100), pairs=ctx.n(30, 1000), n_cli=ctx.n(5, 20),
                         n_consume=ctx.n(48, 300), n_cli_gen=ctx.n(10, 40))
    hrun = HistoryRun([h for h, _, _ in hgen], par=ctx.n(6, 12))
    reqs = [{"op": "c05.rt", "v": enc(x)} for _, _, x in cases]
    outs = pdrive(ctx, reqs)
    mism = 0
    for (tag, desc, x), q, o in zip(cases, reqs, outs):
        ctx.case(json.dumps(q["v"]), nontrivial=nontrivial(q["v"]))
        if "drv_error" in o:
            broken.append(Broken("correspondence", "driver", o["drv_error"][:300], case={"source": tag, "desc": desc}))
            continue
        ok = _cmp_rt(ctx, tag, desc, x, o, broken, counters)
        mism += 0 if ok else 1
        ctx.count(f"rt/{tag}/" + ("welltyped" if o.get("wt") else "outside-hypotheses") + ("" if o.get("nf") else "/foreign"))
        if tag in ("strict", "fixture", "fixture-unit", "generated-xlsx") and not o.get("wt"):
            ctx.count(f"rt/{tag}/NOT-welltyped")
            if tag != "strict" and len(broken) < 12:
                # an extractor result outside the theorem's hypotheses: the theorem does not cover it
                broken.append(Broken("correspondence", "c05.welltyped", f"{tag}: extractor result is not WellTyped for the generated schema",
                                     case={"source": tag, "desc": desc}))
        if tag in ("fixture", "fixture-unit", "generated-xlsx") and not o.get("nf") and len(broken) < 12:
            broken.append(Broken("correspondence", "c05.noforeign", f"{tag}: extractor result contains a value of a type the serialiser does not know",
                                 case={"source": tag, "desc": desc}))
    ctx.sample({"source": cases[0][0], "value": reqs[0]["v"], "model": {k: outs[0].get(k) for k in ("wt", "nf", "json")}})
    # ---------- (a') binary payloads of every size class (16 B .. 12 MiB), in instances and delivered by the extractors
    ccases = codec_cases(ctx, rng, [x for tag, _, x in cases if tag == "strict"])
    codec_correspondence(ctx, ccases, broken)
    for tag, desc, xb, _, lvs in ccases:
        d = lvs[0][1]
        if tag == "input" and desc["input"]["k"] == "eml" and desc["index"] == 0:
            # the real cli.main on a file with a large payload, all four flag combinations, judged by the oracle
            results, runs = _cli_on_input(desc["input"])
            for flags, rc, got, errtext in runs if results is not None else []:
                ctx.case(("cli-main-large", d, flags))
                for v in _judge_cli_output(flags, rc, got, errtext, results, {"cli": flags, "input": desc["input"]}):
                    v.what = f"on generated input {_input_text(desc['input'])}: {v.what}"
                    if not any(o.key == v.key for o in violations):
                        violations.append(v)
    del ccases
    # ---------- (c) malformed stream: one injected fault per serialised document + junk
    names = sorted(_reg())
    docs = []
    pool = [x for tag, _, x in cases if tag in ("strict", "loose", "strict+marker-dicts")]
    from sharepoint2text.parsing.extractors import serialization as S
    for x in rng.sample(pool, min(len(pool), ctx.n(1800, 12000))):
        try:
            j = json.loads(json.dumps(S.serialize_extraction(x)))
        except (TypeError, ValueError):
            continue
        base_ok = "ok" in real_deser(j)
        for _ in range(ctx.n(2, 4)):
            docs.append(one_fault(rng, j, names) + (base_ok,))
    reqs = [{"op": "c05.deser", "j": enc(d)} for _, d, _ in docs]
    outs = pdrive(ctx, reqs)
    for (kind, d, base_ok), q, o in zip(docs, reqs, outs):
        ctx.case(("deser", json.dumps(q["j"])), nontrivial=True)
        if "drv_error" in o:
            broken.append(Broken("correspondence", "driver", o["drv_error"][:300], case={"source": "malformed", "doc": d}))
            continue
        if "unmodelled" in o:
            counters["unmodelled"] += 1
            ctx.count(f"deser/{kind}/unmodelled")
            continue
        r = real_deser(d)
        ctx.count(f"deser/{kind}/" + ("ok" if "ok" in r else "err:" + r["err"]))
        if not base_ok and "err" in r and "err" in o:
            continue  # the base document already fails: two error sources, order is hash-dependent
        if r != o:
            mism += 1
            if len(broken) < 12:
                broken.append(Broken("correspondence", "c05.deser", f"{kind}: impl={json.dumps(r)[:300]} model={json.dumps(o)[:300]}",
                                     case={"source": "malformed", "kind": kind, "doc": d}))
    if docs:
        ctx.sample({"source": "malformed/" + docs[0][0], "doc": reqs[0]["j"], "model": outs[0]})
    # ---------- cell normalisation
    cells = cell_values(rng, ctx.n(200, 2000))
    reqs = [{"op": "c05.cell", "c": enc_cell(c)} for c in cells]
    outs = pdrive(ctx, reqs)
    for c, q, o in zip(cells, reqs, outs):
        ctx.case(("cell", json.dumps(q["c"])), nontrivial=not isinstance(c, (str, int, float, type(None))))
        try:
            got = enc(xlsx_extractor._get_cell_value(c))
        except Exception as e:  # noqa
            got = ["raised", _errname(e)]
        ctx.count("cell/" + q["c"][0])
        if got != o.get("v"):
            mism += 1
            if len(broken) < 12:
                broken.append(Broken("correspondence", "c05.cell", f"_get_cell_value({c!r}): impl={got} model={o.get('v')}",
                                     case={"source": "cell", "cell": q["c"]}))
    # ---------- CLI payload shaping
    from sharepoint2text import cli
    small = [x for tag, _, x in cases if tag in ("fixture", "generated-xlsx")] or pool
    reqs, impls = [], []
    for _ in range(ctx.n(100, 600)):
        k = rng.choice([0, 1, 1, 1, 2, 3])
        rs = [rng.choice(small if rng.random() < 0.5 else pool) for _ in range(k)]
        if k >= 2 and rng.random() < 0.3:
            rs[-1] = rs[0]                # equal results (the same file twice in an archive)
        b = rng.random() < 0.5
        unit = rng.random() < 0.5
        units = []
        try:
            units = [list(r.iterate_units()) if hasattr(r, "iterate_units") else [] for r in rs]
        except Exception:
            continue
        if unit and not all(hasattr(r, "iterate_units") for r in rs):
            continue
        try:
            got = enc((cli._serialize_unit_results if unit else cli._serialize_results)(rs, include_binary=b))
        except Exception as e:  # noqa
            got = ["raised", _errname(e)]
        reqs.append({"op": "c05.cli", "rs": [enc(r) for r in rs], "units": [[enc(u) for u in us] for us in units], "bin": b, "unit": unit})
        impls.append((k, unit, b, got))
    outs = pdrive(ctx, reqs)
    for (k, unit, b, got), q, o in zip(impls, reqs, outs):
        ctx.case(("cli", k, unit, b, json.dumps(q["rs"])[:2000]))
        ctx.count(f"cli/{'unit' if unit else 'result'}/{min(k, 2)}")
        if got != o.get("j"):
            mism += 1
            if len(broken) < 12:
                broken.append(Broken("correspondence", "c05.cli", f"results={k} unit={unit} bin={b}: impl={json.dumps(got)[:200]} model={json.dumps(o)[:200]}",
                                     case={"source": "cli", "n": k, "unit": unit, "bin": b}))
    # ---------- the real cli.main (argument parsing, read_file, payload shaping, json.dumps, stdout) on generated inputs:
    # several results x binary payloads x equal payloads x every flag combination, against the model's payload and the oracle
    reqs, impls = [], []
    for spec in gen_input_specs(rng, ctx.n(6, 60)):
        results, runs = _cli_on_input(spec)
        if results is None:
            ctx.count("cli-main/unreadable")
            continue
        try:
            units = [list(r.iterate_units()) for r in results]
        except Exception:
            continue
        for flags, rc, got, errtext in runs:
            b, unit = "--binary" in flags, "--json-unit" in flags
            try:
                impl = enc(json.loads(got)) if rc == 0 else ["exit", rc]
            except ValueError:
                impl = ["not-json"]
            reqs.append({"op": "c05.cli", "rs": [enc(r) for r in results], "units": [[enc(u) for u in us] for us in units], "bin": b, "unit": unit})
            impls.append((spec, flags, len(results), impl))
            for v in _judge_cli_output(flags, rc, got, errtext, results, {"cli": flags, "input": spec}):
                v.what = f"on generated input {_input_text(spec)}: {v.what}"
                if not any(o.key == v.key for o in violations):
                    violations.append(v)
    outs = pdrive(ctx, reqs)
    for (spec, flags, k, impl), q, o in zip(impls, reqs, outs):
        ctx.case(("cli-main", json.dumps(spec), flags))
        ctx.count(f"cli-main/{'unit' if q['unit'] else 'result'}/{'binary' if q['bin'] else 'no-binary'}/{min(k, 2)}")
        if impl != o.get("j"):
            mism += 1
            if len(broken) < 12:
                broken.append(Broken("correspondence", "c05.cli.main", f"cli {' '.join(flags)} on {_input_text(spec)}: "
                                     f"stdout={json.dumps(impl)[:200]} model={json.dumps(o)[:200]}", case={"source": "cli-main", "cli": flags, "input": spec}))
    ctx.coverage["mismatches"] = mism
    ctx.coverage["unmodelled_base64_cases"] = counters["unmodelled"]
    # ---------- (b') collect the histories: outcomes vs. the state machine, and the judge's findings
    hres = hrun.finish()
    history_correspondence(ctx, hgen, hres, broken)
    violations += history_violations([h for h, _, _ in hgen], hres)
    if hgen:
        ctx.sample({"source": "history", "history": _history_text(hgen[0][0]), "steps": [s.get("op") for s in hres[0].get("steps", [])]})
    return {"broken": broken, "violations": violations}


# =============================================================================================== oracle (property statement on the real code)
def _canon_json(j):
    """json text with NaN-safe, order-preserving comparison semantics"""
    return json.dumps(j, ensure_ascii=True, allow_nan=True)


def _binary_positions(x, path=()):
    """positions (as the serialiser will name them) of bytes / bytearray / BytesIO leaves of a Python value"""
    if isinstance(x, (bytes, bytearray, io.BytesIO)):
        yield path
    elif dataclasses.is_dataclass(x) and not isinstance(x, type):
        for f in dataclasses.fields(x):
            yield from _binary_positions(getattr(x, f.name), path + (f.name,))
    elif isinstance(x, dict):
        last = {}
        for k, v in x.items():
            last[str(k)] = v
        for k, v in last.items():
            yield from _binary_positions(v, path + (k,))
    elif isinstance(x, (list, tuple, set, frozenset)):
        for i, v in enumerate(x):
            yield from _binary_positions(v, path + (i,))


def _diff_positions(a, b, path=()):
    if type(a) is not type(b) or isinstance(a, (str, int, float, bool, type(None))):
        if _canon_json(a) != _canon_json(b):
            yield path
    elif isinstance(a, dict):
        if list(a) != list(b):
            yield path
        else:
            for k in a:
                yield from _diff_positions(a[k], b[k], path + (k,))
    elif isinstance(a, list):
        if len(a) != len(b):
            yield path
        else:
            for i, (u, v) in enumerate(zip(a, b)):
                yield from _diff_positions(u, v, path + (i,))


def _untyped_marker_dict(x, tp=typing.Any, depth=0):
    """marker key ('_bytes'/'_bytesio'/'_type') of a dict that sits in a position not declared Dict[...]
    (walk by the type hints, as deep as the deserialiser goes); None if there is none."""
    from sharepoint2text.parsing.extractors import serialization as S
    if x is None or depth > 40:
        return None
    inner, is_opt = S._unwrap_optional(tp)
    if is_opt:
        tp = inner
    origin, args = typing.get_origin(tp), typing.get_args(tp)
    if dataclasses.is_dataclass(x) and not isinstance(x, type):
        hints = typing.get_type_hints(type(x))
        for f in dataclasses.fields(x):
            r = _untyped_marker_dict(getattr(x, f.name), hints.get(f.name, typing.Any), depth + 1)
            if r:
                return r
        return None
    if isinstance(x, dict):
        if origin is dict:
            for v in x.values():
                r = _untyped_marker_dict(v, args[1] if len(args) > 1 else typing.Any, depth + 1)
                if r:
                    return r
            return None
        ks = {str(k) for k in x}
        for m in ("_bytesio", "_bytes", "_type"):
            if m in ks:
                return m
        return None
    if isinstance(x, (list, tuple, set, frozenset)) and origin is list:
        for v in x:
            r = _untyped_marker_dict(v, args[0] if args else typing.Any, depth + 1)
            if r:
                return r
    return None


def _to_json(o):
    from sharepoint2text.parsing.extractors import serialization as S
    return o.to_json() if hasattr(o, "to_json") else S.serialize_extraction(o)


def _judge_nobinary(x, j, jn, add):
    """`jn` = serialisation of x without binary payloads, `j` = with: exactly the binary fields became null"""
    json.dumps(jn)
    diff = set(_diff_positions(j, jn))
    binpos = set(_binary_positions(x))
    if isinstance(j, dict) and "value" in j and not (dataclasses.is_dataclass(x) or isinstance(x, dict)):
        binpos = {("value",) + p for p in binpos}
    if diff != binpos:
        add("serial.nobinary-diff", f"include_binary=False changes positions {sorted(map(str, diff ^ binpos))[:4]} other than exactly the binary fields")
    else:
        cur_ok = True
        for p in diff:
            cur = jn
            for s in p:
                cur = cur[s]
            cur_ok = cur_ok and cur is None
        if not cur_ok:
            add("serial.nobinary-not-null", "a binary field is not null with include_binary=False")


def _judge_rebuilt(x, y, j, text, add, known, out):
    """y = what from_json made of the JSON `j` (= json text `text`) of x: same type, identical to_json, full text,
    units, tables, image / attachment bytes, every nested object of the same class"""
    from sharepoint2text.parsing.extractors import serialization as S
    if type(y) is not type(x):
        add(known or "serial.roundtrip-type", f"from_json rebuilt a {type(y).__name__}")
        return out
    try:
        if _canon_json(_to_json(y)) != text:
            d = list(_diff_positions(j, json.loads(json.dumps(_to_json(y)))))[:3]
            add(known or "serial.roundtrip-to_json", f"to_json() of the rebuilt object differs at {d}")
    except Exception as e:  # noqa
        add(known or "serial.roundtrip-to_json", f"to_json() of the rebuilt object raised {type(e).__name__}")
        return out
    if known:
        return out
    for meth in ("get_full_text",):
        if hasattr(x, meth):
            try:
                a, b = getattr(x, meth)(), getattr(y, meth)()
                if a != b:
                    add("serial.roundtrip-" + meth, f"{meth}() differs after the round trip")
            except Exception:
                pass
    if hasattr(x, "iterate_units"):
        try:
            ua = [_canon_json(_to_json(u)) for u in x.iterate_units()]
            ub = [_canon_json(_to_json(u)) for u in y.iterate_units()]
            if ua != ub:
                add("serial.roundtrip-units", "units differ after the round trip")
        except Exception:
            pass
    if hasattr(x, "iterate_tables"):
        try:
            ta = [_canon_json(S.serialize_extraction(t.get_table())) for t in x.iterate_tables()]
            tb = [_canon_json(S.serialize_extraction(t.get_table())) for t in y.iterate_tables()]
            if ta != tb:
                add("serial.roundtrip-tables", "tables differ after the round trip")
        except Exception:
            pass
    if hasattr(x, "iterate_images"):
        try:
            ia = [i.get_bytes().getvalue() for i in x.iterate_images()]
            ib = [i.get_bytes().getvalue() for i in y.iterate_images()]
            if ia != ib:
                add("serial.roundtrip-image-bytes", "image bytes differ after the round trip")
        except Exception:
            pass
    # every nested object is rebuilt as an object of the same class (a dict left raw where an image / unit /
    # metadata object stood serialises identically, but has no interface and no bytes)
    def deep(a, b, path, depth=0):
        if depth > 12 or len(out) > 6:
            return
        if dataclasses.is_dataclass(a) and not isinstance(a, type):
            if type(b) is not type(a):
                add("serial.roundtrip-nested-type", f"{path}: {type(a).__name__} rebuilt as {type(b).__name__}")
                return
            for f in dataclasses.fields(a):
                deep(getattr(a, f.name), getattr(b, f.name, None), f"{path}.{f.name}", depth + 1)
        elif isinstance(a, (list, tuple)) and isinstance(b, (list, tuple)) and len(a) == len(b):
            for i, (p, q) in enumerate(zip(a, b)):
                deep(p, q, f"{path}[{i}]", depth + 1)
        elif isinstance(a, io.BytesIO):
            if not (isinstance(b, io.BytesIO) and a.getvalue() == b.getvalue()):
                add("serial.roundtrip-bytes-field", f"{path}: BytesIO not restored")
        elif isinstance(a, (bytes, bytearray)):
            if not (isinstance(b, (bytes, bytearray)) and bytes(a) == bytes(b)):
                add("serial.roundtrip-bytes-field", f"{path}: bytes not restored")
    deep(x, y, type(x).__name__)
    # every binary leaf of a declared-binary field is restored as binary with the same bytes
    hints = typing.get_type_hints(type(x))
    for f in dataclasses.fields(x):
        a, b = getattr(x, f.name), getattr(y, f.name, None)
        if isinstance(a, (bytes, bytearray)) and not (isinstance(b, (bytes, bytearray)) and bytes(a) == bytes(b)):
            add("serial.roundtrip-bytes-field", f"field {f.name}: bytes not restored")
        if isinstance(a, io.BytesIO) and not (isinstance(b, io.BytesIO) and a.getvalue() == b.getvalue()):
            add("serial.roundtrip-bytes-field", f"field {f.name}: BytesIO not restored")
    return out


_MUTABLE_NODES = (io.BytesIO, list, dict, set, bytearray)


def _mutable_nodes(x, path=(), out=None, depth=0):
    """[(path, node)] of every mutable object reachable from x (streams, containers, dataclass instances)"""
    out = [] if out is None else out
    if depth > 40:
        return out
    if isinstance(x, _MUTABLE_NODES):
        out.append((path, x))
    if dataclasses.is_dataclass(x) and not isinstance(x, type):
        out.append((path, x))
        for f in dataclasses.fields(x):
            _mutable_nodes(getattr(x, f.name, None), path + (f.name,), out, depth + 1)
    elif isinstance(x, dict):
        for k, v in x.items():
            _mutable_nodes(v, path + (str(k),), out, depth + 1)
    elif isinstance(x, (list, tuple, set, frozenset)):
        for i, v in enumerate(x):
            _mutable_nodes(v, path + (i,), out, depth + 1)
    return out


def _shared_mutables(ys):
    """ys = [(label, restored object)], each restored from its OWN freshly parsed JSON.  Messages for every mutable object
    that stands in two places (of one restored object or of two), each with what a caller sees of it: the operation
    through one place and the changed observation through the other."""
    seen, msgs = {}, []
    for label, y in ys:
        for path, node in _mutable_nodes(y):
            where = (label, y, path)
            first = seen.setdefault(id(node), where)
            if first is where:
                continue
            a = f"{type(first[1]).__name__}.{'.'.join(map(str, first[2]))} (restored at {first[0]})"
            b = f"{type(y).__name__}.{'.'.join(map(str, path))} (restored at {label})"
            demo = None
            if isinstance(node, io.BytesIO):
                try:
                    node.seek(0)
                    full = node.getvalue()
                    node.read()                       # the holder of the first place consumes its stream
                    got = node.read()                 # the holder of the second place reads "its" stream
                    if got != full:
                        demo = f"after read() through the first, read() through the second returns {len(got)} of {len(full)} bytes"
                    else:
                        node.close()
                        try:
                            _to_json(y)
                        except ValueError as e:
                            demo = f"after close() through the first, to_json() of the second raises ValueError: {e}"
                except ValueError as e:
                    demo = f"the stream is already closed: {e}"
            else:
                try:
                    before = _canon_json(_to_json(y))
                    undo = None
                    if isinstance(node, list):
                        node.append("<appended through the other object>")
                        undo = node.pop
                    elif isinstance(node, dict):
                        node["<added through the other object>"] = 1
                        undo = lambda: node.pop("<added through the other object>")   # noqa: E731
                    elif dataclasses.is_dataclass(node):
                        for f in dataclasses.fields(node):
                            old = getattr(node, f.name)
                            if isinstance(old, str):
                                setattr(node, f.name, old + "<changed through the other object>")
                                undo = lambda f=f, old=old: setattr(node, f.name, old)   # noqa: E731
                                break
                    if undo:
                        after = _canon_json(_to_json(y))
                        undo()
                        if after != before:
                            demo = "changing it through the first changes to_json() of the second"
                except Exception:
                    pass
            if demo:
                msgs.append(f"{a} and {b} are ONE {type(node).__name__} object: {demo}")
    return msgs


def _judge_independent(x, y1, text, add):
    """The rebuilt object carries the same image / attachment bytes FOR A CALLER: every stream can be consumed after all were
    collected, an object restored earlier or later from the same JSON text is unaffected by consuming / closing the streams
    of another one, and restored objects share nothing mutable.  y1 = from_json(json.loads(text)) (already judged equal)."""
    from sharepoint2text.parsing.extractors.data_types import ExtractionInterface
    want = [(p, s.getvalue()) for p, s in _stream_leaves(x)]
    y2 = ExtractionInterface.from_json(json.loads(text))
    shared = _shared_mutables([("the first from_json", y1), ("a second from_json of the same text", y2)]) if not want else []
    if want:
        def consume(y, when):
            ls = _stream_leaves(y)
            if [p for p, _ in ls] != [p for p, _ in want]:
                return
            got = []
            for _, s in ls:
                try:
                    got.append(s.read())
                except ValueError:
                    got.append("closed")
            bad = [i for i, (g, (_, w)) in enumerate(zip(got, want)) if g != w]
            if bad:
                i = bad[0]
                add("serial.restored-stream-short", f"{when}: read() of {'.'.join(map(str, want[i][0]))} returned "
                    f"{got[i] if isinstance(got[i], str) else str(len(got[i])) + ' bytes'}, expected {len(want[i][1])} bytes")

        api_want = [s.getvalue() for _, s in _api_streams(x)]
        consume(y1, "streams of the rebuilt object read one after the other")
        consume(y2, "an object restored from the same text before the first one was consumed")
        y3 = ExtractionInterface.from_json(json.loads(text))
        consume(y3, "an object restored from the same text after the first one was consumed")
        y4 = ExtractionInterface.from_json(json.loads(text))
        try:
            api_got = [s.read() for _, s in _api_streams(y4)]
        except ValueError:
            api_got = ["closed"]
        if api_got != api_want:
            add("serial.restored-stream-short", f"image / attachment bytes read through get_bytes() / .data of a restored object: lengths "
                f"{[g if isinstance(g, str) else len(g) for g in api_got]}, expected {[len(w) for w in api_want]}")
        y5 = ExtractionInterface.from_json(json.loads(text))
        shared = _shared_mutables([("one from_json", y4), ("another from_json of the same text", y5)])
        for _, s in _stream_leaves(y1):
            s.close()
        y6 = ExtractionInterface.from_json(json.loads(text))
        for y, when in ((y3, "restored before"), (y6, "restored after")):
            try:
                if _canon_json(_to_json(y)) != text:
                    add("serial.restored-object-changed", f"to_json() of an object {when} the streams of another restored object were closed differs")
            except Exception as e:  # noqa
                add("serial.restored-object-broken", f"to_json() of an object {when} the streams of another restored object were closed raised "
                    f"{type(e).__name__}: {e}")
    for m in shared[:1]:
        add("serial.restored-objects-share-state", m)


def check_value(x, replay, judge_roundtrip=True):
    """The property statement on one result / unit / instance. Returns [Violation]."""
    from sharepoint2text.parsing.extractors import serialization as S
    from sharepoint2text.parsing.extractors.data_types import ExtractionInterface
    out = []
    cls = type(x).__name__

    def add(key, what):
        out.append(Violation(key, f"{cls}: {what}", replay))

    try:
        j = _to_json(x)
    except Exception as e:  # noqa
        add("serial.to_json-raises", f"to_json() raised {type(e).__name__}: {e}")
        return out
    try:
        text = json.dumps(j)
    except Exception as e:  # noqa
        add("serial.not-json-serialisable", f"json.dumps(to_json()) raised {type(e).__name__}: {str(e)[:120]}")
        return out
    j2 = json.loads(text)
    if _canon_json(j2) != text:
        add("serial.json-transport", "json.loads(json.dumps(to_json())) is not the same data")
    # ---- binary payloads excluded: exactly the binary fields become null
    try:
        jn = S.serialize_extraction(x, include_binary=False)
        _judge_nobinary(x, j, jn, add)
    except Exception as e:  # noqa
        add("serial.nobinary-raises", f"serialize_extraction(include_binary=False) / json.dumps raised {type(e).__name__}: {str(e)[:100]}")
    if not judge_roundtrip or not dataclasses.is_dataclass(x):
        return out
    # ---- round trip
    marker = _untyped_marker_dict(x)
    known = {"_bytes": "serial.bytes-marker-in-untyped-dict", "_bytesio": "serial.bytes-marker-in-untyped-dict",
             "_type": "serial.type-marker-in-untyped-dict"}.get(marker)
    try:
        y = ExtractionInterface.from_json(j2)
    except Exception as e:  # noqa
        add(known or "serial.from_json-raises", f"from_json(json.loads(json.dumps(to_json()))) raised {type(e).__name__}: {str(e)[:120]}")
        return out
    _judge_rebuilt(x, y, j, text, add, known, out)
    if not known and not out:
        try:
            _judge_independent(x, y, text, add)
        except Exception as e:  # noqa
            add("serial.from_json-raises", f"restoring the same JSON text again raised {type(e).__name__}: {str(e)[:120]}")
    return out


def _judge_cli_output(flags, rc, got, errtext, results, replay):
    """one CLI run (exit code, stdout, stderr) against the results of the file it was given"""
    from sharepoint2text.parsing.extractors import serialization as S
    out = []
    b = "--binary" in flags
    try:
        if "--json" in flags:
            exp = [S.serialize_extraction(r, include_binary=b) for r in results]
        else:
            exp = [[S.serialize_extraction(u, include_binary=b) for u in r.iterate_units()] for r in results]
        exp_text = json.dumps(exp[0] if len(results) == 1 else exp)
    except Exception as e:  # noqa
        # the payload itself is not serialisable: reported by check_value; CLI must then fail cleanly
        if rc == 0 or got:
            out.append(Violation("cli.output-despite-unserialisable", f"{flags}: rc={rc} stdout={len(got)} bytes though payload raises {type(e).__name__}", replay))
        return out
    if rc != 0:
        out.append(Violation("cli.json-fails", f"{' '.join(flags)} exits {rc}: {errtext[:120]}", replay))
        return out
    if got != exp_text + "\n":
        detail = ""
        try:
            if not b and any(m in got for m in ('"_bytes":', '"_bytesio":')) and not any(m in exp_text for m in ('"_bytes":', '"_bytesio":')):
                detail = "; binary payloads are printed although --binary is absent"
        except Exception:
            pass
        out.append(Violation("cli.json-differs", f"{' '.join(flags)}: stdout is not the serialised results ({len(results)} result(s)){detail}", replay))
        return out
    top = json.loads(got)
    want_obj = len(results) == 1 and "--json" in flags
    if want_obj != isinstance(top, dict):
        out.append(Violation("cli.json-shape", f"{' '.join(flags)}: {len(results)} result(s) but top-level is {type(top).__name__}", replay))
        return out
    if not b:
        # without --binary exactly the binary fields of every printed result / unit are null (walked on the objects)
        try:
            xs = list(results) if "--json" in flags else [u for r in results for u in r.iterate_units()]
            if "--json" in flags:
                js = [top] if len(results) == 1 else top
            else:
                js = top if len(results) == 1 else [u for us in top for u in us]
            for x, jn in zip(xs, js):
                _judge_nobinary(x, S.serialize_extraction(x, include_binary=True), jn,
                                lambda key, what: out.append(Violation("cli.binary-without-flag", f"{' '.join(flags)}: {type(x).__name__}: {what}", replay)))
                if out:
                    break
        except Exception:
            pass
    return out


def _run_cli(flags, path):
    from sharepoint2text import cli
    buf, err = io.StringIO(), io.StringIO()
    with contextlib.redirect_stdout(buf), contextlib.redirect_stderr(err):
        try:
            rc = cli.main([*flags, path])
        except SystemExit as e:
            rc = e.code
    return rc, buf.getvalue(), err.getvalue()


def check_cli(paths_results, replay_base):
    """CLI --json / --json-unit output is that same JSON (object for one result, array for several)."""
    out = []
    for path, results in paths_results:
        for flags in (["--json"], ["--json", "--binary"], ["--json-unit"], ["--json-unit", "--binary"]):
            rc, got, errtext = _run_cli(flags, path)
            replay = dict(replay_base, cli=flags, path=os.path.basename(path))
            out += _judge_cli_output(flags, rc, got, errtext, results, replay)
    return out


def _parse_timedelta(text):
    """inverse of str(datetime.timedelta)"""
    days = 0
    if "day" in text:
        d, text = text.split(",", 1)
        days = int(d.split()[0])
    h, m, sec = text.strip().split(":")
    return datetime.timedelta(days=days, hours=int(h), minutes=int(m), seconds=float(sec))


def _xlsx_case(rows_enc):
    """rebuild rows from their encoded cells (replay)"""
    def d(c):
        t = c[0]
        if t == "n":
            return None
        if t == "b":
            return c[1]
        if t == "i":
            return int(c[1])
        if t == "f":
            return float(c[1])
        if t == "s":
            return c[1]
        if t == "datetime":
            return datetime.datetime.fromisoformat(c[1])
        if t == "date":
            return datetime.date.fromisoformat(c[1])
        if t == "time":
            return datetime.time.fromisoformat(c[1])
        if t == "timedelta":
            return _parse_timedelta(c[1])
        return None
    return [[d(c) for c in row] for row in rows_enc]


def _run_desc(desc):
    """results for a replay descriptor of an extractor case"""
    from sharepoint2text.parsing import router
    from sharepoint2text.parsing.extractors.ms_modern import xlsx_extractor
    if "fixture" in desc:
        with open(os.path.join(corpus.RES, desc["fixture"]), "rb") as fh:
            data = fh.read()
        r = corpus.run_extractor(router.get_extractor(desc["fixture"]), data, path=desc["fixture"], limit_s=60)
        return r[1] if r[0] == "ok" else []
    if "xlsx_rows" in desc:
        r = corpus.run_extractor(xlsx_extractor.read_xlsx, xlsx_bytes(_xlsx_case(desc["xlsx_rows"])), path="gen.xlsx", limit_s=30)
        return r[1] if r[0] == "ok" else []
    if "input" in desc:
        return _input_results(desc["input"])
    return []


def _xls_stub_sheet(header, row):
    """XlsSheet as `xls_extractor._read_content` builds it for a sheet with this header row and one data row
    (xlrd replaced by a stub workbook: building BIFF files is not the point here)."""
    import xlrd
    from sharepoint2text.parsing.extractors.ms_legacy import xls_extractor as X

    class Sheet:
        name = "S"
        nrows, ncols = 2, len(header)

        def cell(self, r, c):
            v = (header, row)[r][c]
            if isinstance(v, str):
                return xlrd.sheet.Cell(xlrd.XL_CELL_TEXT, v)
            return xlrd.sheet.Cell(xlrd.XL_CELL_NUMBER, float(v))

    class Book:
        datemode = 0

        def sheets(self):
            return [Sheet()]

    orig = X.xlrd.open_workbook
    X.xlrd.open_workbook = lambda **kw: Book()
    try:
        return X._read_content(io.BytesIO(b""))
    finally:
        X.xlrd.open_workbook = orig


def _oracle_fixed_witnesses():
    """inputs that failed before the two fixes (document-reachable): must hold now"""
    from sharepoint2text.parsing.extractors.data_types import XlsContent
    from sharepoint2text.parsing.extractors.ms_modern import xlsx_extractor
    out = []
    for header, row in ((["_bytes", "b"], ["aGk=", 2]), (["_type", "name"], ["XlsSheet", "evil"]), (["_bytesio"], ["!"])):
        sheets = _xls_stub_sheet(header, row)
        x = XlsContent(sheets=sheets)
        rep = {"xls_header": header, "xls_row": row}
        for v in check_value(x, rep):
            v.key = "serial.marker-key-in-typed-dict" if v.key.startswith("serial.roundtrip") or v.key == "serial.from_json-raises" else v.key
            out.append(v)
    rows = [["h", "d"], [1, datetime.timedelta(hours=30)], ["x", datetime.datetime(2020, 1, 2, 3, 4, 5)]]
    r = corpus.run_extractor(xlsx_extractor.read_xlsx, xlsx_bytes(rows), path="gen.xlsx", limit_s=30)
    rep = {"xlsx_rows": [[enc_cell(c) for c in row] for row in rows]}
    if r[0] == "ok":
        for x in r[1]:
            out += check_value(x, rep)
            for u in x.iterate_units():
                out += check_value(u, dict(rep, unit=True), judge_roundtrip=True)
    return out


def search(ctx, broken):
    out = []

    def add(vs):
        for v in vs:
            if not any(o.key == v.key for o in out):
                out.append(v)

    # 1. the disagreeing cases themselves
    for b in broken:
        c = b.case or {}
        try:
            if c.get("desc"):
                for r in _run_desc(c["desc"]):
                    add(check_value(r, c["desc"]))
                    try:
                        for u in r.iterate_units():
                            add(check_value(u, dict(c["desc"], unit=True)))
                    except Exception:
                        pass
            elif c.get("source") == "cli-main":
                add(check_cli_inputs(ctx, [c["input"]]))
            elif c.get("value"):
                x = dec(c["value"])
                if c.get("source") in ("strict", "strict-probe", "strict+marker-dicts", "codec") and dataclasses.is_dataclass(x):
                    add(check_value(x, {"value": c["value"]}))
            elif c.get("doc") is not None and isinstance(c["doc"], dict):
                pass  # a malformed document is outside the property's quantifier; the typed stream below decides
        except Exception as e:  # noqa
            ctx.notes.append(f"search: could not rebuild case {str(c)[:120]}: {e!r}")
    # 2. inputs that the fixes made hold
    add(_oracle_fixed_witnesses())
    # 3. the typed stream, extractor results, generated workbooks, CLI
    rng = ctx.rng
    for x, vs in probe_violations(ctx, normaliser_probes(ctx, rng)):      # constructor / deserialiser normaliser probes
        add(vs)
    for x in instances(ctx, rng, ctx.n(6, 30), strict=True):
        add(check_value(x, {"value": enc(x)}))
        if _stream_leaves(x):      # the same with equal payloads in several streams (the same file attached twice)
            y = with_equal_payloads(x, rng)
            if y is not None:
                add(check_value(y, {"value": enc(y)}))
    # payloads of every size class: in instances, delivered by the extractors, printed by the CLI
    cc = codec_cases(ctx, rng, instances(ctx, rng, 2, strict=True))
    for tag, desc, xb, _, _ in cc:
        add(check_value(xb, desc if desc is not None else {"value": enc(xb)}))
        if tag == "input":
            try:
                for u in xb.iterate_units():
                    add(check_value(u, dict(desc, unit=True)))
            except Exception:
                pass
    add(check_cli_inputs(ctx, [desc["input"] for tag, desc, *_ in cc if tag == "input"]))
    del cc
    for spec in gen_input_specs(rng, ctx.n(20, 100)):      # results of the extractors on generated inputs
        for i, r in enumerate(_input_results(spec)):
            add(check_value(r, {"input": spec, "index": i}))
    # in the search EVERY fixture is judged, in both tiers (which fixtures carry a field state that only real files produce
    # — a None next to a non-None default, say — must not depend on a size cut or on the seed)
    res = extractor_results(ctx, max_size=5_000_000, limit=400)
    for desc, r in res:
        add(check_value(r, desc))
        try:
            for u in r.iterate_units():
                add(check_value(u, dict(desc, unit=True)))
        except Exception:
            pass
    from sharepoint2text.parsing.extractors.ms_modern import xlsx_extractor
    for _ in range(ctx.n(10, 100)):
        rows = workbook_rows(rng)
        r = corpus.run_extractor(xlsx_extractor.read_xlsx, xlsx_bytes(rows), path="gen.xlsx", limit_s=20)
        if r[0] == "ok":
            desc = {"xlsx_rows": [[enc_cell(c) for c in row] for row in rows]}
            for x in r[1]:
                add(check_value(x, desc))
                for u in x.iterate_units():
                    add(check_value(u, dict(desc, unit=True)))
    add(_cli_oracle(ctx))
    # 4. process histories: the broken ones first, then a fresh stream
    hs = [b.case["history"] for b in broken if isinstance(b.case, dict) and b.case.get("history")]
    if hs:
        add(history_violations(hs, run_histories(hs)))
    pool = instances(ctx, rng, ctx.n(2, 6), strict=True)
    hgen = gen_histories(ctx, rng, pool, res[:40], per_class=ctx.n(2, 6), extra=ctx.n(60, 400), n_fixture=ctx.n(24, 100),
                         repeats=ctx.n(24, 100), pairs=ctx.n(1000, 1000), n_cli=ctx.n(8, 20),
                         n_consume=ctx.n(96, 400), n_cli_gen=ctx.n(20, 60))
    hl = [h for h, _, _ in hgen]
    add(history_violations(hl, run_histories(hl)))
    return out


def _cli_oracle(ctx):
    import sharepoint2text
    out = []
    picks = []
    fx = corpus.fixtures(max_size=300_000)
    by_ext = {}
    for rel, data in fx:
        by_ext.setdefault(os.path.splitext(rel)[1].lower(), (rel, data))
    for ext in (".txt", ".eml", ".zip", ".html", ".docx", ".xls", ".mbox", ".tar", ".csv", ".pptx"):
        if ext in by_ext:
            picks.append(by_ext[ext])
    with tempfile.TemporaryDirectory(prefix="s2t_c05_") as td:
        prs = []
        for rel, data in picks:
            p = os.path.join(td, os.path.basename(rel))
            with open(p, "wb") as fh:
                fh.write(data)
            try:
                prs.append((p, list(sharepoint2text.read_file(p))))
            except Exception:
                continue
        p = os.path.join(td, "dur.xlsx")
        with open(p, "wb") as fh:
            fh.write(xlsx_bytes([["h", "d"], [1, datetime.timedelta(hours=30)]]))
        try:
            prs.append((p, list(sharepoint2text.read_file(p))))
        except Exception:
            pass
        out += check_cli(prs, {"cli_fixture": True})
        ctx.count("cli-oracle/files", len(prs))
        ctx.count("cli-oracle/multi-result-files", sum(1 for _, r in prs if len(r) > 1))
    # generated inputs: several results x binary payloads x equal payloads, every flag combination; concrete replays
    out += check_cli_inputs(ctx, gen_input_specs(ctx.rng, ctx.n(30, 150)))
    return out


def _cli_on_input(spec, flags_list=None):
    """[(flags, rc, stdout, stderr)] of the real CLI on a generated input, and the results of the library on that file"""
    import sharepoint2text
    path = input_path(spec)
    r = corpus.run_extractor(lambda _b, p: sharepoint2text.read_file(p), b"", path=path, limit_s=60)
    if r[0] != "ok":
        return None, []
    runs = [(list(flags),) + _run_cli(list(flags), path) for flags in (flags_list or CLI_FLAGS)]
    return r[1], runs


def check_cli_inputs(ctx, specs):
    out = []
    for spec in specs:
        results, runs = _cli_on_input(spec)
        if results is None:
            ctx.count("cli-oracle/generated-unreadable")
            continue
        ctx.count("cli-oracle/generated/" + ("several" if len(results) > 1 else "one") + "-result/"
                  + ("binary" if any(True for r in results for _ in _binary_positions(r)) else "no-binary"))
        for flags, rc, got, errtext in runs:
            for v in _judge_cli_output(flags, rc, got, errtext, results, {"cli": flags, "input": spec}):
                v.what = f"on generated input {_input_text(spec)}: {v.what}"
                if not any(o.key == v.key for o in out):
                    out.append(v)
    return out


# =============================================================================================== known findings
WITNESSES = [
    ("serial.bytes-marker-in-untyped-dict",
     ["o", "TableData", [["data", ["l", [["l", [["d", [[["s", "_bytes"], ["s", "aGk="]], [["s", "b"], ["i", "2"]]]]]]]]]]]),
    ("serial.type-marker-in-untyped-dict",
     ["o", "TableData", [["data", ["l", [["l", [["d", [[["s", "_type"], ["s", "TableDim"]], [["s", "rows"], ["i", "3"]]]]]]]]]]]),
]


def known_witnesses(ctx):
    out = []
    for key, val in WITNESSES:
        vs = [v for v in check_value(dec(val), {"value": val}) if v.key == key]
        if vs:
            out.append(vs[0])
        else:
            ctx.notes.append(f"known finding {key}: committed witness no longer fails on this tree (fixed?)")
    return out


def replay(ctx, payload):
    rep = payload.get("replay", {})
    vs = []
    if "value" in rep:
        try:
            x = dec(rep["value"])
        except Exception as e:  # noqa
            return False, f"the recorded instance cannot be rebuilt on this tree ({type(e).__name__}: {e})"
        vs = check_value(x, rep)
    elif "history" in rep:
        r = run_histories([rep["history"]], par=1)[0]
        if "crash" in r:
            return False, "the recorded history crashes on this tree: " + r["crash"][:300]
        want = payload.get("key", "").replace("history.", "", 1)
        fs = [f for f in r.get("findings", []) if f["key"] != "judge-crashed"]
        fs.sort(key=lambda f: f["key"] != want)
        return (not fs), "; ".join(f"{f['key']}: {f['what']}" for f in fs[:3]) or \
            f"property holds in a fresh process after the recorded history [{_history_text(rep['history'])}]"
    elif "xls_header" in rep:
        from sharepoint2text.parsing.extractors.data_types import XlsContent
        vs = check_value(XlsContent(sheets=_xls_stub_sheet(rep["xls_header"], rep["xls_row"])), rep)
    elif "cli" in rep and "input" in rep:
        results, runs = _cli_on_input(rep["input"], [rep["cli"]])
        if results is None:
            return False, "the recorded generated input cannot be read on this tree"
        for flags, rc, got, errtext in runs:
            vs += _judge_cli_output(flags, rc, got, errtext, results, rep)
    elif "cli" in rep:
        vs = _cli_oracle(ctx)
    elif "fixture" in rep or "xlsx_rows" in rep or "input" in rep:
        for r in _run_desc(rep):
            vs += check_value(r, rep)
            try:
                for u in r.iterate_units():
                    vs += check_value(u, rep)
            except Exception:
                pass
    else:
        return False, "replay names a broken obligation, not an input: " + payload.get("what", "")
    known = {k for k, _ in WITNESSES}
    vs = [v for v in vs if v.key not in known or payload.get("key") in known]
    return (not vs), "; ".join(f"{v.key}: {v.what}" for v in vs[:3]) or "property holds on the recorded input"
