"""C04 oracle: the PROPERTY STATEMENT checked directly on real results (no Lean model involved).

walk(result, path) -> list of (key, what): every way in which `result` (one yielded ExtractionInterface
object obtained with path argument `path`) — or any unit, image or table reachable from it — fails to
honour the common interface:

  * every accessor of the protocols can be called and does not raise;
  * text accessors return `str` encodable as UTF-8;
  * unit numbers / image numbers are positive `int`s (image unit_number may be None);
  * get_bytes() is a readable binary stream at position 0 whose length equals the reported size
    (size_bytes where the class reports one; calling get_bytes() again after reading gives position 0 again);
  * get_dim() == (len(get_table()), max row length) and is (0, 0) for an empty table;
  * get_metadata() of the result reports filename / file_extension / folder derived from the path argument
    as pathlib defines them (all None when no path was given);
  * SEVERAL images at once (`Walk.collected`): get_bytes() of every distinct image object reachable from the result
    is obtained FIRST and the streams are read afterwards (forwards, backwards, and after one of them was closed):
    every stream is an own object, found at position 0, delivering size_bytes bytes — whatever was done with the
    streams of the OTHER images in between;
  * the metadata objects (result, unit, image): a field declared `str` holds a `str` (an empty-but-present element
    of the file is the empty string, not None);
  * operation SEQUENCES on one result (`Walk.sequences`): after the first walk consumed / half-read / closed the
    streams, the same result is walked again in the opposite order (tables, images, units) and its units a third time;
    every object the accessors hand out THEN honours the interface as well (a unit's image copy built from a result
    stream that was read before still delivers size_bytes bytes from position 0).
"""
from __future__ import annotations

import dataclasses
import io
import os
from pathlib import PurePosixPath

RESULT_ACCESSORS = ("iterate_units", "iterate_images", "iterate_tables", "get_full_text", "get_metadata")
UNIT_ACCESSORS = ("get_text", "get_images", "get_tables", "get_metadata")
IMAGE_ACCESSORS = ("get_bytes", "get_content_type", "get_caption", "get_description", "get_metadata")
TABLE_ACCESSORS = ("get_table", "get_dim")
MAX_ITEMS = 400


def utf8_ok(s) -> bool:
    try:
        s.encode("utf-8")
        return True
    except UnicodeEncodeError:
        return False


def _bad_char(s: str) -> str:
    for i, c in enumerate(s):
        if 0xD800 <= ord(c) <= 0xDFFF:
            return f"U+{ord(c):04X} at {i}"
    return "?"


def expected_path_fields(path):
    """(filename, extension, folder-if-not-on-host) by PurePosixPath — the documented derivation."""
    if path is None:
        return None, None, None
    p = PurePosixPath(path)
    return p.name, p.suffix, str(p.parent)


class Walk:
    def __init__(self, path):
        self.path = path
        self.out = []
        self.n_calls = 0
        self.images = {}      # id(image object) -> (where, image): every distinct image object met during the walk
        self.closed = set()   # id(image object) whose stored stream THIS walk closed (step 3 of `collected`)

    def add(self, key, what):
        if len(self.out) < 50 and not any(k == key for k, _ in self.out):
            self.out.append((key, what))

    def call(self, where, obj, name, *a):
        self.n_calls += 1
        try:
            return True, getattr(obj, name)(*a)
        except Exception as e:  # noqa: BLE001 - the property says: never raises
            self.add(f"raises:{type(obj).__name__}.{name}", f"{where}.{name}() raised {type(e).__name__}: {str(e)[:120]}")
            return False, None

    def text(self, where, cls, name, v):
        if not isinstance(v, str):
            self.add(f"not-str:{cls}.{name}", f"{where}.{name}() returned {type(v).__name__}, not str")
        elif not utf8_ok(v):
            self.add(f"not-utf8:{cls}.{name}", f"{where}.{name}() returned a str that is not encodable as UTF-8 ({_bad_char(v)})")

    # ---- tables
    def table(self, where, t):
        cls = type(t).__name__
        ok, rows = self.call(where, t, "get_table")
        ok2, dim = self.call(where, t, "get_dim")
        if not (ok and ok2):
            return
        if not isinstance(rows, list) or not all(isinstance(r, list) for r in rows):
            self.add(f"table-shape:{cls}", f"{where}.get_table() is not a list of lists")
            return
        for r in rows[:MAX_ITEMS]:
            for cell in r[:MAX_ITEMS]:
                if isinstance(cell, str) and not utf8_ok(cell):
                    self.add(f"not-utf8:{cls}.get_table", f"{where}.get_table() holds a str cell that is not encodable as UTF-8 ({_bad_char(cell)})")
        want = (len(rows), max((len(r) for r in rows), default=0))
        got = (getattr(dim, "rows", None), getattr(dim, "columns", None))
        if got != want:
            self.add(f"dim:{cls}", f"{where}.get_dim() = {got} but get_table() has shape {want}")

    # ---- images
    def image(self, where, im):
        cls = type(im).__name__
        self.images.setdefault(id(im), (where, im))
        for nm in ("get_content_type", "get_caption", "get_description"):
            ok, v = self.call(where, im, nm)
            if ok:
                self.text(where, cls, nm, v)
        ok, md = self.call(where, im, "get_metadata")
        if ok:
            num = getattr(md, "image_number", None)
            if not (isinstance(num, int) and not isinstance(num, bool) and num >= 1):
                self.add(f"image-number:{cls}", f"{where}.get_metadata().image_number = {num!r} (not a positive int)")
            un = getattr(md, "unit_number", None)
            if un is not None and not (isinstance(un, int) and not isinstance(un, bool) and un >= 1):
                self.add(f"image-unit-number:{cls}", f"{where}.get_metadata().unit_number = {un!r} (not a positive int / None)")
            ct = getattr(md, "content_type", "")
            if isinstance(ct, str) and not utf8_ok(ct):
                self.add(f"not-utf8:{cls}.get_metadata.content_type", f"{where} content_type not UTF-8")
            self.declared_str(where, cls, md)
        if id(im) in self.closed:
            # the walk itself closed the stream this image stores (a consumer's `with image.get_bytes() as f:`); the classes
            # that store a stream hand out that very object, so get_bytes() of THIS image raises from then on.  That is the
            # modelled behaviour (the theorems of C04_Streams carry the hypothesis `closed = false` for every stored stream) and is not judged again in the later walks.
            return
        ok, fl = self.call(where, im, "get_bytes")
        if ok:
            try:
                if not (hasattr(fl, "read") and hasattr(fl, "tell") and hasattr(fl, "seek")):
                    self.add(f"bytes-stream:{cls}", f"{where}.get_bytes() returned {type(fl).__name__}, not a binary stream")
                    return
                pos = fl.tell()
                data = fl.read()
                if pos != 0:
                    self.add(f"bytes-pos:{cls}", f"{where}.get_bytes() is positioned at {pos}, not 0")
                if not isinstance(data, bytes):
                    self.add(f"bytes-stream:{cls}", f"{where}.get_bytes().read() returned {type(data).__name__}")
                    return
                if hasattr(im, "size_bytes"):
                    sz = im.size_bytes
                    if sz != len(data) + (pos if isinstance(pos, int) else 0):
                        self.add(f"bytes-size:{cls}", f"{where}: size_bytes = {sz!r} but get_bytes() holds {len(data) + pos} bytes")
                # second call after the stream was consumed: position 0 again, same content
                ok3, fl2 = self.call(where, im, "get_bytes")
                if ok3:
                    pos2 = fl2.tell()
                    d2 = fl2.read()
                    if pos2 != 0 or d2 != data:
                        self.add(f"bytes-pos:{cls}", f"{where}.get_bytes() after a read is positioned at {pos2} ({len(d2)} of {len(data)} bytes left)")
            except Exception as e:  # noqa: BLE001
                self.add(f"raises:{cls}.get_bytes.read", f"{where}.get_bytes() stream raised {type(e).__name__}: {str(e)[:100]}")

    # ---- units
    def unit(self, where, u):
        cls = type(u).__name__
        ok, v = self.call(where, u, "get_text")
        if ok:
            self.text(where, cls, "get_text", v)
        ok, md = self.call(where, u, "get_metadata")
        if ok:
            num = getattr(md, "unit_number", None)
            if not (isinstance(num, int) and not isinstance(num, bool) and num >= 1):
                self.add(f"unit-number:{cls}", f"{where}.get_metadata().unit_number = {num!r} (not a positive int)")
            self.declared_str(where, cls, md)
        ok, ims = self.call(where, u, "get_images")
        if ok:
            if not isinstance(ims, list):
                self.add(f"not-list:{cls}.get_images", f"{where}.get_images() returned {type(ims).__name__}")
            else:
                for k, im in enumerate(ims[:MAX_ITEMS]):
                    self.image(f"{where}.image[{k}]", im)
        ok, tbs = self.call(where, u, "get_tables")
        if ok:
            if not isinstance(tbs, list):
                self.add(f"not-list:{cls}.get_tables", f"{where}.get_tables() returned {type(tbs).__name__}")
            else:
                for k, t in enumerate(tbs[:MAX_ITEMS]):
                    self.table(f"{where}.table[{k}]", t)

    # ---- the result
    def result(self, r, check_path=True):
        cls = type(r).__name__
        where = cls
        ok, v = self.call(where, r, "get_full_text")
        if ok:
            self.text(where, cls, "get_full_text", v)
        ok, md = self.call(where, r, "get_metadata")
        if ok and check_path:
            self.path_fields(where, md)
        if ok and dataclasses.is_dataclass(md):
            for f in dataclasses.fields(md):
                val = getattr(md, f.name, None)
                if isinstance(val, str) and not utf8_ok(val):
                    self.add(f"not-utf8:{cls}.get_metadata.{f.name}", f"{where}.get_metadata().{f.name} is not encodable as UTF-8 ({_bad_char(val)})")
            self.declared_str(where, cls, md)
        for acc, fn in (("iterate_units", self.unit), ("iterate_images", self.image), ("iterate_tables", self.table)):
            ok, it = self.call(where, r, acc)
            if not ok:
                continue
            try:
                k = 0
                for x in it:
                    fn(f"{where}.{acc}[{k}]", x)
                    k += 1
                    if k >= MAX_ITEMS:
                        break
            except Exception as e:  # noqa: BLE001
                self.add(f"raises:{cls}.{acc}", f"{where}.{acc}() raised while iterating: {type(e).__name__}: {str(e)[:120]}")
        self.collected()
        self.sequences(r)
        return self.out

    # ---- operation SEQUENCES on one result
    def sequences(self, r):
        """The statement holds for every object reachable from the result — whenever and in whatever order the consumer
        reaches it.  After the first walk (units, images, tables; all streams read to their end, several half-read or
        closed by `collected`) the SAME result object is walked again in the opposite order (tables, images, units) and
        its units a third time: what an accessor hands out then (units / annotated image copies built on demand from
        the state the result is in NOW) must honour the interface exactly as the first time."""
        cls = type(r).__name__
        plan = (("iterate_tables", self.table, "second walk"), ("iterate_images", self.image, "second walk"),
                ("iterate_units", self.unit, "second walk, after the result's images were read"),
                ("iterate_units", self.unit, "third walk over the units"))
        for acc, fn, how in plan:
            ok, it = self.call(cls, r, acc)
            if not ok:
                continue
            try:
                k = 0
                for x in it:
                    fn(f"{cls}.{acc}[{k}] ({how} of the same result)", x)
                    k += 1
                    if k >= MAX_ITEMS:
                        break
            except Exception as e:  # noqa: BLE001
                self.add(f"raises:{cls}.{acc}", f"{cls}.{acc}() raised while iterating ({how}): {type(e).__name__}: {str(e)[:120]}")
        ok, v = self.call(cls, r, "get_full_text")
        if ok:
            self.text(cls + " (after the walks)", cls, "get_full_text", v)

    # ---- metadata objects: declared `str` fields hold `str`
    def declared_str(self, where, cls, md):
        if not dataclasses.is_dataclass(md) or isinstance(md, type):
            return
        for f in dataclasses.fields(md):
            if f.type in ("str", str):
                val = getattr(md, f.name, "")
                if not isinstance(val, str):
                    self.add(f"not-str:{cls}.get_metadata.{f.name}",
                             f"{where}.get_metadata().{f.name} (declared str) is {val!r} ({type(val).__name__})")

    # ---- several images at once
    def _collect(self, items):
        """get_bytes() of every image, nothing read yet: [(where, image, stream | None)]"""
        got = []
        for where, im in items:
            ok, fl = self.call(where, im, "get_bytes")
            got.append((where, im, fl if ok and hasattr(fl, "read") and hasattr(fl, "tell") else None))
        return got

    def _read_collected(self, got, order, how):
        for k in order:
            where, im, fl = got[k]
            if fl is None:
                continue
            cls = type(im).__name__
            try:
                pos = fl.tell()
                data = fl.read()
            except Exception as e:  # noqa: BLE001
                self.add(f"bytes-collected-raises:{cls}", f"{where}: the stream get_bytes() returned raised {type(e).__name__}: {str(e)[:80]} when read {how}")
                continue
            if pos != 0:
                self.add(f"bytes-collected-pos:{cls}", f"{where}: the stream get_bytes() returned is at position {pos}, not 0, when read {how}")
            if hasattr(im, "size_bytes") and isinstance(data, bytes) and im.size_bytes != len(data):
                self.add(f"bytes-collected-size:{cls}", f"{where}: size_bytes = {im.size_bytes!r} but the stream get_bytes() returned delivers {len(data)} bytes when read {how}")

    def collected(self):
        items = list(self.images.values())[:MAX_ITEMS]
        if len(items) < 2:
            return
        n = len(items)
        # (1) collect all, then read: forwards, and (collected anew) backwards
        got = self._collect(items)
        seen = {}
        for where, im, fl in got:
            if fl is None:
                continue
            if id(fl) in seen and seen[id(fl)][1] is not im:
                self.add(f"bytes-shared:{type(im).__name__}", f"{where} and {seen[id(fl)][0]} (two image objects) return the very same stream object from get_bytes(): "
                                                             "reading or closing one changes the other")
            seen.setdefault(id(fl), (where, im))
        self._read_collected(got, range(n), "after the streams of all images had been collected")
        got = self._collect(items)
        self._read_collected(got, range(n - 1, -1, -1), "after the streams of all images had been collected (read in reverse order)")
        # (2) interleaved: the stream of image k is obtained, half-read, then every other image is used
        for k in (0, n - 1):
            where, im, fl = self._collect([items[k]])[0]
            if fl is None:
                continue
            try:
                fl.read(1)
            except Exception:  # noqa: BLE001
                pass
            others = [items[j] for j in range(n) if j != k]
            self._read_collected(self._collect(others), range(n - 1), f"after one byte of the stream of {where} was read")
        # (3) the consumer closes the stream of ONE image (with-statement): the other images must be unaffected
        where, im, fl = self._collect([items[0]])[0]
        if fl is not None:
            try:
                fl.close()
            except Exception:  # noqa: BLE001
                pass
            self.closed.add(id(im))
            self._read_collected(self._collect(items[1:]), range(n - 1), f"after the stream of {where} was closed")

    def path_fields(self, where, md):
        fn, ext, folder = expected_path_fields(self.path)
        got = (getattr(md, "filename", "<missing>"), getattr(md, "file_extension", "<missing>"))
        if self.path is None:
            allf = (got[0], got[1], getattr(md, "file_path", "<missing>"), getattr(md, "folder_path", "<missing>"))
            if any(x is not None for x in allf):
                self.add("path-none", f"{where}.get_metadata() with path=None reports {allf}")
            return
        if got != (fn, ext):
            self.add("path-name", f"{where}.get_metadata() for path {self.path!r}: (filename, extension) = {got}, pathlib says {(fn, ext)}")
        fp, fo = getattr(md, "file_path", None), getattr(md, "folder_path", None)
        p = PurePosixPath(self.path)
        on_host = _exists(str(p))
        par_on_host = _exists(str(p.parent))
        want_fp = os.path.realpath(str(p)) if on_host else str(p)
        want_fo = os.path.realpath(str(p.parent)) if par_on_host else folder
        if fp != want_fp:
            self.add("path-file", f"{where}.get_metadata().file_path for {self.path!r} = {fp!r}, expected {want_fp!r}")
        if fo != want_fo:
            self.add("path-folder", f"{where}.get_metadata().folder_path for {self.path!r} = {fo!r}, expected {want_fo!r}")


def _exists(s):
    try:
        return os.path.exists(s)
    except (OSError, ValueError):
        return False


def walk(result, path, check_path=True):
    return Walk(path).result(result, check_path=check_path)
