"""C09 — archive processing is confined.

correspondence: S2T.Model.Archive (through the driver) vs. the real
  posixpath / sevenzip._safe_join / archive_extractor._should_skip_file / read_archive (ZIP, TAR*, 7z)
on generated hostile archives; every run of the real code is observed (sys.addaudithook + wrappers of
os.stat / shutil.rmtree) and the observed event list is fed to the Lean-defined acceptor `confined`.
search: the property statement itself, checked on the real code with canary files, two host states,
file-system snapshots and a Python-side confinement check (independent of the Lean model).
The filters ("hidden members, resource forks, nested archives, unsupported types and oversize members never
produce results") are judged by CONTENT on every real run (`content_leaks`), on a filter by-pass family
(`bypass_battery`, `_inject_bypass`); the 7z private directory is snapshotted when it is removed and compared
with the model's `tempFiles`; a failing archive is confirmed in a fresh interpreter, with the earlier archives of
the process as replayed `history` if it only fails after them (`confirm_fresh`).
Entry ATTRIBUTES (7z attribute words incl. the p7zip unix extension and Windows reparse points, ZIP external_attr /
create_system, TAR typeflag and raw mode field) are varied independently of names, kinds and data in all three writers
(`attr_battery`, `_vary_attrs`), on members whose data is a host path, with members named below them and with link chains;
every open / mkdir is judged at the place the kernel takes it to (`_Obs._real`, `_phys`, `_py_confined`).
"""
from __future__ import annotations

import bz2
import gc
import gzip
import hashlib
import io
import json
import lzma
import mimetypes
import os
import shutil
import stat as statmod
import sys
import tarfile
import tempfile
import zipfile

from run import Broken, Violation

sys.path.insert(0, os.path.join(os.path.dirname(os.path.abspath(__file__)), ".."))
from builders import sevenzip_c09 as szb  # noqa: E402

GEN = ["Router", "Archive", "ArchiveAttrs", "PyRouter", "PySevenZip", "PyArchive"]
RULE = ("archives = format (zip | tar, tar.gz, tar.bz2, tar.xz | 7z solid / no-folders / per-file) x 1..7 members drawn from a "
        "hostile name grammar (absolute, ../ chains, backslashes, drive letters, empty, long, unicode, hidden, __MACOSX, "
        "names of existing canary files, duplicate and file/dir-conflicting names) x member kind (regular, dir, symlink, "
        "hardlink, device, fifo, 7z empty-stream / orphan / dir-attribute entries) x type (plain text, unsupported, "
        "nested-archive aliases, zip-based garbage) x size (around a lowered max_memory_size) x consumer (exhaust, close "
        "after k, raise in consumer after k, never started) x corruption (none, truncated, CRC); distinct = distinct "
        "(format, member specs, consumer); non-trivial = at least one member passes the skip rules or touches the "
        "file system; plus path strings over a slash/dot/backslash alphabet for join/normpath/dirname/_safe_join; plus the "
        "filter by-pass family on every run (fixed battery of 240 archives + injected into 30% of the random ones): a member that "
        "must not produce results (hidden, hidden in a sub-directory, __MACOSX, unsupported, nested, oversize) with a payload of "
        "its own x a member of innocent name referring to it (TAR hard link / ./-spelled / chained hard link, symbolic link, "
        "same name twice around the size limit, same basename outside __MACOSX, 7z second spelling of the same path, 7z "
        "empty-file / stream-less entry of the same name, ZIP symlink member) x order x 7z layout; link targets of random TAR "
        "links are drawn from the archive's own members; every real run is judged by content (no filtered payload in any "
        "result) and, for 7z, the private directory is snapshotted when it is removed and compared with the model's tempFiles; "
        "plus the ATTRIBUTE family on every run (fixed battery: every container x every attribute word of its pool x {member of "
        "supported type whose data is the path of a host file; such a member holding the path of a host directory followed by a "
        "member named below it; ordinary member; stream-less / directory / empty entries}; and 40% of the random archives): 7z "
        "attribute words (Windows bits incl. directory / device / reparse point, p7zip unix extension 0x8000 | st_mode << 16 with "
        "symlink / fifo / chr / blk / socket / dir / setuid modes, partially defined vectors), ZIP external_attr + create_system, "
        "TAR typeflags (incl. contiguous, old-style regular) and mode field — drawn independently of names, kinds and data; every "
        "open / mkdir is judged at the place the kernel takes it to (realpath at the moment of the call), not only lexically")
ASSUMPTIONS = [
    "CPython: str.lower, mimetypes.guess_type are parameters of the model (any function in the theorems)",
    "zipfile/tarfile: member list, is_dir/isreg/flag_bits/file_size and the bytes read are parameters of the model; "
    "they perform no file-system access when given a BytesIO (checked by the audit trace of every run, not proved)",
    "tempfile.TemporaryDirectory: __enter__ = mkdtemp under gettempdir(), __exit__ on normal exit, exception and "
    "GeneratorExit = shutil.rmtree (frame semantics of `with` inside a generator; CPython closes a dropped generator "
    "when its reference count reaches zero)",
    "the private directory is empty when created and nobody else writes into it; no symbolic link exists inside it "
    "(the 7z writer code creates none: inventory theorem), so `..` resolves lexically",
    "os.stat cannot be observed by audit hooks: it is observed through a wrapper of os.stat/os.lstat installed by the harness",
    "7z header parsing (bytes -> names, flags, sizes, folders) is C10's subject; the C09 model starts from the parsed "
    "header, produced independently by the harness's own 7z writer",
    "hidden member = basename starts with '.' or name starts with '__MACOSX/' (the mechanism named by the property)",
    "the content oracle classifies a member by the name zipfile / tarfile REPORT for it (tarfile strips the trailing slash of a "
    "pax path, zipfile cuts at NUL) and by its own payload length; only payloads (printable ASCII, >= 12 characters) that occur in no "
    "member that may produce results are judged",
    "7z attribute words: the model is handed the whole word and keeps FILE_ATTRIBUTE_DIRECTORY only (AttrEntry.toRaw); that the "
    "source reads nothing else of it is a syntactic inventory (Gen/ArchiveAttrs.lean) re-decided by the kernel on every run",
    "tarfile.extractfile follows hard and symbolic links to another member's bytes: what it returns for a non-regular member is a "
    "parameter of the model (theorem C09_tar_links_irrelevant: it cannot matter under the source's member-kind guard)",
]
TRUSTED = [
    "model of posixpath.join/normpath/abspath/dirname/basename in S2T/Model/Archive.lean (tied by correspondence on random paths)",
    "harness observer (audit hook event -> FsEvent classification) and harness/builders/sevenzip_c09.py",
]

PLAIN = ["txt", "csv", "md", "json", "tsv"]
ZERO = ["pdf", "docx", "xlsx", "pptx", "odt", "epub", "doc", "xls", "msg", "eml"]   # garbage bytes -> extractor raises -> no result
UNSUP = ["exe", "bin", "dat", "png", "", "tar.bak"]
NESTED_DECL = ["zip", "tar", "tar.gz", "tgz", "tar.bz2", "tbz2", "tar.xz", "txz", "7z"]
NESTED_ALIAS = ["gz", "bz2", "xz", "taz", "tz", "GZ", "Tar.Gz"]

SMALL_MAX = 48      # lowered _config.max_memory_size used by most cases (public configure_archive_extraction API)


# ============================================================================ observation of the real code
class _Obs:
    """Process-wide observer.  The audit hook stays installed (hooks cannot be removed) but only records
    while `active`."""

    installed = False
    active = False
    in_rmtree = 0
    events: list = []
    tmpsnap: list = []     # [path, size, first 4096 bytes (latin-1)] of every regular file found in a directory at rmtree time
    orig_stat = os.stat
    orig_lstat = os.lstat
    orig_rmtree = shutil.rmtree

    W_FLAGS = os.O_WRONLY | os.O_RDWR | os.O_CREAT | os.O_TRUNC | os.O_APPEND

    @classmethod
    def _p(cls, p):
        if isinstance(p, bytes):
            return p.decode("utf-8", "surrogateescape")
        if isinstance(p, int):
            return None
        try:
            return os.fspath(p)
        except TypeError:
            return None   # not a path at all (the call itself raises TypeError)

    @classmethod
    def _real(cls, p):
        """where the kernel will take this path at the moment of the call (links inside the private directory are
        followed by open / mkdir whatever the lexical form of the path says); None if it cannot be resolved"""
        was = cls.active
        cls.active = False
        try:
            return os.path.realpath(os.path.abspath(p))
        except Exception:
            return None
        finally:
            cls.active = was

    @classmethod
    def hook(cls, event, args):
        if not cls.active or cls.in_rmtree:
            return
        try:
            ev = None
            if event == "open":
                p = cls._p(args[0])
                if p is None:
                    return
                flags = args[2] if len(args) > 2 and isinstance(args[2], int) else 0
                mode = args[1] if len(args) > 1 else None
                w = bool(flags & cls.W_FLAGS) or (isinstance(mode, str) and any(c in mode for c in "wax+"))
                ev = ["openW" if w else "openR", p, cls._real(p)]
            elif event == "os.mkdir":
                p = cls._p(args[0])
                cls.active = False
                try:
                    # mkdir on an existing path (EEXIST) or below something that is not an existing directory
                    # (ENOTDIR / ENOENT) fails without any effect
                    ex = os.path.lexists(p) or not os.path.isdir(os.path.dirname(os.path.abspath(p)))
                finally:
                    cls.active = True
                ev = ["mkdirExisting" if ex else "mkdir", p, cls._real(p)]
            elif event == "tempfile.mkdtemp":
                ev = ["mkdtemp", cls._p(args[0])]
            elif event == "os.remove":
                ev = ["remove", cls._p(args[0])]
            elif event == "os.rmdir":
                ev = ["rmdir", cls._p(args[0])]
            elif event in ("os.listdir", "os.scandir"):
                ev = ["listdir", cls._p(args[0]) if args and args[0] is not None else "."]
            elif event in ("os.rename", "os.symlink", "os.link", "os.chmod", "os.chown", "os.truncate", "os.utime",
                           "os.mkfifo", "os.mknod", "tempfile.mkstemp", "subprocess.Popen", "os.system", "os.exec",
                           "os.posix_spawn", "os.fork", "os.forkpty", "os.chdir", "os.chroot", "os.putenv",
                           "socket.connect", "socket.bind", "ctypes.dlopen", "os.setxattr", "os.removexattr", "glob.glob",
                           "pathlib.Path.glob", "os.walk", "os.fwalk") or event.startswith("shutil."):
                if event == "shutil.rmtree":
                    return  # reported by the wrapper below with its outcome
                ev = [event, cls._p(args[0]) if args else ""]
            if ev is not None:
                cls.events.append(ev)
        except Exception as e:  # never let the hook break the code under observation
            cls.events.append(["hook-error", repr(e)])

    @classmethod
    def _stat(cls, path, *a, **k):
        if cls.active and not cls.in_rmtree:
            p = cls._p(path)
            if p is not None:
                cls.events.append(["stat", p])
        return cls.orig_stat(path, *a, **k)

    @classmethod
    def _lstat(cls, path, *a, **k):
        if cls.active and not cls.in_rmtree:
            p = cls._p(path)
            if p is not None:
                cls.events.append(["stat", p])
        return cls.orig_lstat(path, *a, **k)

    @classmethod
    def _rmtree(cls, path, *a, **k):
        if not cls.active:
            return cls.orig_rmtree(path, *a, **k)
        cls.in_rmtree += 1
        try:
            if cls.in_rmtree == 1:
                cls._snapshot(path)
            return cls.orig_rmtree(path, *a, **k)
        finally:
            cls.in_rmtree -= 1
            gone = not os.path.lexists(path) if cls.in_rmtree == 0 else True
            cls.events.append(["rmtree", cls._p(path), bool(gone)])

    @classmethod
    def _snapshot(cls, path):
        """what the directory holds at the moment it is removed (the recording is suspended: in_rmtree > 0)"""
        try:
            n = 0
            for dp, dns, fns in os.walk(path):
                dns.sort()
                for dn in dns:
                    q = os.path.join(dp, dn)
                    if not statmod.S_ISDIR(cls.orig_lstat(q).st_mode):
                        cls.tmpsnap.append([q, -1, "<not a regular file>"])    # a link to a directory
                for fn in sorted(fns):
                    q = os.path.join(dp, fn)
                    st = cls.orig_lstat(q)
                    if not statmod.S_ISREG(st.st_mode):
                        cls.tmpsnap.append([q, -1, "<not a regular file>"])
                        continue
                    with open(q, "rb") as fh:
                        head = fh.read(4096)
                    cls.tmpsnap.append([q, st.st_size, head.decode("latin-1")])
                    n += 1
                    if n >= 2000:
                        return
        except Exception as e:
            cls.tmpsnap.append(["<snapshot failed>", -1, repr(e)])

    @classmethod
    def install(cls):
        if not cls.installed:
            sys.addaudithook(cls.hook)
            cls.installed = True

    def __enter__(self):
        c = type(self)
        c.install()
        c.events = []
        c.tmpsnap = []
        os.stat, os.lstat, shutil.rmtree = c._stat, c._lstat, c._rmtree
        c.active = True
        return self

    def __exit__(self, *a):
        c = type(self)
        c.active = False
        os.stat, os.lstat, shutil.rmtree = c.orig_stat, c.orig_lstat, c.orig_rmtree
        self.events = c.events
        self.tmpsnap = c.tmpsnap
        return False


def _ro_prefixes():
    import sharepoint2text
    import sysconfig
    pk = os.path.dirname(os.path.dirname(os.path.abspath(sharepoint2text.__file__)))
    ps = {os.path.realpath(sys.prefix), os.path.realpath(sys.base_prefix), os.path.realpath(sys.exec_prefix), sys.prefix,
          sys.base_prefix, os.path.realpath(pk), pk, sysconfig.get_paths()["stdlib"], os.path.realpath(sysconfig.get_paths()["stdlib"])}
    return sorted(p for p in ps if p and p != "/")


# ============================================================================ sandbox with canary files
class Sandbox:
    """SB/ (canaries) ; SB/tmp (tempfile root for the library) ; SB/cwd (working directory, with canaries)"""

    CANARY_RELS = ["secret.txt", "x.txt", "cwd/x.txt", "cwd/secret.txt", "tmp/../evil.txt", "deep/a/b.txt", "notes.md"]

    def __init__(self, token: str):
        self.root = os.path.realpath(tempfile.mkdtemp(prefix="c09sb_"))
        self.tmp = os.path.join(self.root, "tmp")
        self.cwd = os.path.join(self.root, "cwd")
        for d in (self.tmp, self.cwd, os.path.join(self.root, "deep", "a")):
            os.makedirs(d, exist_ok=True)
        self.token = None
        self.set_token(token)
        self._saved = None

    def set_token(self, token: str):
        self.token = token
        for rel in self.CANARY_RELS:
            p = os.path.normpath(os.path.join(self.root, rel))
            with open(p, "w") as fh:
                fh.write(f"{token} canary at {rel}\n")

    def snapshot(self):
        out = {}
        for dp, dns, fns in os.walk(self.root):
            for n in dns + fns:
                p = os.path.join(dp, n)
                st = os.lstat(p)
                if statmod.S_ISREG(st.st_mode):
                    with open(p, "rb") as fh:
                        out[os.path.relpath(p, self.root)] = ("f", hashlib.sha1(fh.read()).hexdigest())
                else:
                    out[os.path.relpath(p, self.root)] = ("l" if statmod.S_ISLNK(st.st_mode) else "d", "")
        return out

    def __enter__(self):
        self._saved = (os.getcwd(), tempfile.tempdir, tempfile._name_sequence)
        os.chdir(self.cwd)
        tempfile.tempdir = self.tmp
        # predictable names (tmpc09n0, tmpc09n1, …): lets a member name aim at a *sibling* of the private directory
        tempfile._name_sequence = (f"c09n{i}" for i in range(10 ** 6))
        return self

    def __exit__(self, *a):
        os.chdir(self._saved[0])
        tempfile.tempdir = self._saved[1]
        tempfile._name_sequence = self._saved[2]
        return False

    def destroy(self):
        shutil.rmtree(self.root, ignore_errors=True)


def _subst(name: str, sb: Sandbox) -> str:
    return name.replace("{SB}", sb.root)


# ============================================================================ archive specs and builders
# spec = {"fmt": "zip"|"tar"|"tar.gz"|"tar.bz2"|"tar.xz"|"7z", "layout": …, "corrupt": None|…,
#         "members": [{"name": str, "kind": str, "data": str (latin-1), "link": str}], "consumer": ["exhaust"]|["close",k]|["raise",k],
#         "max_memory": int|None}
def _b(m, sb=None) -> bytes:
    """the member's data; `"subst": True` = the data is a PATH in which {SB} stands for the sandbox root (a link target
    stored as the entry's content: 7z / ZIP keep the target of a symbolic link there)"""
    d = m.get("data", "")
    if m.get("subst"):
        return (_subst(d, sb) if sb is not None else d).encode("utf-8", "surrogateescape")
    return d.encode("latin-1")


# ---------------------------------------------------------------------------- entry ATTRIBUTES
# varied independently of the entry's name, kind and data, in every container the harness writes:
#   7z  : the 32-bit attribute word of PROP_WIN_ATTRIBUTES — Windows bits (read-only, hidden, system, directory, archive,
#         device, temporary, reparse point, offline …) and the p7zip unix extension (0x8000 | st_mode << 16: symbolic link,
#         fifo, character / block device, socket, directory, setuid / setgid / sticky), also partially defined vectors
#   ZIP : ZipInfo.external_attr (st_mode << 16 | DOS bits) and create_system (0 = DOS, 3 = unix, 19 = OS X)
#   TAR : typeflag (regular, old-style regular, contiguous, links, devices, fifo, directory) and the mode field
def _ux(mode):
    return 0x8000 | (mode << 16)


ATTR_7Z = [_ux(0o120777), _ux(0o120777) | 0x20, _ux(0o120644) | 0x400, _ux(0o010644), _ux(0o020666), _ux(0o060660), _ux(0o140755),
           _ux(0o100644) | 0x20, _ux(0o104755) | 0x20, _ux(0o103777), _ux(0o040755), _ux(0o040755) | 0x10, 0o120777 << 16,
           0x400 | 0x20, 0x400 | 0x10, 0x40, 0x7, 0x100 | 0x1000 | 0x20, 0xFFFFFFFF, 0, 0x8000, "undef"]
ATTR_ZIP = [(0o120777 << 16, 3), (0o120777 << 16, 0), ((0o120777 << 16) | 0x20, 19), (0o010644 << 16, 3), (0o020666 << 16, 3),
            (0o060660 << 16, 3), (0o140755 << 16, 3), (0o104755 << 16, 3), ((0o040755 << 16) | 0x10, 3), (0x10, 0), (0x400, 0),
            (0x400 | 0x10, 0), (0x40, 0), (0xFFFFFFFF, 3), (0, 0), (0o100644 << 16, 3)]
ATTR_TAR = [0o4755, 0o2755, 0o1777, 0o7777, 0o120777, 0o020666, 0o060660, 0o010644, 0o040755, 0o644, 0]
# link targets / path-valued data: host files and directories, escaping relative paths, members of the archive itself
PATH_DATA = ["{SB}/secret.txt", "{SB}/x.txt", "{SB}/deep", "{SB}/cwd", "{SB}/deep/a/b.txt", "../../secret.txt", "../../deep",
             "../..", "/etc/hostname", ".", "{SB}/notes.md"]
LINK_7Z, LINK_ZIP = _ux(0o120777), (0o120777 << 16, 3)


class _RawModeTarInfo(tarfile.TarInfo):
    """tarfile writes `mode & 0o7777`; a hostile (or old) archiver puts the whole st_mode — file-type bits included — into
    the mode field.  The field of the member's own header block is rewritten and the checksum recomputed."""
    raw_mode = None

    def tobuf(self, *a, **k):
        buf = super().tobuf(*a, **k)
        if self.raw_mode is None or len(buf) < 512:
            return buf
        hdr = bytearray(buf[-512:])
        hdr[100:108] = b"%07o\0" % self.raw_mode
        hdr[148:156] = b" " * 8
        hdr[148:156] = b"%06o\0 " % sum(hdr)
        return buf[:-512] + bytes(hdr)


def _zip_attr(zi, m):
    a = m.get("attr")
    if isinstance(a, (list, tuple)) and len(a) == 2:
        zi.external_attr, zi.create_system = int(a[0]) & 0xFFFFFFFF, int(a[1]) & 0xFF


def build_archive(spec, sb: Sandbox) -> bytes:
    fmt = spec["fmt"]
    ms = spec["members"]
    if fmt == "zip":
        bio = io.BytesIO()
        with zipfile.ZipFile(bio, "w", compression=zipfile.ZIP_DEFLATED if spec.get("deflate") else zipfile.ZIP_STORED) as zf:
            for m in ms:
                nm = _subst(m["name"], sb)
                zi = zipfile.ZipInfo(nm)
                zi.filename = nm  # keep the hostile name exactly (ZipInfo() already cut at NUL)
                if m["kind"] == "dir":
                    if not zi.filename.endswith("/"):
                        zi.filename += "/"
                    zi.external_attr = (0o40755 << 16) | 0x10
                    zf.writestr(zi, b"")
                elif m["kind"] == "symlink":
                    zi.external_attr = (statmod.S_IFLNK | 0o777) << 16
                    _zip_attr(zi, m)
                    zf.writestr(zi, _subst(m.get("link", ""), sb).encode("utf-8", "surrogateescape"))
                else:
                    zi.external_attr = 0o100644 << 16
                    _zip_attr(zi, m)
                    zf.writestr(zi, _b(m, sb))
        blob = bio.getvalue()
    elif fmt.startswith("tar"):
        bio = io.BytesIO()
        mode = {"tar": "w:", "tar.gz": "w:gz", "tar.bz2": "w:bz2", "tar.xz": "w:xz"}[fmt]
        with tarfile.open(fileobj=bio, mode=mode, format=tarfile.PAX_FORMAT) as tf:
            for m in ms:
                ti = _RawModeTarInfo(_subst(m["name"], sb))
                k = m["kind"]
                if isinstance(m.get("attr"), int):
                    ti.mode = m["attr"] & 0o7777
                    ti.raw_mode = m["attr"] & 0o7777777
                if k == "file":
                    d = _b(m, sb)
                    ti.size = len(d)
                    # "ttype": the other typeflags tarfile counts as regular (contiguous file, old-style '\0')
                    ti.type = {"cont": tarfile.CONTTYPE, "areg": tarfile.AREGTYPE}.get(m.get("ttype"), tarfile.REGTYPE)
                    tf.addfile(ti, io.BytesIO(d))
                    continue
                ti.type = {"dir": tarfile.DIRTYPE, "symlink": tarfile.SYMTYPE, "hardlink": tarfile.LNKTYPE, "chr": tarfile.CHRTYPE,
                           "blk": tarfile.BLKTYPE, "fifo": tarfile.FIFOTYPE}[k]
                ti.linkname = _subst(m.get("link", ""), sb)
                if k in ("chr", "blk"):
                    ti.devmajor, ti.devminor = 1, 3
                tf.addfile(ti)
        blob = bio.getvalue()
    elif fmt == "7z":
        ents = [{"name": _subst(m["name"], sb), "kind": m["kind"], "data": _b(m, sb), "attr": m.get("attr")} for m in ms]
        c = spec.get("corrupt")
        return szb.build(ents, layout=spec.get("layout", "solid"), corrupt=c if c in ("header-crc", "truncate", "short-stream") else None)
    else:
        raise ValueError(fmt)
    c = spec.get("corrupt")
    if c == "truncate":
        blob = blob[: max(8, len(blob) * 2 // 3)]
    elif c == "flip" and len(blob) > 40:
        i = len(blob) // 2
        blob = blob[:i] + bytes([blob[i] ^ 0x5A]) + blob[i + 1:]
    return blob


# ---------------------------------------------------------------------------- hostile name grammar
def _ext_pool(rng):
    r = rng.random()
    if r < 0.55:
        return "plain", rng.choice(PLAIN)
    if r < 0.65:
        return "zero", rng.choice(ZERO)
    if r < 0.75:
        return "unsup", rng.choice(UNSUP)
    if r < 0.85:
        return "nested", rng.choice(NESTED_DECL)
    return "alias", rng.choice(NESTED_ALIAS)


def gen_name(rng, fmt):
    cls, ext = _ext_pool(rng)
    stem = rng.choice(["a", "b", "report", "x", "secret", "notes", "my file", "ünï", "a.b", "Ω", "evil", "tmp", "q", "😀", "BZnotes", "PKx"])
    base = stem + ("." + ext if ext else "")
    if rng.random() < 0.15:
        base = "".join(c.upper() if rng.random() < 0.5 else c for c in base)
    shape = rng.choice(["plain", "plain", "sub", "sub2", "abs-sb", "abs-sb-exist", "dotdot1", "dotdot2", "dotdot-exist", "mid-dotdot", "mid-escape", "sibling",
                        "backslash", "lead-backslash", "drive", "hidden", "hidden-dir", "macosx", "macosx-inner", "long", "dot-seg", "dbl-slash",
                        "trail-slash", "empty", "dot", "magic-first", "dotdot-only", "cwd-exist", "abs-etc", "tilde", "space-dots",
                        "bs-dotdot", "bs-dotdot-exist", "bs-mid-escape", "bs-mixed"])
    if shape == "plain":
        n = base
    elif shape == "sub":
        n = "d/" + base
    elif shape == "sub2":
        n = "d/e/" + base
    elif shape == "abs-sb":
        n = "{SB}/" + base
    elif shape == "abs-sb-exist":
        n = "{SB}/" + rng.choice(["secret.txt", "x.txt", "deep/a/b.txt", "notes.md"])
    elif shape == "dotdot1":
        n = "../" + base
    elif shape == "dotdot2":
        n = "../../" + base
    elif shape == "dotdot-exist":
        n = rng.choice(["../../secret.txt", "../../x.txt", "../../deep/a/b.txt", "../evil.txt", "../../cwd/x.txt", "../../notes.md"])
    elif shape == "mid-dotdot":
        n = "d/../" + base
    elif shape == "mid-escape":
        n = "d/../../../" + rng.choice(["secret.txt", base])
    elif shape == "sibling":
        n = rng.choice(["../tmpc09n0x/", "../tmpc09n0.d/", "d/../../tmpc09n0_/"]) + base
    elif shape == "backslash":
        n = "d\\" + base
    elif shape == "lead-backslash":
        n = "\\" + base
    elif shape == "bs-dotdot":
        n = rng.choice(["..\\", "..\\..\\"]) + base
    elif shape == "bs-dotdot-exist":
        n = rng.choice(["..\\..\\secret.txt", "..\\..\\x.txt", "..\\..\\deep\\a\\b.txt", "..\\evil.txt", "..\\..\\cwd\\x.txt"])
    elif shape == "bs-mid-escape":
        n = "d\\..\\..\\..\\" + rng.choice(["secret.txt", base])
    elif shape == "bs-mixed":
        n = rng.choice(["d/..\\..\\..\\secret.txt", "d\\../..\\../secret.txt", "..\\../" + base])
    elif shape == "drive":
        n = rng.choice(["C:\\", "C:/", "c:"]) + base
    elif shape == "hidden":
        n = rng.choice(["", "d/"]) + "." + base
    elif shape == "hidden-dir":
        n = ".git/" + base
    elif shape == "macosx":
        n = "__MACOSX/" + rng.choice(["", "._"]) + base
    elif shape == "macosx-inner":
        n = "d/__MACOSX/" + base
    elif shape == "long":
        n = "L" * rng.choice([100, 240]) + "/" + base
    elif shape == "dot-seg":
        n = "./d/./" + base
    elif shape == "dbl-slash":
        n = "d//" + base
    elif shape == "trail-slash":
        n = base + "/"
    elif shape == "magic-first":
        # a plain TAR starts with the name of its first member: names that begin like another format's signature
        n = rng.choice(["BZ", "BZh9", "PK", "7z"]) + base
    elif shape == "empty":
        n = ""
    elif shape == "dot":
        n = "."
    elif shape == "dotdot-only":
        n = ".."
    elif shape == "cwd-exist":
        n = rng.choice(["x.txt", "secret.txt"])
    elif shape == "abs-etc":
        n = rng.choice(["/etc/hostname", "/etc/passwd", "/proc/self/environ", "/dev/null"]) + rng.choice(["", ".txt"])
    elif shape == "tilde":
        n = "~/" + base
    else:
        n = " ./.. /" + base
    return n, cls, shape


def gen_spec(rng, fmt=None, small=True):
    fmt = fmt or rng.choice(["zip", "zip", "tar", "tar.gz", "tar.bz2", "tar.xz", "7z", "7z", "7z"])
    n = rng.choice([1, 1, 2, 3, 3, 4, 5, 7])
    members = []
    prev = []
    for i in range(n):
        name, cls, shape = gen_name(rng, fmt)
        if prev and rng.random() < 0.12:   # duplicates and file/dir conflicts
            p = rng.choice(prev)
            name = rng.choice([p, p + "/inner.txt", p.rsplit("/", 1)[0] if "/" in p else p])
        prev.append(name)
        if fmt == "zip":
            kind = rng.choice(["file"] * 8 + ["dir", "symlink"])
        elif fmt == "7z":
            kind = rng.choice(["file"] * 7 + ["dir", "empty", "orphan", "orphan", "attrdir"])
        else:
            kind = rng.choice(["file"] * 7 + ["dir", "symlink", "hardlink", "chr", "blk", "fifo"])
        size_kind = rng.choice(["s", "s", "s", "at", "over", "one"])
        ln = {"s": rng.randint(8, 30), "at": SMALL_MAX, "over": SMALL_MAX + 1, "one": 1}[size_kind]
        if cls in ("nested", "alias") and rng.random() < 0.7:
            data = _inner_tar_gz(i)
        else:
            body = f"member-{i}-payload-{rng.randint(0, 10**6)};"
            data = (body * (ln // len(body) + 1))[:ln]
        m = {"name": name, "kind": kind, "data": data}
        if kind in ("symlink", "hardlink"):
            m["link"] = rng.choice(["{SB}/secret.txt", "../../secret.txt", "/etc/passwd", "a.txt", prev[0]])
            if len(prev) > 1 and rng.random() < 0.5:
                # tarfile.extractfile follows links to OTHER members (hard links: earlier ones): aim at one, in several spellings
                t = rng.choice(prev[:-1])
                m["link"] = rng.choice([t, t, "./" + t, "x/../" + t])
        if fmt == "7z" and kind in ("dir", "empty", "orphan", "attrdir"):
            m["data"] = ""
        members.append(m)
    if rng.random() < 0.3:
        members = _inject_bypass(rng, fmt, members, SMALL_MAX if small else 10 * 1024 * 1024)
    if rng.random() < 0.4:
        members = _vary_attrs(rng, fmt, members)
    if fmt == "7z":
        # streams are matched by position: keep stream-bearing entries before the orphans (see the builder's docstring)
        members.sort(key=lambda m: 1 if m["kind"] == "orphan" else 0)
    spec = {"fmt": fmt, "members": members, "consumer": gen_consumer(rng), "max_memory": SMALL_MAX if small else None}
    if fmt == "7z":
        spec["layout"] = rng.choice(["solid", "solid", "solid", "perfile", "perfile", "nofolders"])
    r = rng.random()
    if r < 0.06:
        spec["corrupt"] = "truncate"
    elif r < 0.10:
        spec["corrupt"] = "header-crc" if fmt == "7z" else "flip"
    return spec


# ---------------------------------------------------------------------------- attribute family
def _attr_pool(fmt):
    base = fmt.split(".")[0]
    return ATTR_7Z if base == "7z" else [list(a) for a in ATTR_ZIP] if base == "zip" else ATTR_TAR


def _vary_attrs(rng, fmt, members):
    """give the members of a random archive attribute words drawn independently of their names, kinds and data; let some
    data-bearing members hold a PATH as data (what a link entry stores) and put a member BELOW such an entry"""
    pool = _attr_pool(fmt)
    link = LINK_7Z if fmt == "7z" else list(LINK_ZIP) if fmt == "zip" else 0o120777
    out = []
    for m in members:
        m = dict(m)
        if rng.random() < 0.75:
            m["attr"] = rng.choice(pool)
        if fmt.startswith("tar") and m["kind"] == "file" and rng.random() < 0.3:
            m["ttype"] = rng.choice(["cont", "areg"])
        out.append(m)
        if m["kind"] == "file" and "NESTED" not in m.get("data", "") and m["data"].isascii() and rng.random() < 0.35:
            m["data"], m["subst"] = rng.choice(PATH_DATA + [members[0]["name"]]), True
            if rng.random() < 0.6:
                m["attr"] = link
            if rng.random() < 0.5 and m["name"] and not m["name"].endswith("/"):
                out.append({"name": m["name"] + "/" + rng.choice(["drop.txt", "x.txt", "d/drop.md"]), "kind": "file",
                            "data": _payload(f"below{rng.randint(0, 10**6)}", 22)})
    return out


def _attr_class(fmt, a):
    if a == "undef":
        return "undefined"
    if fmt.startswith("tar"):
        return "mode-with-type-bits" if a & 0o170000 else ("setuid/setgid/sticky" if a & 0o7000 else "plain-mode")
    mode = (a[0] >> 16) if isinstance(a, (list, tuple)) else ((a >> 16) if a & 0x8000 else 0)
    win = (a[0] if isinstance(a, (list, tuple)) else a) & 0xFFFF
    t = {0o120000: "symlink", 0o010000: "fifo", 0o020000: "chr", 0o060000: "blk", 0o140000: "socket", 0o040000: "unix-dir",
         0o100000: "unix-reg"}.get(mode & 0o170000, "no-unix-mode" if not mode else "other-mode")
    if mode & 0o7000:
        t += "+suid/sgid/sticky"
    if win & 0x400:
        t += "+reparse"
    if win & 0x40:
        t += "+device"
    if win & 0x10:
        t += "+dirbit"
    return t


def attr_battery(lim=None):
    """the fixed attribute battery, deterministic: every container x every attribute word of its pool on (1) a member of
    supported type whose data is the path of a host FILE (a link entry as p7zip / zip -y store it), (2) such a member
    whose data is the path of a host DIRECTORY followed by a member named below it, (3) an ordinary member with a
    payload of its own, (4) entries without data (7z: empty file / directory / stream-less) — next to an ordinary
    member that must come out unchanged"""
    out = []
    lim = lim or SMALL_MAX
    tag = 0
    for fmt in ("7z", "zip", "tar", "tar.gz"):
        pool = _attr_pool(fmt)
        layouts = ("solid", "perfile") if fmt == "7z" else (None,)
        for ai, attr in enumerate(pool):
            if fmt == "tar.gz" and ai % 4:
                continue      # the compressed wrapper shares the member loop
            layout = layouts[ai % len(layouts)]
            V = lambda: {"name": "report.txt", "kind": "file", "data": _payload(f"V{tag}", 24)}   # noqa: E731
            shapes = [
                [{"name": "notes.txt", "kind": "file", "data": "{SB}/secret.txt", "subst": True, "attr": attr}, V()],
                [V(), {"name": "inbox.txt", "kind": "file", "data": "{SB}/deep", "subst": True, "attr": attr},
                 {"name": "inbox.txt/drop.txt", "kind": "file", "data": _payload(f"D{tag}", 22)}],
                [{"name": "d/plain.md", "kind": "file", "data": _payload(f"P{tag}", 26), "attr": attr}, V(),
                 {"name": "d/up.txt", "kind": "file", "data": "../../../secret.txt", "subst": True, "attr": attr}],
            ]
            if fmt == "7z":
                shapes.append([V(), {"name": "e.txt", "kind": "empty", "data": "", "attr": attr}, {"name": "sub", "kind": "dir", "data": "", "attr": attr},
                               {"name": "sub/in.txt", "kind": "file", "data": _payload(f"S{tag}", 20)},
                               {"name": "{SB}/secret.txt", "kind": "orphan", "data": "", "attr": attr}])
                shapes.append([{"name": "ad.txt", "kind": "attrdir", "data": "", "attr": attr}, V(),
                               {"name": "ad.txt/in.txt", "kind": "file", "data": _payload(f"A{tag}", 20), "attr": "undef"}])
            elif fmt == "zip":
                shapes.append([V(), {"name": "l.txt", "kind": "symlink", "link": "{SB}/secret.txt", "data": "", "attr": attr},
                               {"name": "dir.txt/", "kind": "dir", "data": ""}])
            else:
                shapes.append([V(), {"name": "c.txt", "kind": "file", "ttype": "cont", "data": _payload(f"C{tag}", 21), "attr": attr},
                               {"name": "o.txt", "kind": "file", "ttype": "areg", "data": _payload(f"O{tag}", 21), "attr": attr},
                               {"name": "inbox.txt", "kind": "symlink", "link": "{SB}/deep", "data": "", "attr": attr},
                               {"name": "inbox.txt/drop.txt", "kind": "file", "data": _payload(f"T{tag}", 22)}])
            if attr in (LINK_7Z, list(LINK_ZIP), 0o120777) and fmt != "tar.gz":
                # link CHAIN: each target stays lexically inside the archive's own tree (d1/d2/up.txt -> ../.. is the root of
                # the tree; d1/d2/up.txt/../../secret.txt reads as d1/secret.txt), physically the second one leaves it
                def lk(name, target):
                    if fmt.startswith("tar"):
                        return {"name": name, "kind": "symlink", "link": target, "data": "", "attr": attr}
                    return {"name": name, "kind": "file", "data": target, "subst": True, "attr": attr}
                shapes.append([V(), lk("d1/d2/up.txt", "../.."), lk("notes.txt", "d1/d2/up.txt/../../secret.txt"),
                               {"name": "d1/d2/up.txt/../../x.txt", "kind": "file", "data": _payload(f"X{tag}", 23)}])
                shapes.append([lk("in.txt", "d1"), {"name": "d1/a.txt", "kind": "file", "data": _payload(f"I{tag}", 23)},
                               lk("out.md", "in.txt/../../../deep/a/b.txt"), V()])
            for ms in shapes:
                tag += 1
                if fmt == "7z":
                    ms = sorted(ms, key=lambda m: 1 if m["kind"] == "orphan" else 0)
                spec = {"fmt": fmt, "members": ms, "consumer": ["exhaust"], "max_memory": lim}
                if layout:
                    spec["layout"] = layout
                out.append(spec)
    return out


# ---------------------------------------------------------------------------- filter by-pass family
# A member F that must NOT produce results (hidden, resource fork, unsupported type, nested archive, oversize) with a
# payload that occurs nowhere else in the archive, next to a member A with an innocent name that REFERS to F by one of
# the mechanisms the formats offer: TAR hard / symbolic link (tarfile.extractfile follows them), the same name a second
# time (selection by name instead of by entry), another spelling of the same path (7z: both are written to one file of
# the private directory), a ZIP symbolic-link member, a 7z entry without stream under F's name.
F_CLASSES = ["hidden", "hidden-sub", "macosx", "unsupported", "nested", "oversize"]
MECHS = {"tar": ["hardlink", "hardlink-dotslash", "hardlink-chain", "symlink", "symlink-sub", "dup-small", "same-basename", "copresent"],
         "zip": ["symlink", "dup-small", "same-basename", "copresent"],
         "7z": ["dup-small", "path-alias", "empty-same-name", "orphan-same-name", "same-basename", "copresent", "link-attr"]}


def _payload(tag, ln):
    body = f"member-{tag}-payload;"
    return (body * (ln // len(body) + 1))[:ln]


def _forbidden(cls, tag, lim, stem="cred"):
    """member of class `cls` that must not produce results; its payload starts with a token unique to it"""
    name = {"hidden": f".{stem}.txt", "hidden-sub": f"d/.{stem}.md", "macosx": f"__MACOSX/{stem}.txt", "unsupported": f"{stem}.bin",
            "nested": f"{stem}.zip", "oversize": f"big-{stem}.txt"}[cls]
    ln = lim + 1 + tag % 7 if cls == "oversize" else 30
    return {"name": name, "kind": "file", "data": _payload(f"F{tag}-{cls}", ln)}


def bypass_members(fmt, cls, mech, tag, lim, f_first=True, stem="cred"):
    """members of one by-pass archive, or None if the combination makes no sense for the format"""
    base = fmt.split(".")[0]
    if mech not in MECHS[base]:
        return None
    F = _forbidden(cls, tag, lim, stem)
    V = {"name": "report.txt", "kind": "file", "data": _payload(f"V{tag}", 24)}
    small = {"kind": "file", "data": _payload(f"A{tag}", 20)}
    if mech in ("hardlink", "hardlink-dotslash", "hardlink-chain", "symlink", "symlink-sub"):
        kind = "hardlink" if mech.startswith("hardlink") else "symlink"
        link = {"hardlink": F["name"], "hardlink-dotslash": "./" + F["name"], "hardlink-chain": F["name"], "symlink": F["name"],
                "symlink-sub": "../" + F["name"]}[mech]
        A = {"name": "sub/notes.txt" if mech == "symlink-sub" else "notes.txt", "kind": kind, "link": link, "data": ""}
        extra = [{"name": "summary.md", "kind": "hardlink", "link": "notes.txt", "data": ""}] if mech == "hardlink-chain" else []
        if kind == "symlink" and not f_first:
            return [V, A, F]
        return [V, F, A] + extra
    if mech == "link-attr":
        # an entry of innocent name flagged as a symbolic link (p7zip unix extension) whose data is the forbidden member's name
        A = {"name": "notes.txt", "kind": "file", "data": F["name"], "subst": True, "attr": LINK_7Z}
    elif mech == "dup-small":
        if cls != "oversize":
            return None
        A = {**small, "name": F["name"]}
    elif mech == "path-alias":
        if cls != "oversize":
            return None
        A = {**small, "name": ("x/../" if tag % 2 else "./") + F["name"]}
    elif mech == "empty-same-name":
        if cls != "oversize":
            return None
        A = {"name": F["name"], "kind": "empty", "data": ""}
    elif mech == "orphan-same-name":
        A = {"name": F["name"], "kind": "orphan", "data": ""}
        return [V, F, A]
    elif mech == "same-basename":
        # a decision remembered per basename (or taken from another member of that basename) lets the fork through
        if cls != "macosx":
            return None
        A = {**small, "name": "d/" + os.path.basename(F["name"])}
    else:  # copresent
        A = {**small, "name": "notes.txt"}
    return [V, F, A] if f_first else [V, A, F]


def bypass_battery(lim=None):
    """the fixed battery: every format x class x mechanism x order (x 7z layout), deterministic"""
    out = []
    tag = 0
    for fmt in ("tar", "tar.gz", "tar.bz2", "tar.xz", "zip", "7z"):
        for cls in F_CLASSES:
            for mech in MECHS[fmt.split(".")[0]]:
                if fmt in ("tar.bz2", "tar.xz") and mech not in ("hardlink", "symlink", "dup-small", "same-basename"):
                    continue   # the compressed wrappers share the member loop: three mechanisms each
                for f_first in (True, False):
                    for layout in (("solid", "perfile") if fmt == "7z" else (None,)):
                        tag += 1
                        # a basename of its own per archive: what an earlier archive left in the process cannot mask a case
                        ms = bypass_members(fmt, cls, mech, tag, lim or SMALL_MAX, f_first, stem=f"c{tag}")
                        if ms is None or (not f_first and mech.startswith("hardlink")) or (not f_first and mech == "orphan-same-name"):
                            continue
                        spec = {"fmt": fmt, "members": ms, "consumer": ["exhaust"], "max_memory": lim or SMALL_MAX}
                        if layout:
                            spec["layout"] = layout
                        out.append(spec)
    return out


def _inject_bypass(rng, fmt, members, lim):
    """put a forbidden member and a member referring to it into a random member list"""
    base = fmt.split(".")[0]
    cls = rng.choice(F_CLASSES + ["oversize", "oversize"])
    mech = rng.choice(MECHS[base])
    tag = rng.randint(100, 10 ** 6)
    stem = rng.choice(["cred", "q", "ünï", "my file", "A"]) + (str(tag) if rng.random() < 0.5 else "")
    ms = bypass_members(fmt, cls, mech, tag, lim, rng.random() < 0.6, stem)
    if ms is None:
        ms = bypass_members(fmt, cls, "copresent", tag, lim, rng.random() < 0.6, stem)
    ms = ms[1:] if rng.random() < 0.5 else ms      # with / without the visible member
    pos = rng.randint(0, len(members))
    return members[:pos] + ms + members[pos:]


_INNER = {}


def _inner_tar_gz(i):
    if i not in _INNER:
        bio = io.BytesIO()
        with tarfile.open(fileobj=bio, mode="w:gz") as tf:
            d = f"NESTED-INNER-{i}".encode()
            ti = tarfile.TarInfo("in.txt")
            ti.size = len(d)
            ti.mtime = 0
            tf.addfile(ti, io.BytesIO(d))
        _INNER[i] = bio.getvalue().decode("latin-1")
    return _INNER[i]


def gen_consumer(rng):
    r = rng.random()
    if r < 0.5:
        return ["exhaust"]
    if r < 0.75:
        return ["close", rng.choice([0, 1, 1, 2, 3])]
    return ["raise", rng.choice([1, 1, 2])]


# ============================================================================ running the real code
class _ConsumerBoom(Exception):
    pass


def _canon_result(r):
    try:
        md = r.get_metadata()
        fp = getattr(md, "file_path", None)
    except Exception as e:
        fp = f"<metadata raised {type(e).__name__}>"
    try:
        txt = r.get_full_text()
    except Exception as e:
        txt = f"<get_full_text raised {type(e).__name__}>"
    try:
        blob = json.dumps(r.to_json(), default=repr, sort_keys=True)
    except Exception as e:
        blob = f"<to_json raised {type(e).__name__}>"
    return {"path": fp, "text": txt, "blob": blob}


_HISTORY: list = []     # every archive description handed to the real code in this process, in order (the code may keep state)


def run_real(spec, sb: Sandbox, blob: bytes | None = None):
    """Run read_archive on the spec under observation, with the requested consumer behaviour.
    -> {"results": [...], "outcome": str, "events": [...], "leftover": [names in SB/tmp]}"""
    if len(_HISTORY) < 100000:
        _HISTORY.append(spec)
    from sharepoint2text.parsing.extractors import archive_extractor as ae
    from sharepoint2text.parsing.exceptions import ExtractionError
    if blob is None:
        blob = build_archive(spec, sb)
    saved_cfg = ae._config
    ae._should_skip_file  # noqa: B018  (attribute must exist)
    for f in (ae._is_supported_file_cached, ae._get_file_extractor_cached):
        f.cache_clear()
    if spec.get("max_memory"):
        ae.configure_archive_extraction(max_memory_size=spec["max_memory"])
    results, outcome = [], "finished"
    cons = spec.get("consumer", ["exhaust"])
    apath = "outer." + spec["fmt"]
    try:
        with sb, _Obs() as obs:
            gen = ae.read_archive(io.BytesIO(blob), path=apath)
            try:
                if cons[0] == "exhaust":
                    for r in gen:
                        results.append(r)
                elif cons[0] == "close":
                    k = cons[1]
                    while len(results) < k:
                        try:
                            results.append(next(gen))
                        except StopIteration:
                            break
                    else:
                        outcome = "closed" if k > 0 else "notStarted"
                    gen.close()
                else:
                    k = cons[1]
                    try:
                        for r in gen:
                            results.append(r)
                            if len(results) >= k:
                                raise _ConsumerBoom()
                    except _ConsumerBoom:
                        outcome = "closed"
                    del gen
                    gc.collect()
            except ExtractionError as e:
                outcome = "failed:" + type(e).__name__ + ":" + str(e)[:160]
            except Exception as e:  # anything else escaping is C01's business, but record it
                outcome = "raised:" + type(e).__name__ + ":" + str(e)[:160]
            gen = None
            gc.collect()
        events = obs.events
        tmpfiles = obs.tmpsnap
    finally:
        ae._config = saved_cfg
    leftover = sorted(os.listdir(sb.tmp))
    for n in leftover:  # keep the sandbox clean for the next case
        shutil.rmtree(os.path.join(sb.tmp, n), ignore_errors=True)
    events, probes = _split_probes(events, apath)
    return {"results": [_canon_result(r) for r in results], "outcome": outcome, "events": events, "probes": probes, "leftover": leftover,
            "tmpfiles": tmpfiles}


# ============================================================================ model requests
def _lowers_mimes(names):
    lowers, mimes = [], []
    seen = set()
    for nm in names:
        bn = os.path.basename(nm)
        if bn in seen:
            continue
        seen.add(bn)
        bl = bn.lower()
        lowers.append([bn, bl])
        try:
            mt = mimetypes.guess_type(bl)[0]
        except Exception:
            mt = None
        mimes.append([bl, mt])
    return lowers, mimes


def _json_ok(s: str) -> bool:
    try:
        s.encode("utf-8")
        return "\x00" not in s
    except UnicodeEncodeError:
        return False


def model_request(spec, sb: Sandbox, blob: bytes, base: str | None):
    """Request for the Lean model, built from what zipfile/tarfile report (they are parameters of the model) or, for
    7z, from the writer's own description of the header.  None if the case is outside the model (corrupt container)."""
    fmt = spec["fmt"]
    mm = spec.get("max_memory")
    common = {}
    if mm:
        common["max_memory"] = mm
    if spec.get("corrupt"):
        return None   # damaged containers: how zipfile/tarfile fail is not modelled; the trace acceptor and the oracle still apply
    if fmt == "zip":
        try:
            zf = zipfile.ZipFile(io.BytesIO(blob))
            zf.infolist()
        except Exception:   # corrupt container: outside the model (the oracle still covers it)
            return None
        ms = []
        for info in zf.infolist():
            try:
                d = list(zf.read(info)) if not info.is_dir() and info.file_size <= 4096 else None
            except Exception:
                d = None
            ms.append({"filename": info.filename, "is_dir": info.is_dir(), "enc": bool(info.flag_bits & 1), "size": info.file_size, "data": d})
        lowers, mimes = _lowers_mimes([m["filename"] for m in ms])
        return {"op": "c09.zip", "members": ms, "lowers": lowers, "mimes": mimes, **common}
    if fmt.startswith("tar"):
        try:
            tf = tarfile.open(fileobj=io.BytesIO(blob), mode="r:" + fmt.split(".")[-1] if fmt != "tar" else "r:")
            members = tf.getmembers()
        except Exception:
            return None
        ms = []
        for m in members:
            d = None
            if m.isreg() or m.islnk() or m.issym():
                # for a hard / symbolic link tarfile FOLLOWS the link to another member's bytes: the model is told so
                # (`read` of a non-regular member; Props/C09_Filter.lean: C09_tar_links_irrelevant)
                try:
                    f = tf.extractfile(m)
                    d = list(f.read(8192)) if f is not None else None
                except (Exception, RecursionError):
                    d = None
            ms.append({"name": m.name, "is_reg": m.isreg(), "size": m.size, "data": d})
        lowers, mimes = _lowers_mimes([m["name"] for m in ms])
        return {"op": "c09.tar", "members": ms, "lowers": lowers, "mimes": mimes, **common}
    # 7z: from the writer's description
    if spec.get("corrupt"):
        return None
    ents = [{"name": _subst(m["name"], sb), "kind": m["kind"], "data": _b(m, sb), "attr": m.get("attr")} for m in spec["members"]]
    files = [e for e in ents if e["kind"] == "file"]
    if any(len(e["data"]) == 0 for e in files):
        return None  # a zero-length stream is outside what the writer encodes faithfully
    layout = spec.get("layout", "solid")
    if layout == "solid" and files:
        folders, fdata, sizes = [len(files)], [list(b"".join(e["data"] for e in files))], [len(e["data"]) for e in files]
    elif layout == "nofolders" or not files:
        folders, fdata, sizes = [], [], []
    elif layout == "perfile":
        # one folder per stream, each decoded from its own pack stream
        folders, fdata, sizes = [1] * len(files), [list(e["data"]) for e in files], [len(e["data"]) for e in files]
    else:
        return None
    entries = [{"name": e["name"], "empty": e["kind"] in ("dir", "empty"), "attrdir": e["kind"] == "attrdir"} for e in ents]
    words = szb.attr_words(ents)
    if words is not None:
        # the attribute word the writer put into the header for each entry (0 where none is defined): the model is handed the
        # WHOLE word and keeps of it what `_build_file_list` keeps (S2T.Archive.AttrEntry.toRaw: FILE_ATTRIBUTE_DIRECTORY)
        for w, x in zip(words, entries):
            x["attr"] = w or 0
            x["attrdir"] = bool((w or 0) & 0x10)
    lowers, mimes = _lowers_mimes([e["name"] for e in ents])
    # PROP_EMPTY_FILE: one flag per empty-stream entry; the writer only emits the property when a flag is set
    efs = [e["kind"] == "empty" for e in ents if e["kind"] in ("dir", "empty")]
    if not any(efs):
        efs = []
    req = {"op": "c09.7z", "entries": entries, "file_sizes": sizes, "empty_files": efs, "folders": folders, "folder_data": fdata,
           "cwd": sb.cwd, "base": base or (sb.tmp + "/tmpMODEL"), "lowers": lowers, "mimes": mimes, **common}
    cons = spec.get("consumer", ["exhaust"])
    if cons[0] in ("close", "raise"):
        req["close_after"] = cons[1]
    return req


def _norm_outcome(o: str) -> str:
    if o.startswith("failed:ExtractionFileEncryptedError"):
        return "failed:encrypted"
    if o.startswith("failed:"):
        return "failed"
    return o


def _split_probes(events, apath):
    """(events without the metadata probes, probes).  Every member extractor calls
    FileMetadataInterface.populate_from_path(f"{archive_path}!/{member}"), which stats that synthetic path (and its
    parent) on the host: known finding `member-metadata-probes-host`.  These stats are reported there and kept out of
    the confinement trace."""
    pre = apath + "!"
    keep, probes = [], []
    for e in events:
        (probes if e[0] == "stat" and isinstance(e[1], str) and e[1].startswith(pre) else keep).append(e)
    return keep, probes


def _fs_events(events, ro):
    """events that are not reads of the installation"""
    def is_ro(p):
        return any(p == r or p.startswith(r.rstrip("/") + "/") for r in ro)
    return [e for e in events if not (e[0] in ("openR", "stat", "listdir") and isinstance(e[1], str) and is_ro(e[1]))]


def _phys(e, sb):
    """the event as the Lean acceptor is to judge it: where a path below the temp root is taken ELSEWHERE by the kernel
    (a link inside a private directory), the acceptor is handed the place the kernel goes to"""
    if e[0] in ("openR", "openW", "mkdir") and len(e) > 2 and isinstance(e[2], str) and isinstance(e[1], str) \
            and os.path.isabs(e[1]) and os.path.normpath(e[1]).startswith(sb.tmp + "/") and os.path.normpath(e[1]) != e[2]:
        return [e[0], e[2]]
    return e[:3] if e[0] == "rmtree" else e[:2]


def compare_case(ctx, spec, sb, real, model, ro):
    """-> list of disagreement strings between the real run and the model's answer."""
    diffs = []
    fmt = spec["fmt"]
    import pathlib
    real_res = [(r["path"], r["text"]) for r in real["results"]]
    apath = "outer." + fmt
    if "drv_error" in model:
        return ["driver: " + model["drv_error"]]
    # metadata.file_path went through pathlib.Path: '//' and '/./' are collapsed there
    mres = [(str(pathlib.PurePosixPath(apath + "!/" + n)), bytes(d).decode("utf-8", "replace")) for n, d in model["res"]]

    # the plain-text extractor guesses an encoding (charset_normalizer): only the generator's own ASCII payloads
    # decode predictably; for other bytes (link targets, gzip data under a text name) the text is not compared
    def _pathlike(rt):
        # a path stored as a member's data (link entries): ASCII, printable, decodes as itself
        return rt.isascii() and rt.isprintable() and rt.startswith(("/", "../")) and " " not in rt

    def _cmp(pairs, ref):
        return [(p, t if ((("payload" in rt) or _pathlike(rt)) and rt.isascii() and len(rt) >= 12) else "<text not compared>")
                for (p, t), (_, rt) in zip(pairs, ref)] + [(p, t) for p, t in pairs[len(ref):]]
    real_res = _cmp(real_res, mres)
    mres = _cmp(mres, mres)
    cons = spec.get("consumer", ["exhaust"])
    if fmt != "7z":
        # the model lists every result of an exhaustive run; the consumer decides how many were taken
        take = len(mres) if cons[0] == "exhaust" else min(len(mres), cons[1])
        if fmt == "zip" and model.get("err"):
            exp_out = "failed:encrypted" if model["err"] == "encrypted" else "failed"
            if cons[0] != "exhaust" and cons[1] <= len(mres) and model["err"] != "encrypted":
                exp_out = "closed" if cons[1] > 0 else "notStarted"
            elif model["err"] == "encrypted":
                mres, take = [], 0
                if cons[0] != "exhaust" and cons[1] == 0:
                    exp_out = "notStarted"
        else:
            exp_out = "finished" if (cons[0] == "exhaust" or cons[1] > len(mres)) else ("closed" if cons[1] > 0 else "notStarted")
        if real_res != mres[:take]:
            diffs.append(f"results impl={real_res!r} model={mres[:take]!r}")
        if _norm_outcome(real["outcome"]) != exp_out:
            diffs.append(f"outcome impl={real['outcome']!r} model={exp_out!r}")
        fs = _fs_events(real["events"], ro)
        if fs:
            diffs.append(f"file-system events in an in-memory format: {fs[:6]!r}")
        return diffs
    # 7z
    if real_res != mres:
        diffs.append(f"results impl={real_res!r} model={mres!r}")
    mo = model["out"].split(":")[0]
    if _norm_outcome(real["outcome"]).split(":")[0] != mo:
        diffs.append(f"outcome impl={real['outcome']!r} model={model['out']!r}")
    # events: exact sequence of effects, stats as a subsequence
    base = next((e[1] for e in real["events"] if e[0] == "mkdtemp"), None)
    keep = ("mkdtemp", "rmtree", "mkdir", "openW", "openR")
    rev = [e[:2] for e in _fs_events(real["events"], ro) if e[0] in keep and not (e[0] == "mkdir" and e[1] == base)]
    mev = [e for e in model["evs"] if e[0] in keep]
    if rev != mev:
        diffs.append(f"effects impl={rev!r} model={mev!r}")
    if "tmp" in model:
        rtmp = sorted((q, sz, d.encode("latin-1")) for q, sz, d in real.get("tmpfiles", []))
        mtmp = sorted((q, len(d), bytes(d)[:4096]) for q, d in model["tmp"])
        if rtmp != mtmp:
            def _sh(l):
                return [(q, sz, d[:24]) for q, sz, d in l][:6]
            diffs.append(f"private directory when removed impl={_sh(rtmp)!r} model={_sh(mtmp)!r}")
    rstats = [e[1] for e in real["events"] if e[0] == "stat"]
    it = iter(rstats)
    for p in [e[1] for e in model["evs"] if e[0] == "stat"]:
        if not any(q == p for q in it):
            diffs.append(f"model probe {p!r} not among the observed os.stat calls")
            break
    return diffs


# ============================================================================ oracle of the property itself (no Lean)
def _py_confined(events, sb: Sandbox, ro):
    """Python-side confinement check of an observed trace (independent of the Lean acceptor). -> list of complaints"""
    bad = []
    live = []

    def inside(p, d):
        q = os.path.normpath(p)
        return os.path.isabs(p) and (q == d or q.startswith(d.rstrip("/") + "/"))

    def is_ro(p):
        return os.path.isabs(p) and any(inside(p, r) for r in ro)

    for e in events:
        k, p = e[0], e[1]
        if not isinstance(p, str):
            bad.append(f"{e!r}: unrecognised path")
            continue
        if k in ("openR", "openW", "mkdir") and len(e) > 2 and isinstance(e[2], str) and any(inside(p, d) for d in live) \
                and not any(inside(e[2], d) for d in live):
            # lexically inside the private directory, but the kernel takes the path elsewhere: something in the private
            # directory is a link (member names / link entries must not redirect I/O)
            bad.append(f"{k} {p} is taken by the kernel to {e[2]}, outside the private directory (a link inside it is followed)")
            continue
        if k == "mkdtemp":
            if os.path.dirname(p) != sb.tmp:
                bad.append(f"mkdtemp outside the temp root: {p}")
            live.append(p)
        elif k == "rmtree":
            if p in live and e[2]:
                live.remove(p)
            else:
                bad.append(f"rmtree of {p} (live={live}, gone={e[2]})")
        elif k == "mkdirExisting":
            pass
        elif k in ("openR", "listdir"):
            if not (any(inside(p, d) for d in live) or is_ro(p)):
                bad.append(f"{k} {p} outside the private directory")
        elif k == "stat":
            if not (any(inside(p, d) for d in live) or is_ro(p) or any(inside(d, os.path.normpath(p)) for d in live)):
                bad.append(f"stat {p} outside the private directory")
        elif k in ("mkdir", "openW", "remove", "rmdir"):
            if not any(inside(p, d) for d in live):
                bad.append(f"{k} {p} outside the private directory")
        else:
            bad.append(f"unexpected file-system operation {k} {p}")
    if live:
        bad.append(f"private directory not removed: {live}")
    return bad


def _member_class(name: str):
    """(hidden, nested-by-name, supported) judged without the code under test's skip function"""
    import sharepoint2text
    bn = os.path.basename(name)
    hidden = bn.startswith(".") or name.startswith("__MACOSX/")
    low = bn.lower()
    nested = any(low.endswith("." + e) for e in ("zip", "tar", "tgz", "tbz2", "txz", "7z", "gz", "bz2", "xz", "taz", "tz"))
    return hidden, nested, bool(sharepoint2text.is_supported_file(bn))


def _member_reason(m, name, lim, sb=None):
    """why this member must not produce results (None: it may) — judged from the archive description alone"""
    hidden, nested, sup = _member_class(name)
    if hidden:
        return "hidden / resource-fork"
    if nested:
        return "nested-archive"
    if not sup:
        return "unsupported-type"
    if len(_b(m, sb)) > lim:
        return f"oversize ({len(_b(m, sb))} bytes, limit {lim})"
    return None


def _token(data: str):
    """a recognisable piece of a member's payload (printable ASCII, at least 12 characters), or None"""
    t = data[:40]
    if len(t) >= 12 and t.isascii() and t.isprintable():
        return t
    return None


def reported_names(spec, sb: Sandbox, blob: bytes):
    """the member names as the container library reports them (zipfile cuts at NUL, tarfile strips the trailing slash of
    a pax path, …: zipfile / tarfile are trusted parameters of the property), aligned with spec["members"]; the names of
    the archive description where the container cannot be listed or lists another number of members"""
    names = [_subst(m["name"], sb) for m in spec["members"]]
    try:
        fmt = spec["fmt"]
        if fmt == "zip":
            got = [i.filename for i in zipfile.ZipFile(io.BytesIO(blob)).infolist()]
        elif fmt.startswith("tar"):
            got = [m.name for m in tarfile.open(fileobj=io.BytesIO(blob), mode="r:" + (fmt.split(".")[-1] if fmt != "tar" else "")).getmembers()]
        else:
            return names
    except Exception:
        return names
    return got if len(got) == len(names) else names


def content_leaks(spec, sb: Sandbox, results, names=None):
    """'Hidden members, resource forks, nested archives, unsupported types and oversize members never produce results',
    judged by CONTENT: the payload of a member that must not produce results does not occur in any result, under whatever
    name (a hard link, a second entry of the same name, another spelling of the same path …).  Only payloads that occur
    in no member that MAY produce results are judged.  -> list[(key, what)]"""
    lim = spec.get("max_memory") or 10 * 1024 * 1024
    ms = spec["members"]
    names = names or [_subst(m["name"], sb) for m in ms]
    reasons = [(m, _member_reason(m, nm, lim, sb)) for m, nm in zip(ms, names) if m["kind"] == "file" and _b(m, sb)]
    allowed_text = [m["data"] for m, why in reasons if why is None] + [_subst(m["data"], sb) for m, why in reasons if m.get("subst")]
    allowed_text += [_subst(m.get("link", ""), sb) for m in ms if m["kind"] != "file"] + [_subst(m["name"], sb) for m in ms] + list(names)
    out = []
    seen = set()
    for m, why in reasons:
        tok = _token(m["data"]) if why and not m.get("subst") else None
        if tok is None or tok in seen or any(tok in a for a in allowed_text):
            continue
        seen.add(tok)
        for r in results:
            if tok in (r["text"] or "") or tok in r["blob"]:
                out.append(("filtered-member-content-in-results",
                            f"the content of the {why} member {_subst(m['name'], sb)!r} ({tok[:28]!r}…) came out in the result {r['path']!r}"))
                break
    return out


def oracle(ctx, spec, sb: Sandbox, ro):
    """Check the property statement on the real code for one spec.  -> list[(key, what)]"""
    out = []
    tokA, tokB = "CANARYA" + hashlib.sha1(repr(spec).encode()).hexdigest()[:10], "CANARYB" + hashlib.sha1(repr(spec).encode()).hexdigest()[10:20]
    sb.set_token(tokA)
    snap0 = sb.snapshot()
    blob = build_archive(spec, sb)
    ra = run_real(spec, sb, blob)
    snap1 = sb.snapshot()
    sb.set_token(tokB)
    rb = run_real(spec, sb, blob)
    sb.set_token(tokA)
    apath = "outer." + spec["fmt"]
    # 1. no host content in the results; results are a function of the archive bytes only
    for r in ra["results"]:
        if tokA in r["blob"] or tokA in (r["text"] or ""):
            out.append(("host-file-content-in-results", f"result {r['path']!r} carries the content of a host file: {r['text'][:80]!r}"))
    if [(r["path"], r["text"], r["blob"]) for r in ra["results"]] != [(r["path"], r["text"], r["blob"]) for r in rb["results"]] or \
            _norm_outcome(ra["outcome"]) != _norm_outcome(rb["outcome"]):
        out.append(("results-depend-on-host-files", f"same archive bytes, different host file contents -> different results "
                    f"({[r['path'] for r in ra['results']]} / {ra['outcome']} vs {[r['path'] for r in rb['results']]} / {rb['outcome']})"))
    # 2. nothing created / modified outside the private directory; the directory is gone
    if snap0 != snap1:
        ch = sorted(set(snap0.items()) ^ set(snap1.items()))[:4]
        out.append(("host-file-created-or-modified", f"sandbox changed: {ch!r}"))
    if ra["leftover"]:
        made = {os.path.basename(e[1]) for e in ra["events"] if e[0] == "mkdtemp"}
        own = [n for n in ra["leftover"] if n in made]
        alien = [n for n in ra["leftover"] if n not in made]
        if own:
            out.append(("tempdir-not-removed", f"private directory still there after {spec.get('consumer')} / {ra['outcome'][:60]}: {own}"))
        if alien:
            out.append(("created-outside-private-dir", f"created next to the private directory and left behind: {alien}"))
    bad = _py_confined(ra["events"], sb, ro)
    if bad:
        out.append(("fs-access-outside-private-dir", "; ".join(bad[:3])))
    # 3. hidden / resource fork / nested / unsupported / oversize members never produce results: by content …
    out += content_leaks(spec, sb, ra["results"], reported_names(spec, sb, blob))
    # … and by the name the result carries
    lim = spec.get("max_memory") or 10 * 1024 * 1024
    import pathlib
    sizes = {}
    for m in spec["members"]:
        key = str(pathlib.PurePosixPath(apath + "!/" + _subst(m["name"], sb)))[len(apath) + 2:]
        plen = len(_subst(m.get("link", ""), sb).encode("utf-8", "surrogateescape")) if (spec["fmt"] == "zip" and m["kind"] == "symlink") else len(_b(m, sb))
        sizes.setdefault(key, []).append(plen)
    for r in ra["results"]:
        p = r["path"] or ""
        if not p.startswith(apath + "!/"):
            out.append(("result-path", f"result path {p!r} does not start with the archive path"))
            continue
        member = p[len(apath) + 2:]
        if "!/" in member and member not in sizes:
            out.append(("nested-archive-unpacked", f"member of a nested archive came out: {p!r}"))
            continue
        hidden, nested, sup = _member_class(member)
        if hidden:
            out.append(("hidden-member-result", f"hidden / resource-fork member produced a result: {p!r}"))
        if nested:
            out.append(("nested-archive-result", f"nested archive member produced a result: {p!r}"))
        if not sup:
            out.append(("unsupported-member-result", f"unsupported member produced a result: {p!r}"))
        if member in sizes and all(s > lim for s in sizes[member]):
            out.append(("oversize-member-result", f"member of {sizes[member]} bytes (limit {lim}) produced a result: {p!r}"))
    return out


# ============================================================================ fixed regression / witness specs
WITNESSES = [
    ("7z.readback-host-file", {"fmt": "7z", "layout": "solid", "consumer": ["exhaust"], "max_memory": None, "members": [
        {"name": "a.txt", "kind": "file", "data": "hello a"},
        {"name": "{SB}/secret.txt", "kind": "orphan", "data": ""}]}),
    ("7z.readback-host-file", {"fmt": "7z", "layout": "nofolders", "consumer": ["exhaust"], "max_memory": None, "members": [
        {"name": "../../secret.txt", "kind": "orphan", "data": ""}]}),
    ("nested-archive-unpacked", {"fmt": "zip", "consumer": ["exhaust"], "max_memory": None, "members": [
        {"name": "inner.gz", "kind": "file", "data": _inner_tar_gz(0)}]}),
    ("nested-archive-unpacked", {"fmt": "7z", "layout": "solid", "consumer": ["exhaust"], "max_memory": None, "members": [
        {"name": "d/inner.taz", "kind": "file", "data": _inner_tar_gz(1)}]}),
    ("nested-archive-unpacked", {"fmt": "tar.gz", "consumer": ["exhaust"], "max_memory": None, "members": [
        {"name": "inner.XZ", "kind": "file", "data": _inner_tar_gz(2)}]}),
]

CORPUS = [
    {"fmt": "7z", "layout": "solid", "consumer": ["close", 1], "max_memory": SMALL_MAX, "members": [
        {"name": "a.txt", "kind": "file", "data": "first member"}, {"name": "d/b.txt", "kind": "file", "data": "second member"},
        {"name": "d", "kind": "dir", "data": ""}, {"name": "e.txt", "kind": "empty", "data": ""}]},
    {"fmt": "7z", "layout": "solid", "consumer": ["exhaust"], "max_memory": SMALL_MAX, "members": [
        {"name": "a.txt", "kind": "file", "data": "x" * SMALL_MAX}, {"name": "b.txt", "kind": "file", "data": "y" * (SMALL_MAX + 1)}]},
    {"fmt": "7z", "layout": "solid", "consumer": ["exhaust"], "max_memory": SMALL_MAX, "members": [
        {"name": "a", "kind": "file", "data": "is a file"}, {"name": "a/b.txt", "kind": "file", "data": "needs a as dir"}]},
    {"fmt": "7z", "layout": "solid", "consumer": ["exhaust"], "max_memory": SMALL_MAX, "members": [
        {"name": "", "kind": "file", "data": "empty name"}]},
    {"fmt": "7z", "layout": "solid", "consumer": ["raise", 1], "max_memory": SMALL_MAX, "members": [
        {"name": "a.txt", "kind": "file", "data": "one"}, {"name": "a.txt", "kind": "file", "data": "two, same name"},
        {"name": "b.txt", "kind": "orphan", "data": ""}, {"name": "a.txt", "kind": "orphan", "data": ""}]},
    {"fmt": "7z", "layout": "solid", "consumer": ["exhaust"], "max_memory": SMALL_MAX, "members": [
        {"name": "d/../../evil.txt", "kind": "file", "data": "escape"}]},
    {"fmt": "zip", "consumer": ["exhaust"], "max_memory": SMALL_MAX, "members": [
        {"name": "../../evil.txt", "kind": "file", "data": "zip slip"}, {"name": "{SB}/x.txt", "kind": "file", "data": "abs"},
        {"name": "link.txt", "kind": "symlink", "link": "{SB}/secret.txt", "data": ""}, {"name": ".hidden.txt", "kind": "file", "data": "h"},
        {"name": "__MACOSX/._a.txt", "kind": "file", "data": "fork"}, {"name": "big.txt", "kind": "file", "data": "z" * (SMALL_MAX + 1)}]},
    {"fmt": "tar", "consumer": ["close", 2], "max_memory": SMALL_MAX, "members": [
        {"name": "a.txt", "kind": "file", "data": "tar a"}, {"name": "l.txt", "kind": "symlink", "link": "{SB}/secret.txt", "data": ""},
        {"name": "h.txt", "kind": "hardlink", "link": "a.txt", "data": ""}, {"name": "dev.txt", "kind": "chr", "data": ""},
        {"name": "fifo.txt", "kind": "fifo", "data": ""}, {"name": "{SB}/secret.txt", "kind": "file", "data": "overwrite?"},
        {"name": "../../x.txt", "kind": "file", "data": "tar slip"}]},
    {"fmt": "7z", "layout": "perfile", "consumer": ["exhaust"], "max_memory": SMALL_MAX, "members": [
        {"name": "a.txt", "kind": "file", "data": "folder zero"}, {"name": "d/b.txt", "kind": "file", "data": "folder one, own pack stream"},
        {"name": "d/e/empty.txt", "kind": "empty", "data": ""}, {"name": "d", "kind": "dir", "data": ""},
        {"name": "../../evil.txt", "kind": "empty", "data": ""}]},
    {"fmt": "7z", "layout": "solid", "consumer": ["close", 1], "max_memory": SMALL_MAX, "members": [
        {"name": "😀/e.txt", "kind": "empty", "data": ""}, {"name": "{SB}/secret.txt", "kind": "empty", "data": ""}]},
    {"fmt": "7z", "layout": "nofolders", "consumer": ["exhaust"], "max_memory": SMALL_MAX, "members": [
        {"name": "e.txt", "kind": "empty", "data": ""}, {"name": "e.txt/x.txt", "kind": "empty", "data": ""}, {"name": "o.txt", "kind": "orphan", "data": ""}]},
    {"fmt": "tar", "consumer": ["exhaust"], "max_memory": SMALL_MAX, "members": [
        {"name": "BZnotes.txt", "kind": "file", "data": "first member name starts like bzip2"}, {"name": "b.txt", "kind": "file", "data": "second"}]},
    # members=[…]: skipped members are stepped over, not written; their names cannot abort the archive
    {"fmt": "7z", "layout": "solid", "consumer": ["exhaust"], "max_memory": SMALL_MAX, "members": [
        {"name": "../../skipped.bin", "kind": "file", "data": "unsupported, escaping name"}, {"name": "big.txt", "kind": "file", "data": "o" * (SMALL_MAX + 1)},
        {"name": "d/kept.txt", "kind": "file", "data": "kept member after two skipped ones"}, {"name": "{SB}/x.exe", "kind": "file", "data": "skipped absolute"},
        {"name": "../../skipped-empty.dat", "kind": "empty", "data": ""}, {"name": "tail.bin", "kind": "file", "data": "never decoded tail"}]},
    {"fmt": "7z", "layout": "perfile", "consumer": ["close", 1], "max_memory": SMALL_MAX, "members": [
        {"name": "only-skipped.bin", "kind": "file", "data": "folder with nothing wanted"}, {"name": "../evil.txt", "kind": "file", "data": "wanted but escaping: aborts"},
        {"name": "a.txt", "kind": "file", "data": "third folder"}]},
] + [w for _, w in WITNESSES]


def _big_descr(spec):
    """a spec with members of 10 MiB, described without the payload: data = [first 64 characters, length]"""
    return {**spec, "members": [{**m, "data": [m["data"][:64], len(m["data"])]} for m in spec["members"]]}


def _big_expand(d):
    ms = []
    for m in d["members"]:
        head, ln = m["data"]
        if ln > 12 * 1024 * 1024:
            raise ValueError("member too large")
        ms.append({**m, "data": ((head or "z") * (ln // max(1, len(head)) + 1))[:ln]})
    return {**d, "members": ms}


# ============================================================================ correspondence
def _calibrate(ctx, sb, broken):
    """the driver's `nres` rule (plain text -> 1 result, zip-based/binary types on garbage -> 0) on the real extractors"""
    for ext, want in [(e, 1) for e in PLAIN] + [(e, 0) for e in ZERO]:
        spec = {"fmt": "zip", "consumer": ["exhaust"], "max_memory": None, "members": [{"name": "m." + ext, "kind": "file", "data": "member-0-payload-17;"}]}
        r = run_real(spec, sb)
        if len(r["results"]) != want:
            broken.append(Broken("correspondence", "c09.calibration", f"extractor for .{ext} yields {len(r['results'])} results on the probe bytes, model assumes {want}", case={"spec": spec}))


def _path_cases(ctx):
    rng = ctx.rng
    alpha = ["/", "/", ".", ".", "..", "a", "b", "\\", " ", "tmp", "ü"]
    cases = ["", "/", "//", "///", "//a", "///a", "/a/", "/a//b/", "a/..", "a/../..", "/..", "/../a", "//..//a", ".", "./", "..", "../a", "a/./b",
             "/tmp/x/../y", "a//", "/a/b/../../..", "\\a", "a\\..\\b", "/a/b/c", "a", "//a/../..", "/.", "/./", "..//", "a/.../b"]
    cases += ["../tmpabcx", "../tmpabcx/y.txt", "../tmpabc", "../tmpabc/y", "../tmpabc.d/y", "d/../../tmpabc_/y", "../tmpab/y", "../t", "../tx/y"]
    for _ in range(ctx.n(300, 4000)):
        cases.append("".join(rng.choice(alpha) for _ in range(rng.randint(0, 7))))
    return cases


def correspondence(ctx):
    import posixpath
    from sharepoint2text.parsing.extractors import archive_extractor as ae
    from sharepoint2text.parsing.extractors.util import sevenzip as sz
    broken, violations = [], []
    mimetypes.init()
    ro = _ro_prefixes()
    # warm every lazily imported extractor so that imports do not appear in the observed traces
    from sharepoint2text.parsing import router
    import importlib
    for ft, (modname, _) in router._EXTRACTOR_REGISTRY.items():
        try:
            importlib.import_module(modname)
        except Exception as e:
            broken.append(Broken("correspondence", f"registry-import:{ft}", repr(e)))
    sb = Sandbox("CANARY0")
    try:
        list(ae.read_archive(io.BytesIO(build_archive(CORPUS[0], sb)), path="warm.7z"))
        # ---- 1. posixpath + _safe_join
        cases = _path_cases(ctx)
        reqs, exp = [], []
        cwd = sb.cwd
        bases = [sb.tmp + "/tmpabc", "/", "//x", "/tmp/../t", "rel/base", "", "/tmp/t/", "/t"]
        for a in cases:
            if not _json_ok(a):
                continue
            for fn, want in (("normpath", posixpath.normpath(a)), ("dirname", posixpath.dirname(a)), ("basename", posixpath.basename(a)),
                             ("split", a.split("/"))):
                reqs.append({"op": "c09.path", "fn": fn, "a": a})
                exp.append((fn, a, "", want))
            b = ctx.rng.choice(cases)
            reqs.append({"op": "c09.path", "fn": "join", "a": a, "b": b})
            exp.append(("join", a, b, posixpath.join(a, b)))
            for base in (bases[0], ctx.rng.choice(bases)):
                with sb:
                    reqs.append({"op": "c09.path", "fn": "abspath", "a": a, "cwd": cwd})
                    exp.append(("abspath", a, "", posixpath.abspath(a)))
                    try:
                        want = ("ok", sz._safe_join(base, a))
                    except sz.Bad7zFile:
                        want = ("err", "rejected")
                reqs.append({"op": "c09.path", "fn": "safejoin", "a": base, "b": a, "cwd": cwd})
                exp.append(("safejoin", base, a, want))
        outs = ctx.drive(reqs)
        nbad = 0
        for (fn, a, b, want), o in zip(exp, outs):
            ctx.case(("path", fn, a, b), nontrivial=bool(a))
            ctx.count("path/" + fn)
            got = ("err", "rejected") if "err" in o else (("ok", o.get("r")) if fn == "safejoin" else o.get("r"))
            if got != want:
                nbad += 1
                if nbad <= 8:
                    broken.append(Broken("correspondence", "c09.path." + fn, f"impl={want!r} model={got!r}", case={"fn": fn, "a": a, "b": b}))
        # ---- 2. _should_skip_file
        names = set()
        for _ in range(ctx.n(500, 6000)):
            nm, cls, shape = gen_name(ctx.rng, "zip")
            names.add(nm)
        for ext in PLAIN + ZERO + UNSUP + NESTED_DECL + NESTED_ALIAS + sorted(router._EXTENSION_ALIASES) + sorted(router._EXTRACTOR_REGISTRY):
            for stem in ("a", "d/a", ".a", "__MACOSX/a", "a.tar", "x.v1"):
                names.add(stem + "." + ext)
        for mt_ext in sorted(mimetypes.types_map)[:: ctx.n(9, 1)]:
            names.add("m" + mt_ext)
        names = sorted(n for n in names if _json_ok(n))
        reqs, exp = [], []
        for nm in names:
            bn = os.path.basename(nm)
            lowers, mimes = _lowers_mimes([nm])
            ae._is_supported_file_cached.cache_clear()
            ae._get_file_extractor_cached.cache_clear()
            try:
                want = bool(ae._should_skip_file(nm, bn))
            except Exception as e:
                want = f"RAISED:{type(e).__name__}"
            reqs.append({"op": "c09.skip", "filename": nm, "lowers": lowers, "mimes": mimes})
            exp.append((nm, want))
        outs = ctx.drive(reqs)
        nbad = 0
        for (nm, want), o in zip(exp, outs):
            ctx.case(("skip", nm))
            ctx.count("skip/" + ("skipped" if want is True else "kept" if want is False else "raised"))
            if o.get("skip") != want:
                nbad += 1
                if nbad <= 8:
                    broken.append(Broken("correspondence", "c09.skip", f"_should_skip_file({nm!r}) impl={want!r} model={o.get('skip')!r} "
                                         f"(hidden={o.get('hidden')}, routes-to-archive={o.get('to_archive')})", case={"name": nm}))
        # ---- 3. whole archives: results, outcome, file-system effects, acceptor
        _calibrate(ctx, sb, broken)
        specs = list(CORPUS) + bypass_battery() + attr_battery()
        for _ in range(ctx.n(260, 6000)):
            specs.append(gen_spec(ctx.rng))
        # a few members around the real (default) limits
        if ctx.thorough or ctx.seed % 2 == 0:
            big = "z" * (10 * 1024 * 1024)
            for fmt in ("zip", "tar.gz", "7z"):
                specs.append({"fmt": fmt, "layout": "solid", "deflate": True, "consumer": ["exhaust"], "max_memory": None, "members": [
                    {"name": "at.txt", "kind": "file", "data": big}, {"name": "over.txt", "kind": "file", "data": big + "z"},
                    {"name": "small.txt", "kind": "file", "data": "small"}], "expect": ["at.txt", "small.txt"]})
            # the by-pass mechanisms once at the DEFAULT limit (10 MiB): a hard link to an oversize member, an oversize entry
            # sharing its name with a small one (solid and one folder per file)
            bigF = _payload("Fbig-oversize", 10 * 1024 * 1024 + 15)
            specs.append({"fmt": "tar.gz", "consumer": ["exhaust"], "max_memory": None, "expect": ["report.txt"], "members": [
                {"name": "report.txt", "kind": "file", "data": _payload("Vbig", 24)}, {"name": "big.txt", "kind": "file", "data": bigF},
                {"name": "summary.txt", "kind": "hardlink", "link": "big.txt", "data": ""}]})
            for layout in ("solid", "perfile"):
                specs.append({"fmt": "7z", "layout": layout, "consumer": ["exhaust"], "max_memory": None, "expect": ["notes.txt"], "members": [
                    {"name": "notes.txt", "kind": "file", "data": _payload("Abig", 20)}, {"name": "notes.txt", "kind": "file", "data": bigF}]})
        runs, reqs, idx = [], [], []
        conf_reqs = []
        for spec in specs:
            blob = build_archive(spec, sb)
            real = run_real(spec, sb, blob)
            base = next((e[1] for e in real["events"] if e[0] == "mkdtemp"), None)
            big_case = any(len(m.get("data", "")) > 4096 for m in spec["members"])
            req = None if big_case else model_request(spec, sb, blob, base)
            if req is not None and not all(_json_ok(json.dumps(req)) for _ in (0,)):
                req = None
            runs.append((spec, real))
            if req is not None:
                idx.append(len(runs) - 1)
                reqs.append(req)
            # the filters judged by content on every run of the real code (not only when something broke)
            for key, what in content_leaks(spec, sb, real["results"], None if big_case else reported_names(spec, sb, blob)):
                violations.append(Violation(key, what, {"spec": spec} if not big_case else {"bigspec": _big_descr(spec)}))
            evs = [_phys(e, sb) for e in real["events"]]
            conf_reqs.append({"op": "c09.confined", "tmp_root": sb.tmp, "ro": ro, "events": evs})
            kinds = sorted({m["kind"] for m in spec["members"]})
            ctx.count(f"archive/{spec['fmt']}/{spec.get('layout', '-')}/{spec['consumer'][0]}/{_norm_outcome(real['outcome']).split(':')[0]}")
            for k in kinds:
                ctx.count("member-kind/" + k)
            for m in spec["members"]:
                if m.get("attr") is not None:
                    ctx.count(f"attr/{spec['fmt'].split('.')[0]}/{_attr_class(spec['fmt'], m['attr'])}" + ("/path-data" if m.get("subst") else ""))
            if big_case:
                # default limits: the boundary members themselves are checked here (the model run is skipped for size)
                got = sorted(r["path"].split("!/")[-1] for r in real["results"])
                small_txt = [r["text"] for r in real["results"] if len(r["text"] or "") < 4096]
                want_txt = [m["data"] for m in spec["members"] if m["kind"] == "file" and len(m["data"]) < 4096 and m["name"] in spec["expect"]]
                if got != spec["expect"] or sorted(small_txt) != sorted(want_txt):
                    broken.append(Broken("correspondence", "c09.default-limit", f"{spec['fmt']}: members producing results at the default "
                                         f"max_memory_size: {got} (texts below 4 KiB: {[t[:30] for t in small_txt]}), model: {spec['expect']} "
                                         f"({[t[:30] for t in want_txt]})", case={"bigspec": _big_descr(spec)}))
        outs = ctx.drive(reqs)
        by_run = dict(zip(idx, outs))
        couts = ctx.drive(conf_reqs)
        nbad = 0
        for i, (spec, real) in enumerate(runs):
            nontriv = bool(real["results"]) or any(e[0] in ("mkdir", "openW") for e in real["events"])
            ctx.case(("archive", json.dumps(spec, sort_keys=True)), nontrivial=nontriv)
            if i in by_run:
                diffs = compare_case(ctx, spec, sb, real, by_run[i], ro)
                ctx.count("modelled")
                if diffs:
                    nbad += 1
                    if nbad <= 6:
                        broken.append(Broken("correspondence", "c09." + spec["fmt"].split(".")[0], " | ".join(diffs)[:1500], case={"spec": spec}))
                if i % 37 == 0:
                    ctx.sample({"spec": {**spec, "members": [{**m, "data": m["data"][:24]} for m in spec["members"]]}, "impl_outcome": real["outcome"][:60],
                                "impl_results": [r["path"] for r in real["results"]], "model": {k: (v if k != "res" else [x[0] for x in v]) for k, v in by_run[i].items()}})
            else:
                ctx.count("outside-model(corrupt/oversize)")
            c = couts[i]
            if "drv_error" in c or not c.get("ok"):
                nbad += 1
                if nbad <= 6:
                    j = c.get("bad")
                    ev = real["events"][j] if isinstance(j, int) and j < len(real["events"]) else "end of trace: a private directory is still live"
                    broken.append(Broken("correspondence", "c09.confined", f"the Lean acceptor rejects the observed trace at {ev!r} ({c.get('drv_error', '')})",
                                         case={"spec": spec}))
        ctx.coverage["mismatching_archives"] = nbad
    finally:
        sb.destroy()
    if violations:
        first = {}
        for v in violations:
            first.setdefault(v.key, v)
        violations = confirm_fresh(ctx, list(first.values()), budget=6)
    return {"broken": broken, "violations": violations}


# ============================================================================ search / replay / witnesses
_WARM = [False]


def _warm(sb):
    """first-use effects of the interpreter that are not the library's doing (mimetypes reads /etc/mime.types once,
    extractor modules are imported lazily) must not show up in the observed traces"""
    if _WARM[0]:
        return
    import importlib
    from sharepoint2text.parsing import router
    from sharepoint2text.parsing.extractors import archive_extractor as ae
    mimetypes.init()
    for _, (modname, _fn) in router._EXTRACTOR_REGISTRY.items():
        try:
            importlib.import_module(modname)
        except Exception:
            pass
    for spec in CORPUS[:2] + [CORPUS[6], CORPUS[7]]:
        try:
            list(ae.read_archive(io.BytesIO(build_archive(spec, sb)), path="warm"))
        except Exception:
            pass
    _WARM[0] = True


def _oracle_specs(ctx, specs, limit_s=50, history=None):
    import time
    t0 = time.time()
    ro = _ro_prefixes()
    sb = Sandbox("CANARY0")
    found = {}
    try:
        _warm(sb)
        for h in history or []:     # archives the process handled before the failing one (state kept between archives)
            try:
                run_real({**h, "consumer": ["exhaust"]}, sb)
            except Exception as e:
                ctx.notes.append(f"history archive crashed: {type(e).__name__}: {e}")
        for spec in specs:
            if time.time() - t0 > limit_s:
                break
            try:
                res = oracle(ctx, spec, sb, ro)
            except Exception as e:  # a crashing builder is not a violation
                ctx.notes.append(f"oracle crashed on a spec: {type(e).__name__}: {e}")
                continue
            for key, what in res:
                k = ("7z." if spec["fmt"] == "7z" and key.startswith(("host-file-content", "results-depend", "fs-access")) else "") + key
                if k not in found:
                    big = any(len(m.get("data", "")) > 65536 for m in spec["members"])
                    found[k] = Violation(k, what, {"bigspec": _big_descr(spec)} if big else {"spec": spec})
    finally:
        sb.destroy()
    return list(found.values())


def _fresh_fails(spec, history) -> bool:
    """does the property fail on `spec` in a FRESH interpreter, after handling the `history` archives?"""
    import subprocess
    fd, path = tempfile.mkstemp(prefix="c09fresh_", suffix=".json")
    try:
        with os.fdopen(fd, "w") as fh:
            json.dump({"property": "C09", "replay": {"spec": spec, "history": history}}, fh)
        runpy = os.path.join(os.path.dirname(os.path.abspath(__file__)), "..", "run.py")
        try:
            r = subprocess.run([sys.executable, runpy, "C09", "--replay", path], capture_output=True, text=True, timeout=120)
        except subprocess.TimeoutExpired:
            return False
        return "REPLAY-FAILS" in r.stdout
    finally:
        try:
            os.unlink(path)
        except OSError:
            pass


def _basenames(spec):
    return {os.path.basename(m["name"].rstrip("/")) for m in spec.get("members", []) if isinstance(m.get("name"), str)}


def confirm_fresh(ctx, vs, budget=10):
    """A failing archive must fail when replayed in a fresh process.  If it does not, the failure depends on what the
    process did before (state kept between archives / calls): the earlier archives of this process that share a member
    basename with it are put in front as `history` (shrunk to one archive when one suffices) and the replay runs them
    first; a failure that cannot be reproduced either way is reported without a failing input."""
    out = []
    for v in vs:
        spec = v.replay.get("spec") if isinstance(v.replay, dict) else None
        if not isinstance(spec, dict) or budget <= 0 or v.replay.get("history"):
            out.append(v)
            continue
        budget -= 1
        if _fresh_fails(spec, []):
            out.append(v)
            continue
        names = _basenames(spec)
        pos = max((i for i, h in enumerate(_HISTORY) if h is spec), default=len(_HISTORY))
        prior = [h for h in _HISTORY[:pos] if h is not spec and names & _basenames(h)
                 and not any(len(m.get("data", "")) > 65536 for m in h["members"])][-12:]
        # state left by direct calls (not archives) is re-created by an archive holding the same basenames outside any
        # special directory, in each format's loop
        plain = {"fmt": spec["fmt"], "layout": "solid", "consumer": ["exhaust"], "max_memory": spec.get("max_memory"),
                 "members": [{"name": "d/" + n, "kind": "file", "data": "history member"} for n in sorted(names) if n]}
        hist = None
        for cand in ([plain], prior, prior + [plain]):
            if cand and budget > 0:
                budget -= 1
                if _fresh_fails(spec, cand):
                    hist = cand
                    break
        if hist is None:
            out.append(Violation(v.key, v.what + " — fails only in the process of this run: NOT reproduced in a fresh process, "
                                 "neither alone nor after the earlier archives sharing a member name", v.replay, found_input=False))
            continue
        for h in reversed(hist):
            if len(hist) > 1 and budget > 0:
                budget -= 1
                if _fresh_fails(spec, [h]):
                    hist = [h]
                    break
        out.append(Violation(v.key, v.what + f" — only after {len(hist)} earlier archive(s) handled by the same process (replayed first)",
                             {"spec": spec, "history": hist}))
    return out


def _shrinks(spec):
    out = [spec]
    ms = spec["members"]
    for i in range(len(ms)):
        out.append({**spec, "members": [ms[i]], "consumer": ["exhaust"]})
    out.append({**spec, "consumer": ["exhaust"]})
    return out


def search(ctx, broken):
    specs = []
    for b in broken:
        if b.case and isinstance(b.case.get("spec"), dict) and isinstance(b.case["spec"].get("members"), list):
            specs += _shrinks(b.case["spec"])
        if b.case and b.case.get("fn") == "safejoin" and isinstance(b.case.get("b"), str):
            # the join / containment function misbehaves on this name: hand it, and escape forms written with the same
            # separator characters, to the real reader as a member with data and as a header-only entry
            nm = b.case["b"]
            seps = [c for c in ("\\", "/") if c in nm] or ["/"]
            cands = [nm]
            for sp in seps:
                cands += [sp.join(["..", "..", "secret.txt"]), sp.join(["d", "..", "..", "..", "secret.txt"]), sp.join(["..", "evil.txt"]),
                          sp.join(["..", "..", "cwd", "x.txt"])]
            for c in cands:
                specs.append({"fmt": "7z", "layout": "solid", "consumer": ["exhaust"], "max_memory": None,
                              "members": [{"name": c, "kind": "file", "data": "plain payload"}]})
                specs.append({"fmt": "7z", "layout": "solid", "consumer": ["exhaust"], "max_memory": None,
                              "members": [{"name": "d/keep.txt", "kind": "file", "data": "kept"}, {"name": c, "kind": "orphan", "data": ""}]})
        if b.case and "name" in b.case:
            for fmt in ("zip", "7z", "tar"):
                specs.append({"fmt": fmt, "layout": "solid", "consumer": ["exhaust"], "max_memory": None, "members": [
                    {"name": b.case["name"], "kind": "file", "data": _inner_tar_gz(0)},
                    {"name": b.case["name"], "kind": "file", "data": "plain payload"}][: 2 if fmt != "7z" else 1]})
        if b.case and isinstance(b.case.get("bigspec"), dict):
            try:
                specs.append(_big_expand(b.case["bigspec"]))
            except Exception:
                pass
    specs += attr_battery() + bypass_battery() + [w for _, w in WITNESSES] + CORPUS
    for _ in range(ctx.n(150, 1500)):
        specs.append(gen_spec(ctx.rng))
    vs = _oracle_specs(ctx, specs, limit_s=ctx.n(50, 500))
    # prefer the single-member reproductions: keep the first violation per key (shrinks come first)
    return confirm_fresh(ctx, vs)


def _probe_witness(ctx):
    """open known finding `member-metadata-probes-host`: with path=None a member named like an existing host file gets
    its metadata resolved against the host file system (FileMetadataInterface.populate_from_path)."""
    from sharepoint2text.parsing.extractors.archive_extractor import read_archive
    sb = Sandbox("CANARY0")
    try:
        bio = io.BytesIO()
        with zipfile.ZipFile(bio, "w") as zf:
            zf.writestr("x.txt", "member bytes")
        blob = bio.getvalue()
        with sb:
            present = [_canon_result(r) for r in read_archive(io.BytesIO(blob))]
            os.rename(os.path.join(sb.cwd, "x.txt"), os.path.join(sb.cwd, "x.moved"))
            absent = [_canon_result(r) for r in read_archive(io.BytesIO(blob))]
        a, b = [r["path"] for r in present], [r["path"] for r in absent]
        if a != b:
            return [Violation("member-metadata-probes-host",
                              f"same archive bytes (zip with member 'x.txt', path=None): metadata.file_path is {a} when the working directory "
                              f"has a file x.txt and {b} when it has not (populate_from_path stats/resolves the synthetic member path on the host)",
                              {"witness": "zip{x.txt} path=None, cwd with/without x.txt"})]
        ctx.notes.append("known finding member-metadata-probes-host: the committed witness no longer fails (fixed?)")
        return []
    finally:
        sb.destroy()


def known_witnesses(ctx):
    """the witnesses of the two defects repaired by the fix patches, replayed on the real code on every run, and the
    witness of the open finding"""
    vs = _oracle_specs(ctx, [w for _, w in WITNESSES], limit_s=30)
    return vs + _probe_witness(ctx)


def replay(ctx, payload):
    rep = payload.get("replay", {})
    spec = rep.get("spec")
    if not isinstance(spec, dict) and isinstance(rep.get("bigspec"), dict):
        spec = _big_expand(rep["bigspec"])
    if not isinstance(spec, dict):
        return False, "replay names a broken obligation, not an input: " + payload.get("what", "")
    vs = _oracle_specs(ctx, [spec], history=rep.get("history") if isinstance(rep.get("history"), list) else None)
    return (not vs), "; ".join(f"{v.key}: {v.what}" for v in vs) or "property holds on the recorded archive"
