"""C13, slide level — which tables of a slide come back and in which order (PPTX `_process_slide_from_context`,
ODP `_extract_slide`).  Part of property C13; called from props/c13.py.

corr(ctx): model (S2T.Model.TablesSlide through the driver ops c13.slide.*) vs the REAL code.
  structured stream: abstract slides / pages written by the Lean `slideRoot` / `pageNode` (the objects of the theorems of
    Props/C13_Slide.lean), packed into real .pptx / .odp containers and read by the real read_pptx / read_odp, and handed as
    element trees to the real `_process_slide_from_context` / `_extract_slide`; the answer must equal the model AND the
    right-hand side of the theorems (`spec_stripped` / `spec`); the Lean spec must equal the Python ground truth.
  malformed stream: random / mutated shape trees (missing xfrm, non-numeric / signed / spaced x and y, equal positions,
    nested groups, placeholders with type / idx, frames that are not tables, frames inside frames, several shape trees):
    tables, the ORDER in which the real main loop visits the graphic frames (observed by wrapping
    `_extract_table_from_graphic_frame`), and `_get_shape_position` of single elements.
oracle(fmt, case) for fmt in ("pptxslide", "odpslide"): the STATEMENT on the real code against a Python ground truth that does
  not involve the Lean model: the tables of the slide that have at least one row, in (y, x) order, ties in document order,
  every cell in place.
"""
from __future__ import annotations

import io
import json
import re
import types
from fractions import Fraction

from run import Broken, Violation
from builders import c13b
from builders.c13b import ET, A, P, DRAW, OFFICE, TABLE, TEXT, PRES

GEN = ["TablesSlide"]
FORMATS = ["pptxslide", "odpslide"]
ASSUMPTIONS = [
    "slide level: list.sort(key=...) is THE stable ascending sort by key (modelled as a stable insertion sort that is proved sorted, "
    "stable and a permutation); tuple comparison is lexicographic",
    "slide level, PPTX: int() of a:off/@x,@y and of p:ph/@idx and str.isdigit() are modelled for plain ASCII forms "
    "(ws* [+-]? digit+ ws*) only; '_' separators and non-ASCII digits are not generated",
    "slide level, ODP: _parse_odf_length_to_px is a parameter of the model and of the theorems (any function into any linear order); "
    "the correspondence instantiates it by exact rational arithmetic for ASCII strings - float rounding is not modelled, "
    "so pages whose keys differ by less than 1e-6 px without being written identically are not generated",
    "slide level: only PptxSlide.tables / OdpSlide.tables are modelled (text, images, formulas, comments, notes are not); "
    "_extract_image and the text-box branch of _extract_slide are assumed not to raise",
    "slide level, ODP: a draw:frame offset with a minus sign is read as 0 by the current _ODF_LENGTH_RE (finding odp.negative-offset-sorted-as-zero, "
    "repair /tmp/w/C13d/fix-odp-negative-offset.patch): the generated model reads the sign exactly when the library's expression does "
    "(Gen.TablesSlide.odpLengthSigned), the oracle's ground truth always does; other valid ODF spellings the expression rejects (.5cm, 5.cm) are not generated",
    "slide level: a table without rows is not a table of the statement (both extractors drop it: `if table_data:`); "
    "frames written without a position sort as (999999999, 999999999) in PPTX and as 0 in ODP - this is the code's reading order "
    "and what 'source order' is taken to mean on a slide",
]

SVG = "{urn:oasis:names:tc:opendocument:xmlns:svg-compatible:1.0}"
C_NS = "{http://schemas.openxmlformats.org/drawingml/2006/chart}"
CHART_URI = "http://schemas.openxmlformats.org/drawingml/2006/chart"
NOPOS = (999999999, 999999999)


def _c13():
    from props import c13
    return c13


def _px():
    return _c13()._mod("ms_modern.pptx_extractor")


def _ox():
    return _c13()._mod("open_office.odp_extractor")


# ----------------------------------------------------------------------------- Python reference writers (independent of Lean)
def _off(parent, tag, pos):
    if pos is not None:
        x = ET.SubElement(parent, tag)
        ET.SubElement(x, A + "off", {"x": str(pos[1]), "y": str(pos[0])})
        ET.SubElement(x, A + "ext", {"cx": "100", "cy": "100"})


def py_shape(sh) -> ET.Element:
    k = sh[0]
    if k == "frame":
        fr = c13b.py_pptx_frame(sh[2])
        if sh[1] is not None:
            x = ET.Element(P + "xfrm")
            ET.SubElement(x, A + "off", {"x": str(sh[1][1]), "y": str(sh[1][0])})
            ET.SubElement(x, A + "ext", {"cx": "100", "cy": "100"})
            fr.insert(1, x)
        return fr
    if k == "chart":
        fr = ET.Element(P + "graphicFrame")
        ET.SubElement(fr, P + "nvGraphicFramePr")
        _off(fr, P + "xfrm", sh[1])
        gd = ET.SubElement(ET.SubElement(fr, A + "graphic"), A + "graphicData", {"uri": CHART_URI})
        ET.SubElement(gd, C_NS + "chart")
        return fr
    if k == "sp":
        sp = ET.Element(P + "sp")
        nv = ET.SubElement(sp, P + "nvSpPr")
        ET.SubElement(nv, P + "cNvPr", {"id": "2", "name": "s"})
        ET.SubElement(nv, P + "cNvSpPr")
        nvpr = ET.SubElement(nv, P + "nvPr")
        if sh[2] is not None:
            at = {}
            if sh[2][0]:
                at["type"] = sh[2][0]
            if sh[2][1]:
                at["idx"] = sh[2][1]
            ET.SubElement(nvpr, P + "ph", at)
        _off(ET.SubElement(sp, P + "spPr"), A + "xfrm", sh[1])
        body = ET.SubElement(sp, P + "txBody")
        ET.SubElement(body, A + "bodyPr")
        ET.SubElement(ET.SubElement(ET.SubElement(body, A + "p"), A + "r"), A + "t").text = sh[3]
        return sp
    if k == "pic":
        pic = ET.Element(P + "pic")
        nv = ET.SubElement(pic, P + "nvPicPr")
        ET.SubElement(nv, P + "cNvPr", {"id": "3", "name": "p", "descr": "d"})
        ET.SubElement(nv, P + "nvPr")
        ET.SubElement(ET.SubElement(pic, P + "blipFill"), A + "blip")
        _off(ET.SubElement(pic, P + "spPr"), A + "xfrm", sh[1])
        return pic
    if k == "cxn":
        return ET.Element(P + "cxnSp")
    if k == "group":
        g = ET.Element(P + "grpSp")
        ET.SubElement(g, P + "nvGrpSpPr")
        gp = ET.SubElement(g, P + "grpSpPr")
        _off(gp, A + "xfrm", (7, 7))          # the group's own offset: must not be taken for a frame's
        for s in sh[1]:
            g.append(py_shape(s))
        return g
    raise KeyError(k)


# non-visual properties: every shape of a slide carries <p:cNvPr id=… name=…> below its nv*Pr child.  The statement does not
# depend on them, so a slide is written under an id POLICY (`ids`): None = as the writers above leave it (frames without
# cNvPr, every p:sp id 2, every p:pic id 3), or [mode, arg]: "unique" (2, 3, 4, … in document order, as PowerPoint numbers
# them), "const" (every shape the same id: a generator writing a constant), "list" (ids taken cyclically from arg: copied /
# merged shapes that were not renumbered, ids missing (None) or empty), and the names likewise ("Table 1" for every table).
NV_CHILD = {P + "sp": P + "nvSpPr", P + "pic": P + "nvPicPr", P + "graphicFrame": P + "nvGraphicFramePr",
            P + "grpSp": P + "nvGrpSpPr", P + "cxnSp": P + "nvCxnSpPr"}
ID_POOL = ["2", "3", "4", "4", "7", "1", "0", "", None, "4294967295", "x"]


def stamp_ids(elems, ids):
    """write the id policy into the shape elements (document order, groups included); returns elems"""
    if not ids:
        return elems
    mode, arg = ids[0], (ids[1] if len(ids) > 1 else None)
    k = 0
    for top in elems:
        for e in top.iter():
            if e.tag not in NV_CHILD:
                continue
            nv = e.find(NV_CHILD[e.tag])
            if nv is None:
                nv = ET.Element(NV_CHILD[e.tag])
                e.insert(0, nv)
            c = nv.find(P + "cNvPr")
            if c is None:
                c = ET.Element(P + "cNvPr")
                nv.insert(0, c)
            sid = str(2 + k) if mode == "unique" else (arg if mode == "const" else arg[k % len(arg)])
            for a in ("id", "name"):
                c.attrib.pop(a, None)
            if sid is not None:
                c.set("id", sid)
            c.set("name", "Table 1" if mode != "unique" else f"Shape {k + 1}")
            k += 1
    return elems


def gen_ids(rng):
    r = rng.random()
    if r < 0.25:
        return None
    if r < 0.5:
        return ["unique"]
    if r < 0.7:
        return ["const", rng.choice(["4", "2", "3", "1", "0", ""])]
    return ["list", [rng.choice(ID_POOL) for _ in range(rng.randint(1, 4))]]


def py_slide_kids(shapes, ids=None) -> list:
    """children of p:spTree as PowerPoint writes them"""
    nv = ET.Element(P + "nvGrpSpPr")
    gp = ET.Element(P + "grpSpPr")
    return [nv, gp] + stamp_ids([py_shape(s) for s in shapes], ids)


def py_slide_root(shapes, ids=None) -> ET.Element:
    sld = ET.Element(P + "sld")
    tree = ET.SubElement(ET.SubElement(sld, P + "cSld"), P + "spTree")
    for k in py_slide_kids(shapes, ids):
        tree.append(k)
    return sld


def py_odp_page(items) -> ET.Element:
    page = ET.Element(DRAW + "page", {DRAW + "name": "page1"})
    for it in items:
        if it[0] == "other":
            page.append(c13b.et_from_json(it[1]))
            continue
        _, y, x, content = it
        at = {}
        if x is not None:
            at[SVG + "x"] = x
        if y is not None:
            at[SVG + "y"] = y
        fr = ET.SubElement(page, DRAW + "frame", at)
        if content[0] == "t":
            fr.append(c13b.py_odf_blk(["t", content[1], [[[["p", p] for p in cell] for cell in row] for row in content[2]]]))
        else:
            for n in content[1]:
                fr.append(c13b.et_from_json(n))
    return page


def odp_package(page: ET.Element) -> bytes:
    pres = ET.Element(OFFICE + "presentation")
    pres.append(page)
    return c13b.odf_package("odp", pres)


# ----------------------------------------------------------------------------- ground truth (independent of Lean)
def flat_frames(shapes):
    out = []
    for s in shapes:
        if s[0] in ("frame", "chart"):
            out.append(s)
        elif s[0] == "group":
            out += flat_frames(s[1])
    return out


def pptx_truth(shapes):
    """(tables as the statement wants them, the same with stripped cell texts)"""
    fr = flat_frames(shapes)
    keyed = sorted(range(len(fr)), key=lambda i: (tuple(fr[i][1]) if fr[i][1] is not None else NOPOS, i))
    full = []
    for i in keyed:
        f = fr[i]
        if f[0] == "frame" and len(f[2]) > 0:
            full.append([[c13b.pptx_cell_text(c) for c in row] for row in f[2]])
    return full, [[[x.strip() for x in row] for row in t] for t in full]


_LEN = {True: re.compile(r"^[ \t\n\r\f\v]*(-?[0-9]+(?:\.[0-9]+)?)[ \t\n\r\f\v]*([a-zA-Z]+)?[ \t\n\r\f\v]*$"),
        False: re.compile(r"^[ \t\n\r\f\v]*([0-9]+(?:\.[0-9]+)?)[ \t\n\r\f\v]*([a-zA-Z]+)?[ \t\n\r\f\v]*$")}
_UNIT = {"px": Fraction(1), "in": Fraction(96), "cm": Fraction(9600, 254), "mm": Fraction(960, 254), "pt": Fraction(96, 72),
         "pc": Fraction(16)}


def len_px(v, signed=True):
    """-> (Fraction, canonical spelling) of an ODF length; 0 for anything that is not one.  signed=True is the statement's
    reading (an offset has a sign); signed=False is what a reader without `-?` makes of it (negative offsets become 0)"""
    if not v:
        return Fraction(0), ("0", "")
    m = _LEN[signed].match(v)
    if not m:
        return Fraction(0), ("0", "")
    unit = (m.group(2) or "px").lower()
    num = Fraction(m.group(1))
    return num * _UNIT.get(unit, Fraction(1)), (str(num), unit if unit in _UNIT else "")


def library_signed() -> bool:
    """does the library's length expression know the sign? (False on the current source: finding odp.negative-offset-sorted-as-zero)"""
    return bool(_ox()._ODF_LENGTH_RE.match("-1cm"))


def has_negative(items) -> bool:
    return any(it[0] == "frame" and any(len_px(v)[0] < 0 for v in it[1:3]) for it in items)


def odp_float_safe(values) -> bool:
    """exact and float comparison of these lengths agree for sure (under both readings of a minus sign): equal values are
    spelled with the same number and unit, different values are more than 1e-6 px apart"""
    for signed in (True, False):
        vals = [len_px(v, signed) for v in values]
        for i in range(len(vals)):
            for j in range(i + 1, len(vals)):
                a, b = vals[i], vals[j]
                if a[0] == b[0]:
                    if a[1] != b[1] and a[0] != 0:
                        return False
                elif abs(a[0] - b[0]) <= Fraction(1, 10 ** 6) * max(1, abs(a[0]), abs(b[0])):
                    return False
                if max(abs(a[0]), abs(b[0])) > 10 ** 12:
                    return False
    return True


def odp_truth(items, signed=True):
    fr = [it for it in items if it[0] == "frame"]
    keyed = sorted(range(len(fr)), key=lambda i: (len_px(fr[i][1], signed)[0], len_px(fr[i][2], signed)[0], i))
    out = []
    for i in keyed:
        c = fr[i][3]
        if c[0] == "t" and len(c[2]) > 0:
            out.append([[c13b.odf_cell_text(cell) for cell in row] for row in c[2]])
    return out


# ----------------------------------------------------------------------------- real code adaptors
def _pptx_ctx(root):
    return types.SimpleNamespace(get_slide_relationships=lambda p: {}, get_slide_root=lambda p: root,
                                 get_comment_root=lambda n: None, get_image_data=lambda p: None)


def real_pptx_slide(root: ET.Element, want_order=False):
    """real _process_slide_from_context on a slide root -> tables (and the `vid` of the graphic frames in the order visited)"""
    px = _px()
    visited = []
    orig = px._extract_table_from_graphic_frame

    def rec(elem):
        visited.append(elem.get("vid"))
        return orig(elem)
    px._extract_table_from_graphic_frame = rec
    try:
        try:
            tables = px._process_slide_from_context(_pptx_ctx(root), "ppt/slides/slide1.xml", 1).tables
        except Exception as e:  # noqa: BLE001
            tables = f"ERR:{type(e).__name__}"
    finally:
        px._extract_table_from_graphic_frame = orig
    return (tables, visited) if want_order else tables


def real_odp_slide(page: ET.Element):
    ox = _ox()
    ctx = types.SimpleNamespace(exists=lambda p: False, read_bytes=lambda p: b"")
    try:
        return ox._extract_slide(ctx, page, 1, 0)[0].tables
    except Exception as e:  # noqa: BLE001
        return f"ERR:{type(e).__name__}"


def _reparse(e: ET.Element) -> ET.Element:
    return ET.fromstring(ET.tostring(e, encoding="utf-8"))


# ----------------------------------------------------------------------------- generators
POS_Y = [0, 0, 1000, 1000, 1000, 2500, 914400, 5143500, -5, -1000, 12192000, 999999999, 999999998, 1]
POS_X = [0, 0, 20, 500, 500, 457200, 9144000, -7, 999999999, 3]


def gen_pos(rng, p_none=0.15):
    if rng.random() < p_none:
        return None
    if rng.random() < 0.15:
        return [rng.randint(-10 ** 7, 10 ** 7), rng.randint(-10 ** 7, 10 ** 7)]
    return [rng.choice(POS_Y), rng.choice(POS_X)]


PH_TYPES = ["title", "ctrTitle", "body", "subTitle", "obj", "tbl", "ftr", "sldNum", "dt", "pic", "", "", "Title"]
PH_IDX = ["", "", "0", "1", "12", " 3", "x", "-1", "1.5", "007", "10"]


def gen_shape(rng, trimmed, depth=2):
    c13 = _c13()
    r = rng.random()
    if r < 0.45:
        t = c13.gen_pptx_table(rng, trimmed=trimmed)
        if rng.random() < 0.08:
            t = []                      # a table without rows
        elif rng.random() < 0.05:
            t = [[]] + t                # a row without cells
        return ["frame", gen_pos(rng), t]
    if r < 0.55:
        return ["chart", gen_pos(rng)]
    if r < 0.72:
        ph = None if rng.random() < 0.4 else [rng.choice(PH_TYPES), rng.choice(PH_IDX)]
        return ["sp", gen_pos(rng, 0.3), ph, rng.choice(["Title", "text", "x y", "ä"])]
    if r < 0.82:
        return ["pic", gen_pos(rng, 0.3)]
    if r < 0.86:
        return ["cxn"]
    if depth > 0:
        return ["group", [gen_shape(rng, trimmed, depth - 1) for _ in range(rng.randint(0, 3))]]
    return ["frame", gen_pos(rng), c13.gen_pptx_table(rng, trimmed=trimmed)]


def gen_slide(rng, trimmed=False):
    shapes = [gen_shape(rng, trimmed) for _ in range(rng.randint(1, 6))]
    if not any(f[0] == "frame" and f[2] for f in flat_frames(shapes)):
        shapes.insert(rng.randint(0, len(shapes)), ["frame", gen_pos(rng), _c13().gen_pptx_table(rng, trimmed=trimmed)])
    return shapes


LEN_NUM = ["0", "1", "2", "2.5", "10", "12.5", "3", "7", "25.4", "2.54", "0.5", "100", "19.05", "1.000", "33"]
LEN_UNIT = ["cm", "cm", "cm", "in", "mm", "pt", "pc", "px", "", "CM", "In", "foo"]
LEN_ODD = ["", "abc", "+2cm", "1e3", "5 c m", ".5cm", "5.cm", "1.2.3cm", "cm", "0x10", "1,5cm", "1_0cm", "--1cm", "- 1cm", "-cm"]
LEN_NEG = ["-3cm", "-1cm", "-2cm", "-0.5in", "-12.5mm", " -7 ", "-0cm", "-1.000cm"]


def gen_len(rng, odd=0.12, none=0.1, neg=0.0):
    r = rng.random()
    if r < none:
        return None
    if r < none + odd:
        return rng.choice(LEN_ODD)
    if r < none + odd + neg:
        return rng.choice(LEN_NEG)
    s = rng.choice(LEN_NUM) + (" " if rng.random() < 0.1 else "") + rng.choice(LEN_UNIT)
    if rng.random() < 0.1:
        s = " " + s + " "
    return s


def _n(tag, kids=(), attrs=(), text=""):
    return [tag, [list(a) for a in attrs], text, list(kids), ""]


def gen_other_content(rng):
    k = rng.random()
    if k < 0.5:
        return [_n(DRAW + "text-box", [_n(TEXT + "p", text=rng.choice(["Title", "body text", "x"]))])]
    if k < 0.7:
        return [_n(DRAW + "image")]
    if k < 0.85:
        return []
    return [_n(DRAW + "object")]


def gen_page(rng, negatives=False):
    """negatives: offsets with a minus sign may occur (the shape of the finding odp.negative-offset-sorted-as-zero)"""
    c13 = _c13()
    neg = 0.2 if negatives else 0.0
    for _ in range(50):
        items = []
        for _ in range(rng.randint(1, 6)):
            r = rng.random()
            if r < 0.55:
                t = c13.gen_blk(rng, c13.gen_odf_para, 0, False, allow_empty_cell=False)
                rows = [[[x[1] for x in cell] for cell in row] for row in t[2]]
                if rng.random() < 0.08:
                    rows, t = [], ["t", 0, []]
                items.append(["frame", gen_len(rng, neg=neg), gen_len(rng, neg=neg), ["t", t[1] if rows else 0, rows]])
            elif r < 0.85:
                items.append(["frame", gen_len(rng, neg=neg), gen_len(rng, neg=neg), ["o", gen_other_content(rng)]])
            else:
                items.append(["other", rng.choice([_n(DRAW + "custom-shape"), _n(PRES + "notes", [_n(DRAW + "frame")]), _n(DRAW + "g", [_n(DRAW + "frame")])])])
        if rng.random() < 0.4 and len(items) > 1:   # equal positions, written identically
            a, b = rng.sample(range(len(items)), 2)
            if items[a][0] == "frame" and items[b][0] == "frame":
                items[b][1], items[b][2] = items[a][1], items[a][2]
        if not any(it[0] == "frame" and it[3][0] == "t" and it[3][2] for it in items):
            continue
        fr = [it for it in items if it[0] == "frame"]
        if odp_float_safe([f[1] for f in fr]) and odp_float_safe([f[2] for f in fr]):
            return items
    return [["frame", "1cm", "1cm", ["t", 0, [[[["a", []]]]]]]]


# ----------------------------------------------------------------------------- oracle
def gen_case(rng, fmt, known_shapes=False):
    if fmt == "pptxslide":
        return {"shapes": gen_slide(rng, trimmed=not known_shapes), "ids": gen_ids(rng)}
    if fmt == "odpslide":
        return {"items": gen_page(rng, negatives=known_shapes)}
    raise KeyError(fmt)


def oracle(fmt, case):
    c13 = _c13()
    if fmt == "pptxslide":
        shapes = case["shapes"]
        full, stripped = pptx_truth(shapes)
        res = c13._read("pptx", c13b.pptx_package([py_slide_kids(shapes, case.get("ids"))]))
        return c13._check_tables(fmt, res, full, case, known=[("pptx.cell-outer-whitespace-stripped", stripped)])
    if fmt == "odpslide":
        items = case["items"]
        res = c13._read("odp", odp_package(py_odp_page(items)))
        known = [("odp.negative-offset-sorted-as-zero", odp_truth(items, signed=False))] if has_negative(items) else []
        return c13._check_tables(fmt, res, odp_truth(items), case, known=known)
    raise KeyError(fmt)


# committed witness of the (proposed) open finding: C13_slide_odp_negative_counterexample on the real code
WITNESSES = {
    "odp.negative-offset-sorted-as-zero": ("odpslide", {"items": [
        ["frame", "-1cm", None, ["t", 0, [[[["low", []]]]]]], ["frame", "-2cm", None, ["t", 0, [[[["high", []]]]]]]]}),
}


def case_from_broken(c):
    fmt = c.get("fmt")
    if fmt in ("pptxslide", "pptxslide-tree") and "shapes" in c:
        return "pptxslide", {"shapes": c["shapes"], "ids": c.get("ids")}
    if fmt == "odpslide" and "items" in c:
        return fmt, {"items": c["items"]}
    return None


# ----------------------------------------------------------------------------- correspondence
# the concrete values of the theorems / examples of Props/C13_Slide.lean, replayed on the real code each run
CORPUS_PPTX = [
    # C13_slide_pptx_reading_order_example
    ([["frame", [2000, 0], [[[[["r", "1st"]]]]]], ["frame", [1000, 0], [[[[["r", "2nd"]]]]]]], [[["2nd"]], [["1st"]]]),
    # exampleSlide
    ([["pic", [5, 5]], ["frame", [3000, 10], [[[[["r", "late"]]]]]],
      ["group", [["cxn"], ["frame", [1000, 500], [[[[["r", "g"]]], []]]]]], ["chart", [0, 0]],
      ["frame", [1000, 20], [[[[["r", "a b"], ["br"], ["f", "1"]]]]]], ["frame", [1000, 20], []],
      ["frame", None, [[[[["r", "no"]]]]]], ["frame", [-5, 7], [[]]]],
     [[[]], [["a b\x0b1"]], [["g", ""]], [["late"]], [["no"]]]),
]
CORPUS_ODP = [
    # examplePage / C13_slide_odp_example
    ([["frame", "1cm", "1cm", ["o", [_n(DRAW + "text-box")]]],
      ["frame", "10cm", "2cm", ["t", 1, [[[["h", []]]], [[["a", []]], [["b", [["tab", "c"]]]]]]]],
      ["frame", "1in", None, ["t", 0, [[[["top", []]]]]]], ["frame", None, None, ["t", 0, []]],
      ["other", _n(DRAW + "custom-shape")]],
     [[["top"]], [["h"], ["a", "b\tc"]]]),
]

SLIDE_VOCAB = [P + x for x in ("sp", "sp", "pic", "graphicFrame", "graphicFrame", "grpSp", "spPr", "spPr", "xfrm", "xfrm", "nvSpPr",
                               "nvPr", "ph", "spTree", "nvGraphicFramePr", "txBody", "cxnSp", "grpSpPr")] \
    + [A + x for x in ("xfrm", "xfrm", "off", "off", "ext", "graphic", "graphicData", "tbl", "tr", "tc", "txBody", "p", "r", "t")]
INTS = ["0", "12", " 7 ", "-5", "+3", "007", "", "x", "1.5", "1e3", "--1", "- 1", " +4\n", "1000", "999999999", "-0", "12a", "9"]


def _retouch(rng, tree):
    """attribute-level mutations of a slide tree: offsets and placeholder attributes"""
    c13 = _c13()
    nodes = c13._nodes(tree)
    for _ in range(rng.randint(0, 3)):
        n, _par = rng.choice(nodes)
        if n[0] == A + "off":
            at = {}
            if rng.random() < 0.85:
                at["x"] = rng.choice(INTS)
            if rng.random() < 0.85:
                at["y"] = rng.choice(INTS)
            n[1] = [[k, v] for k, v in at.items()]
        elif n[0] == P + "ph":
            at = {}
            if rng.random() < 0.7:
                at["type"] = rng.choice(PH_TYPES)
            if rng.random() < 0.7:
                at["idx"] = rng.choice(PH_IDX)
            n[1] = [[k, v] for k, v in at.items()]
        elif n[0] == A + "graphicData":
            n[1] = [["uri", rng.choice([c13b.TABLE_URI, c13b.TABLE_URI, CHART_URI])]] if rng.random() < 0.8 else []
    return tree


def _rand_slide_tree(rng):
    c13 = _c13()

    def node(depth):
        tag = rng.choice(SLIDE_VOCAB)
        attrs = []
        if tag == A + "off":
            attrs = [[k, rng.choice(INTS)] for k in ("x", "y") if rng.random() < 0.8]
        elif tag == P + "ph":
            attrs = [[k, rng.choice(v)] for k, v in (("type", PH_TYPES), ("idx", PH_IDX)) if rng.random() < 0.7]
        elif tag == A + "graphicData":
            attrs = [["uri", rng.choice([c13b.TABLE_URI, c13b.TABLE_URI, CHART_URI])]]
        kids = [node(depth - 1) for _ in range(rng.choice([0, 1, 2, 2, 3]))] if depth > 0 else []
        return [tag, attrs, c13.gen_text(rng, empty=0.6), kids, ""]
    tree = node(rng.randint(3, 5))
    tree[0] = P + "spTree"
    return [P + "sld", [], "", [[P + "cSld", [], "", [tree], ""]], ""]


def _tag_vids(tree):
    """give every element a unique `vid` attribute (identifies the graphic frames in the visiting order)"""
    i = 0
    stack = [tree]
    while stack:
        n = stack.pop()
        n[1] = [kv for kv in n[1] if kv[0] != "vid"] + [["vid", str(i)]]
        i += 1
        stack.extend(reversed(n[3]))
    return tree


def corr(ctx):
    rng = ctx.rng
    c13 = _c13()
    px, ox = _px(), _ox()
    signed = library_signed()
    ctx.count("odpslide/library-reads-the-sign/" + ("yes" if signed else "no"))
    broken = []
    n_bad = 0

    def bad(name, detail, case):
        nonlocal n_bad
        n_bad += 1
        if n_bad <= 12:
            broken.append(Broken("correspondence", name, detail[:1500], case=case))

    # ---- PPTX structured stream: Lean-written slides (the objects of the theorems)
    slides = [s for s, _ in CORPUS_PPTX] + [gen_slide(rng) for _ in range(ctx.n(90, 1500))]
    outs = ctx.drive([{"op": "c13.slide.render", "fmt": "pptx", "shapes": s} for s in slides])
    for i, (shapes, o) in enumerate(zip(slides, outs)):
        case = {"fmt": "pptxslide", "shapes": shapes}
        if "drv_error" in o:
            bad("driver:c13.slide.render:pptxslide", o["drv_error"], case)
            continue
        frames = flat_frames(shapes)
        ctx.case(("pptxslide", json.dumps(shapes)), nontrivial=any(f[0] == "frame" and f[2] for f in frames))
        ctx.count("pptxslide/lean-rendered/" + ("ties" if len({json.dumps(f[1]) for f in frames}) < len(frames) else "distinct-positions"))
        full, stripped = pptx_truth(shapes)
        if not o["clean"]:
            bad("hyp:pptxslide", "the rendered slide does not satisfy the hypothesis cleanL of the theorems", case)
        if o["spec"] != full:
            bad("spec:pptxslide", f"Lean spec {o['spec']!r} != python ground truth {full!r}", case)
        if o["spec_stripped"] != o["model"]:
            bad("theorem-instance:pptxslide", f"model {o['model']!r} != right-hand side of C13_slide_pptx_stripped {o['spec_stripped']!r}", case)
        if i < len(CORPUS_PPTX) and o["spec"] != CORPUS_PPTX[i][1]:
            bad("corpus:pptxslide", f"Lean spec {o['spec']!r} != the value stated in Props/C13_Slide.lean {CORPUS_PPTX[i][1]!r}", case)
        kids = [c13b.et_from_json(k) for k in o["kids"]]
        real = c13._read("pptx", c13b.pptx_package([kids]))
        if c13._grids(real) != o["spec_stripped"]:
            bad("render-read:pptxslide", f"impl={c13._grids(real)!r} theorem={o['spec_stripped']!r}", case)
        # the same slide under an id policy (shape ids / names are not part of the statement: C13_slide_pptx_tables holds
        # for EVERY tree, the ids included)
        ids = gen_ids(rng) or ["const", "4"]
        ctx.count("pptxslide/lean-rendered/ids/" + ids[0])
        real_i = c13._read("pptx", c13b.pptx_package([stamp_ids([c13b.et_from_json(k) for k in o["kids"]], ids)]))
        if c13._grids(real_i) != o["spec_stripped"]:
            bad("render-read:pptxslide:ids", f"ids={ids!r} impl={c13._grids(real_i)!r} theorem={o['spec_stripped']!r}",
                dict(case, ids=ids))
        if not c13._dim_ok(real):
            bad("dim:pptxslide", f"get_dim() disagrees: {real!r}", case)
        direct = real_pptx_slide(_reparse(c13b.et_from_json(o["tree"])))
        if direct != o["model"]:
            bad("c13.slide.pptx:pptxslide:lean-rendered", f"impl={direct!r} model={o['model']!r}", case)
        # the Python reference writer's slide (what the oracle uses) read by the model
        if i % 3 == 0:
            ctx.sample({"fmt": "pptxslide", "shapes": shapes, "impl": c13._grids(real), "theorem": o["spec_stripped"]}, cap=8)

    # ---- PPTX malformed stream: mutated / random shape trees; tables, visiting order of the frames, single positions
    reqs, meta = [], []
    for i in range(ctx.n(260, 5000)):
        if i % 4 == 0:
            tree = _rand_slide_tree(rng)
            kind = "random-tree"
        else:
            sl_shapes, sl_ids = gen_slide(rng), gen_ids(rng)
            base = c13b.json_from_et(py_slide_root(sl_shapes, sl_ids))
            tree = base if i % 4 == 1 else c13.mutate_tree(rng, base, SLIDE_VOCAB)
            if i % 8 != 1:      # (a python-written slide left as written keeps its (shapes, ids): a replayable input)
                tree = _retouch(rng, tree)
            kind = "python-written" if i % 4 == 1 else "mutated"
        tree = _tag_vids(tree)
        reqs.append({"op": "c13.slide.pptx", "tree": tree})
        meta.append((tree, kind, (sl_shapes, sl_ids) if i % 8 == 1 else None))
    outs = ctx.drive(reqs)
    pos_reqs, pos_meta = [], []
    for (tree, kind, written), o in zip(meta, outs):
        case = {"fmt": "pptxslide-tree", "tree": tree}
        if written:
            case.update(shapes=written[0], ids=written[1])
            ctx.count("pptxslide/python-written/ids/" + (written[1][0] if written[1] else "none"))
        if "drv_error" in o:
            bad("driver:c13.slide.pptx", o["drv_error"], case)
            continue
        root = c13b.et_from_json(tree)
        real, visited = real_pptx_slide(root, want_order=True)
        model_order = [e[2] for e in o["order"] if e[0] == "graphicFrame"]
        ctx.case(("pptxslide-tree", json.dumps(tree)), nontrivial=bool(real))
        ctx.count(f"pptxslide/{kind}/" + ("tables" if real else "none"))
        if real != o["tables"]:
            bad(f"c13.slide.pptx:pptxslide:{kind}", f"impl={real!r} model={o['tables']!r}", case)
        elif visited != model_order:
            bad(f"c13.slide.pptx:pptxslide:{kind}:frame-order", f"impl visits the frames {visited!r}, model {model_order!r}", case)
        els = [e for e in root.iter() if e.tag in (P + "sp", P + "pic", P + "graphicFrame", P + "grpSp")]
        for e in rng.sample(els, min(2, len(els))):
            pos_reqs.append({"op": "c13.slide.pos", "tree": c13b.json_from_et(e)})
            pos_meta.append(e)
    for e, o in zip(pos_meta, ctx.drive(pos_reqs)):
        real = list(px._get_shape_position(e))
        ctx.case(("pptx-pos", ET.tostring(e)), nontrivial=real != list(NOPOS))
        ctx.count("pptxslide/position/" + ("default" if real == list(NOPOS) else "found"))
        if o.get("pos") != real:
            bad("c13.slide.pos:pptxslide", f"impl={real!r} model={o.get('pos')!r}", {"fmt": "pptxslide-tree", "tree": c13b.json_from_et(e)})

    # ---- ODP: the length reader in exact arithmetic vs the real float function
    lens = [None] + LEN_ODD + LEN_NEG + [n + u for n in LEN_NUM for u in ("", "cm", "in", "mm", "pt", "pc", "px", "PT", "zz")] \
        + [gen_len(rng, neg=0.2) for _ in range(ctx.n(40, 400))]
    for v, o in zip(lens, ctx.drive([{"op": "c13.slide.lenpx", "v": v} for v in lens])):
        real = ox._parse_odf_length_to_px(v)
        got = Fraction(o["px"][0], o["px"][1]) if "px" in o else None
        ctx.case(("lenpx", v), nontrivial=bool(real))
        ctx.count("odpslide/length/" + ("zero" if not real else "value"))
        if got is None or got != len_px(v, signed)[0]:
            bad("c13.slide.lenpx:truth", f"{v!r}: Lean {got} != python exact {len_px(v, signed)[0]}", {"fmt": "odpslide-len", "v": v})
        if got is None or abs(float(got) - real) > 1e-9 * max(1.0, abs(real)):
            bad("c13.slide.lenpx:odpslide", f"{v!r}: impl={real!r} model={got}", {"fmt": "odpslide-len", "v": v})

    # ---- ODP structured stream: Lean-written pages
    # (offsets with a minus sign only if the library reads the sign: otherwise they are the open finding, replayed as a witness)
    pages = [p for p, _ in CORPUS_ODP] + [gen_page(rng, negatives=signed) for _ in range(ctx.n(70, 1200))]
    outs = ctx.drive([{"op": "c13.slide.render", "fmt": "odp", "items": p} for p in pages])
    for i, (items, o) in enumerate(zip(pages, outs)):
        case = {"fmt": "odpslide", "items": items}
        if "drv_error" in o:
            bad("driver:c13.slide.render:odpslide", o["drv_error"], case)
            continue
        fr = [it for it in items if it[0] == "frame"]
        ctx.case(("odpslide", json.dumps(items)))
        ctx.count("odpslide/lean-rendered/" + ("ties" if len({json.dumps(f[1:3]) for f in fr}) < len(fr) else "distinct-positions"))
        truth = odp_truth(items)
        if not o["ok"]:
            bad("hyp:odpslide", "the rendered page does not satisfy the hypotheses of C13_slide_odp", case)
        if o["spec"] != truth:
            bad("spec:odpslide", f"Lean spec {o['spec']!r} != python ground truth {truth!r}", case)
        if o["spec"] != o["model"]:
            bad("theorem-instance:odpslide", f"model {o['model']!r} != right-hand side of C13_slide_odp {o['spec']!r}", case)
        if i < len(CORPUS_ODP) and o["spec"] != CORPUS_ODP[i][1]:
            bad("corpus:odpslide", f"Lean spec {o['spec']!r} != the value stated in Props/C13_Slide.lean {CORPUS_ODP[i][1]!r}", case)
        page = c13b.et_from_json(o["tree"])
        real = c13._read("odp", odp_package(page))
        if c13._grids(real) != o["spec"]:
            bad("render-read:odpslide", f"impl={c13._grids(real)!r} theorem={o['spec']!r}", case)
        if not c13._dim_ok(real):
            bad("dim:odpslide", f"get_dim() disagrees: {real!r}", case)
        direct = real_odp_slide(_reparse(c13b.et_from_json(o["tree"])))
        if direct != o["model"]:
            bad("c13.slide.odp:odpslide:lean-rendered", f"impl={direct!r} model={o['model']!r}", case)
        if i % 3 == 0:
            ctx.sample({"fmt": "odpslide", "items": items, "impl": c13._grids(real), "theorem": o["spec"]}, cap=8)

    # ---- ODP malformed stream: python-written pages, mutated
    odp_vocab = [DRAW + x for x in ("frame", "frame", "frame", "g", "text-box", "image", "page", "custom-shape")] \
        + [TABLE + x for x in ("table", "table", "table-row", "table-cell", "table-header-rows")] + [TEXT + "p", PRES + "notes"]
    reqs, meta = [], []
    for i in range(ctx.n(160, 3000)):
        base = c13b.json_from_et(py_odp_page(gen_page(rng, negatives=True)))
        tree = base if i % 3 == 0 else c13.mutate_tree(rng, base, odp_vocab)
        tree[0] = DRAW + "page"
        for n, _par in c13._nodes(tree):       # svg:x / svg:y of some frames rewritten
            if n[0] == DRAW + "frame" and rng.random() < 0.3:
                n[1] = [kv for kv in n[1] if kv[0] not in (SVG + "x", SVG + "y")] \
                    + [[SVG + k, v] for k in ("x", "y") for v in [gen_len(rng, odd=0.3, neg=0.15)] if v is not None]
        fr = [n for n in tree[3] if n[0] == DRAW + "frame"]
        ys = [dict(map(tuple, n[1])).get(SVG + "y") for n in fr]
        xs = [dict(map(tuple, n[1])).get(SVG + "x") for n in fr]
        if not (odp_float_safe(ys) and odp_float_safe(xs)):
            ctx.count("odpslide/skipped-float-unsafe")
            continue
        reqs.append({"op": "c13.slide.odp", "tree": tree})
        meta.append((tree, "python-written" if i % 3 == 0 else "mutated"))
    for (tree, kind), o in zip(meta, ctx.drive(reqs)):
        case = {"fmt": "odpslide-tree", "tree": tree}
        if "drv_error" in o:
            bad("driver:c13.slide.odp", o["drv_error"], case)
            continue
        real = real_odp_slide(c13b.et_from_json(tree))
        ctx.case(("odpslide-tree", json.dumps(tree)), nontrivial=bool(real))
        ctx.count(f"odpslide/{kind}/" + ("tables" if real else "none"))
        if real != o["tables"]:
            bad(f"c13.slide.odp:odpslide:{kind}", f"impl={real!r} model={o['tables']!r}", case)
    return broken
