"""C04 reference writers: minimal DOCX / PPTX / XLSX / ODT / ODP / ODS / ODG / EPUB / HTML documents in which

  * a picture FILE (one media part) is placed several times — in one unit and in different units, through a second
    relationship / a differently written reference (`./Pictures/x.png`) / a second member with the same bytes
    (`via: alias`) — next to pictures placed once, so that several image objects of one result may end up holding the same bytes / the same
    stream object;
  * EVERY optional text-bearing element / attribute a text accessor of an image, a unit or the metadata object is
    fed from is varied independently over the four states a file can have it in:
        absent | present but empty (`<svg:desc/>`, `descr=""`) | white space only | text.

A document is a *spec* (plain JSON, stored in the replay file):

  {"fmt": "odt", "parts": 2,                       # number of distinct picture files
   "units": [{"text": V, "title": V, "pics": [{"part": 0, "name": V, "title": V, "desc": V, "boxed": false, "w": L, "h": L}, ...]}, ...],
   "meta": {"title": V, "creator": V, "subject": V, "keywords": V, "description": V}}

and optionally "xml": {"enc", "decl", "lead"} = the byte form every XML part of the package is written in (encoding stated in
the XML declaration / BOM, quotes of the declaration, white space / comment before the root element; see `serialise_xml`);
with V = null (absent) | "" (present, empty) | " " | "some text"; L (optional) = the size of the placement as the file
spells it (ODF svg:width / svg:height, HTML / EPUB img width / height): null = attribute absent, otherwise ANY string of
the lexical space of c04_values (units the library converts or not, hundreds of digits, other scripts' digits, junk).
`build(spec)` -> (file name, bytes).
"""
from __future__ import annotations

import io
import struct
import zipfile
import zlib

STATES = [None, "", " ", "Täxt <&> 日本"]
FORMATS = ["docx", "pptx", "xlsx", "odt", "odp", "ods", "odg", "epub", "html"]
META_FIELDS = ["title", "creator", "subject", "keywords", "description"]


def _x(s):
    return s.replace("&", "&amp;").replace("<", "&lt;").replace(">", "&gt;").replace('"', "&quot;")


def _el(tag, v, attrs=""):
    """an optional element: absent / <tag/> / <tag>text</tag>"""
    if v is None:
        return ""
    a = (" " + attrs) if attrs else ""
    return f"<{tag}{a}/>" if v == "" else f"<{tag}{a}>{_x(v)}</{tag}>"


def _at(name, v):
    """an optional attribute: absent / name="" / name="text" (tab / newline as character references, so that they reach the parser's value)"""
    return "" if v is None else f' {name}="{_x(v)}"'.replace("\t", "&#9;").replace("\n", "&#10;").replace("\r", "&#13;")


def picture(k: int) -> bytes:
    """the k-th picture file: a small valid PNG, different bytes (and length) per k"""
    def chunk(tag, payload):
        body = tag + payload
        return struct.pack(">I", len(payload)) + body + struct.pack(">I", zlib.crc32(body) & 0xFFFFFFFF)
    w, h = 2 + k, 2
    raw = b"".join(b"\x00" + bytes([(16 * k + 7 * i) % 256, 0x80, 0xF0]) * w for i in range(h))
    return b"\x89PNG\r\n\x1a\n" + chunk(b"IHDR", struct.pack(">IIBBBBB", w, h, 8, 2, 0, 0, 0)) + chunk(b"IDAT", zlib.compress(raw)) \
        + chunk(b"tEXt", b"k\x00" + b"p" * (3 * k)) + chunk(b"IEND", b"")


def _img(p):
    """member base name of the picture a placement refers to: `via: alias` = a second member with the SAME bytes"""
    return f"image{p['part']}" + ("b" if p.get("via") == "alias" else "")


def _media(spec, prefix):
    out = [(f"{prefix}image{i}.png", picture(i)) for i in range(spec["parts"])]
    al = sorted({p["part"] for u in spec["units"] for p in u["pics"] if p.get("via") == "alias"})
    return out + [(f"{prefix}image{i}b.png", picture(i)) for i in al]


# ----------------------------------------------------------------------------- how the XML parts are SERIALISED
# One XML document (infoset) has many byte forms; XML 1.0 §4.3.3 lets the document state its encoding in the XML
# declaration / a byte-order mark, and a conforming reader must honour it.  spec["xml"] = {"enc": E, "decl": D, "lead": W}
# re-serialises EVERY XML part of the package (the text stays the same; only the bytes differ):
#   E: utf-8 | utf-8-sig (BOM) | utf-16 (BOM, as Python writes it) | utf-16-be (BOM) | iso-8859-1 | windows-1252 | iso-8859-15 |
#      us-ascii          — characters the encoding cannot express become character references (&#N;), which is legal XML;
#   D: "double" | "single" (quotes of the declaration) | "standalone" | "none" (no declaration: utf-8 / utf-16 with BOM only);
#   W: white space / comment / processing instruction between declaration and root element ("" | "\n" | "<!-- c -->\n" | ...).
XML_ENCODINGS = ["utf-8", "utf-8-sig", "utf-16", "utf-16-be", "iso-8859-1", "windows-1252", "iso-8859-15", "us-ascii"]
XML_DECLS = ["double", "single", "standalone", "none"]
XML_LEADS = ["", "\n", "\r\n  ", "<!-- generated -->\n", "<?app hint?>"]
_SER = None       # the serialisation of the document being built (set by build())


def serialise_xml(text, ser):
    """the bytes of one XML part under serialisation `ser` (None: as written, UTF-8)"""
    if not ser:
        return text.encode("utf-8")
    import re
    enc, decl, lead = ser.get("enc", "utf-8"), ser.get("decl", "double"), ser.get("lead", "")
    body = re.sub(r"^\s*<\?xml[^>]*\?>", "", text, count=1)
    label = {"utf-8-sig": "UTF-8", "utf-16": "UTF-16", "utf-16-be": "UTF-16", "utf-8": "UTF-8"}.get(enc, enc.upper() if enc.startswith("iso") else enc)
    if decl == "none" and enc not in ("utf-8", "utf-8-sig", "utf-16", "utf-16-be"):
        decl = "double"          # without a declaration only UTF-8 / UTF-16 can be recognised
    head = {"double": f'<?xml version="1.0" encoding="{label}"?>', "single": f"<?xml version='1.0' encoding='{label}'?>",
            "standalone": f'<?xml version="1.0" encoding="{label}" standalone="yes"?>', "none": ""}[decl]
    doc = head + lead + body
    if enc == "utf-16-be":
        return b"\xfe\xff" + doc.encode("utf-16-be")
    return doc.encode(enc, "xmlcharrefreplace")


def _zip(members, stored_first=None):
    b = io.BytesIO()
    with zipfile.ZipFile(b, "w", zipfile.ZIP_DEFLATED) as z:
        if stored_first:
            z.writestr(zipfile.ZipInfo(stored_first[0]), stored_first[1], zipfile.ZIP_STORED)
        for n, d in members:
            z.writestr(n, serialise_xml(d, _SER) if isinstance(d, str) else d)
    return b.getvalue()


REL_NS = "http://schemas.openxmlformats.org/package/2006/relationships"
R_NS = "http://schemas.openxmlformats.org/officeDocument/2006/relationships"
A_NS = "http://schemas.openxmlformats.org/drawingml/2006/main"
IMG_T = R_NS + "/image"
CT = ('<Types xmlns="http://schemas.openxmlformats.org/package/2006/content-types"><Default Extension="rels" '
      'ContentType="application/vnd.openxmlformats-package.relationships+xml"/><Default Extension="xml" ContentType="application/xml"/>'
      '<Default Extension="png" ContentType="image/png"/>%s</Types>')


def _rels(rels):
    return (f'<?xml version="1.0" encoding="UTF-8"?><Relationships xmlns="{REL_NS}">'
            + "".join(f'<Relationship Id="{i}" Type="{t}" Target="{tg}"/>' for i, t, tg in rels) + "</Relationships>")


def _core(meta):
    m = meta or {}
    return ('<?xml version="1.0" encoding="UTF-8" standalone="yes"?><cp:coreProperties '
            'xmlns:cp="http://schemas.openxmlformats.org/package/2006/metadata/core-properties" xmlns:dc="http://purl.org/dc/elements/1.1/" '
            'xmlns:dcterms="http://purl.org/dc/terms/" xmlns:xsi="http://www.w3.org/2001/XMLSchema-instance">'
            + _el("dc:title", m.get("title")) + _el("dc:subject", m.get("subject")) + _el("dc:creator", m.get("creator"))
            + _el("cp:keywords", m.get("keywords")) + _el("dc:description", m.get("description"))
            + _el("cp:lastModifiedBy", m.get("creator")) + _el("cp:category", m.get("subject")) + _el("cp:revision", m.get("revision"))
            + "</cp:coreProperties>")


def _root_rels(main):
    return _rels([("rId1", R_NS + "/officeDocument", main),
                  ("rId2", "http://schemas.openxmlformats.org/package/2006/relationships/metadata/core-properties", "docProps/core.xml")])


def _cnvpr(prefix, k, p):
    return f'<{prefix}:cNvPr id="{k + 2}"' + _at("name", p.get("name")) + _at("descr", p.get("desc")) + _at("title", p.get("title")) + "/>"


# ----------------------------------------------------------------------------- OOXML
def build_docx(spec):
    W = "http://schemas.openxmlformats.org/wordprocessingml/2006/main"
    WP = "http://schemas.openxmlformats.org/drawingml/2006/wordprocessingDrawing"
    PIC = "http://schemas.openxmlformats.org/drawingml/2006/picture"
    paras, k = [], 0
    # one relationship per picture file, and (every second placement) a SECOND relationship to the same file
    rels = [("rId1", R_NS + "/styles", "styles.xml")]
    for i in range(spec["parts"]):
        rels.append((f"rImg{i}", IMG_T, f"media/image{i}.png"))
        rels.append((f"rAlt{i}", IMG_T, f"media/image{i}.png"))
        rels.append((f"rImg{i}b", IMG_T, f"media/image{i}b.png"))
    for u in spec["units"]:
        runs = ["<w:pPr><w:pStyle w:val=\"Heading1\"/></w:pPr>" if u.get("title") is not None else ""]
        if u.get("title") is not None:
            runs.append("<w:r>" + _el("w:t", u["title"]) + "</w:r>")
            paras.append("<w:p>" + "".join(runs) + "</w:p>")
            runs = []
        runs.append("<w:r>" + _el("w:t", u.get("text")) + "</w:r>")
        for p in u["pics"]:
            k += 1
            rid = f"rImg{p['part']}b" if p.get("via") == "alias" else (f"rAlt{p['part']}" if k % 2 == 0 else f"rImg{p['part']}")
            docpr = f'<wp:docPr id="{k}"' + _at("name", p.get("name")) + _at("descr", p.get("desc")) + _at("title", p.get("title")) + "/>"
            runs.append(f'<w:r><w:drawing><wp:inline><wp:extent cx="100" cy="100"/>{docpr}<a:graphic><a:graphicData uri="{PIC}">'
                        f'<pic:pic><pic:nvPicPr>{_cnvpr("pic", k, p)}<pic:cNvPicPr/></pic:nvPicPr><pic:blipFill><a:blip r:embed="{rid}"/></pic:blipFill><pic:spPr/></pic:pic>'
                        "</a:graphicData></a:graphic></wp:inline></w:drawing></w:r>")
        paras.append("<w:p>" + "".join(runs) + "</w:p>")
    ns = f'xmlns:w="{W}" xmlns:r="{R_NS}" xmlns:wp="{WP}" xmlns:a="{A_NS}" xmlns:pic="{PIC}"'
    mem = [("[Content_Types].xml", CT % '<Override PartName="/word/document.xml" ContentType="application/vnd.openxmlformats-officedocument.wordprocessingml.document.main+xml"/>'),
           ("_rels/.rels", _root_rels("word/document.xml")), ("docProps/core.xml", _core(spec.get("meta"))),
           ("word/document.xml", f"<w:document {ns}><w:body>" + "".join(paras) + "<w:sectPr/></w:body></w:document>"),
           ("word/_rels/document.xml.rels", _rels([r for r in rels if not r[0].endswith("b") or ("word/" + r[2]) in dict(_media(spec, "word/media/"))]))]
    return _zip(mem + _media(spec, "word/media/"))


def build_pptx(spec):
    P = "http://schemas.openxmlformats.org/presentationml/2006/main"
    PNS = f'xmlns:p="{P}" xmlns:a="{A_NS}" xmlns:r="{R_NS}"'
    n = len(spec["units"])
    mem = [("[Content_Types].xml", CT % ""), ("_rels/.rels", _root_rels("ppt/presentation.xml")), ("docProps/core.xml", _core(spec.get("meta"))),
           ("ppt/presentation.xml", f"<p:presentation {PNS}><p:sldIdLst>" + "".join(f'<p:sldId id="{256 + i}" r:id="rId{i + 1}"/>' for i in range(n)) + "</p:sldIdLst></p:presentation>"),
           ("ppt/_rels/presentation.xml.rels", _rels([(f"rId{i + 1}", R_NS + "/slide", f"slides/slide{i + 1}.xml") for i in range(n)]))]
    for ui, u in enumerate(spec["units"]):
        shapes, rels = [], []
        if u.get("title") is not None:
            shapes.append('<p:sp><p:nvSpPr><p:cNvPr id="90" name="Title"/><p:cNvSpPr/><p:nvPr><p:ph type="title"/></p:nvPr></p:nvSpPr><p:spPr/>'
                          "<p:txBody><a:bodyPr/><a:p><a:r>" + _el("a:t", u["title"]) + "</a:r></a:p></p:txBody></p:sp>")
        if u.get("text") is not None:
            shapes.append('<p:sp><p:nvSpPr><p:cNvPr id="91" name="Body"/><p:cNvSpPr/><p:nvPr/></p:nvSpPr><p:spPr><a:xfrm><a:off x="5" y="5"/></a:xfrm></p:spPr>'
                          "<p:txBody><a:bodyPr/><a:p><a:r>" + _el("a:t", u["text"]) + "</a:r></a:p></p:txBody></p:sp>")
        for k, p in enumerate(u["pics"]):
            rid = f"rImg{k + 1}"
            rels.append((rid, IMG_T, f"../media/{_img(p)}.png"))
            shapes.append(f'<p:pic><p:nvPicPr>{_cnvpr("p", k, p)}<p:cNvPicPr/><p:nvPr/></p:nvPicPr><p:blipFill><a:blip r:embed="{rid}"/></p:blipFill>'
                          f'<p:spPr><a:xfrm><a:off x="{1000 * (k + 1)}" y="{2000 * (k + 1)}"/><a:ext cx="100" cy="100"/></a:xfrm></p:spPr></p:pic>')
        mem.append((f"ppt/slides/slide{ui + 1}.xml", f"<p:sld {PNS}><p:cSld><p:spTree>" + "".join(shapes) + "</p:spTree></p:cSld></p:sld>"))
        mem.append((f"ppt/slides/_rels/slide{ui + 1}.xml.rels", _rels(rels)))
    return _zip(mem + _media(spec, "ppt/media/"))


def build_xlsx(spec):
    S = "http://schemas.openxmlformats.org/spreadsheetml/2006/main"
    XDR = "http://schemas.openxmlformats.org/drawingml/2006/spreadsheetDrawing"
    n = len(spec["units"])
    ov = '<Override PartName="/xl/workbook.xml" ContentType="application/vnd.openxmlformats-officedocument.spreadsheetml.sheet.main+xml"/>' + "".join(
        f'<Override PartName="/xl/worksheets/sheet{i + 1}.xml" ContentType="application/vnd.openxmlformats-officedocument.spreadsheetml.worksheet+xml"/>' for i in range(n))
    mem = [("[Content_Types].xml", CT % ov), ("_rels/.rels", _root_rels("xl/workbook.xml")), ("docProps/core.xml", _core(spec.get("meta"))),
           ("xl/workbook.xml", f'<workbook xmlns="{S}" xmlns:r="{R_NS}"><sheets>' + "".join(
               f'<sheet name="S{i + 1}" sheetId="{i + 1}" r:id="rId{i + 1}"/>' for i in range(n)) + "</sheets></workbook>"),
           ("xl/_rels/workbook.xml.rels", _rels([(f"rId{i + 1}", R_NS + "/worksheet", f"worksheets/sheet{i + 1}.xml") for i in range(n)]))]
    for i, u in enumerate(spec["units"]):
        cells = ""
        if u.get("title") is not None:
            cells += '<c r="A1" t="inlineStr"><is>' + _el("t", u["title"]) + "</is></c>"
        if u.get("text") is not None:
            cells += '<c r="B1" t="str">' + _el("v", u["text"]) + "</c>"
        has = bool(u["pics"])
        mem.append((f"xl/worksheets/sheet{i + 1}.xml", f'<worksheet xmlns="{S}" xmlns:r="{R_NS}"><sheetData><row r="1">{cells}</row></sheetData>'
                    + ('<drawing r:id="rId1"/>' if has else "") + "</worksheet>"))
        if not has:
            continue
        mem.append((f"xl/worksheets/_rels/sheet{i + 1}.xml.rels", _rels([("rId1", R_NS + "/drawing", f"../drawings/drawing{i + 1}.xml")])))
        anchors, rels = [], []
        for k, p in enumerate(u["pics"]):
            rid = f"rId{k + 1}"
            rels.append((rid, IMG_T, f"../media/{_img(p)}.png"))
            pic = (f'<xdr:pic><xdr:nvPicPr>{_cnvpr("xdr", k, p)}<xdr:cNvPicPr/></xdr:nvPicPr><xdr:blipFill><a:blip r:embed="{rid}"/></xdr:blipFill><xdr:spPr/></xdr:pic><xdr:clientData/>')
            frm = f"<xdr:from><xdr:col>{k}</xdr:col><xdr:colOff>0</xdr:colOff><xdr:row>{k}</xdr:row><xdr:rowOff>0</xdr:rowOff></xdr:from>"
            anchors.append(f'<xdr:oneCellAnchor>{frm}<xdr:ext cx="952500" cy="476250"/>{pic}</xdr:oneCellAnchor>')
        mem.append((f"xl/drawings/drawing{i + 1}.xml", f'<xdr:wsDr xmlns:xdr="{XDR}" xmlns:a="{A_NS}" xmlns:r="{R_NS}">' + "".join(anchors) + "</xdr:wsDr>"))
        mem.append((f"xl/drawings/_rels/drawing{i + 1}.xml.rels", _rels(rels)))
    return _zip(mem + _media(spec, "xl/media/"))


# ----------------------------------------------------------------------------- ODF
ODF_NS = ('xmlns:office="urn:oasis:names:tc:opendocument:xmlns:office:1.0" xmlns:text="urn:oasis:names:tc:opendocument:xmlns:text:1.0" '
          'xmlns:table="urn:oasis:names:tc:opendocument:xmlns:table:1.0" xmlns:draw="urn:oasis:names:tc:opendocument:xmlns:drawing:1.0" '
          'xmlns:xlink="http://www.w3.org/1999/xlink" xmlns:svg="urn:oasis:names:tc:opendocument:xmlns:svg-compatible:1.0" '
          'xmlns:presentation="urn:oasis:names:tc:opendocument:xmlns:presentation:1.0" xmlns:dc="http://purl.org/dc/elements/1.1/" '
          'xmlns:meta="urn:oasis:names:tc:opendocument:xmlns:meta:1.0"')
ODF_MIME = {"odt": "application/vnd.oasis.opendocument.text", "odp": "application/vnd.oasis.opendocument.presentation",
            "ods": "application/vnd.oasis.opendocument.spreadsheet", "odg": "application/vnd.oasis.opendocument.graphics"}


def _odf_frame(p, k, fmt):
    inner = (f'<draw:frame{_at("draw:name", p.get("name"))} svg:x="1cm" svg:y="{k + 1}cm"{_at("svg:width", p.get("w", "2cm"))}{_at("svg:height", p.get("h", "1cm"))}>'
             f'<draw:image xlink:href="{"./" if p.get("via") == "dot" else ""}Pictures/{_img(p)}.png" xlink:type="simple"/>'
             + _el("svg:title", p.get("title")) + _el("svg:desc", p.get("desc")) + "</draw:frame>")
    if p.get("boxed") and fmt == "odt":
        # Writer's "picture with caption": a frame holding a text box whose paragraph holds the picture frame and the caption text
        return (f'<draw:frame draw:name="Frame{k}" svg:width="3cm"><draw:text-box><text:p>{inner}' + _x(p.get("caption") or "")
                + "</text:p></draw:text-box></draw:frame>")
    return inner


def build_odf(spec):
    fmt = spec["fmt"]
    parts, k = [], 0
    for ui, u in enumerate(spec["units"]):
        frames = []
        for p in u["pics"]:
            k += 1
            frames.append(_odf_frame(p, k, fmt))
        note = ""
        if u.get("annot") is not None:
            note = "<office:annotation>" + _el("dc:creator", u["annot"]) + _el("dc:date", u["annot"] and "2020-01-01") + "<text:p>note</text:p></office:annotation>"
        if fmt == "odt":
            if u.get("title") is not None:
                parts.append(_el("text:h", u["title"], 'text:outline-level="1"'))
            parts.append("<text:p>" + _x(u.get("text") or "") + note + "".join(frames) + "</text:p>")
        elif fmt in ("odp", "odg"):
            title = ""
            if u.get("title") is not None:
                title = ('<draw:frame presentation:class="title" svg:x="0cm" svg:y="0cm" svg:width="5cm" svg:height="1cm"><draw:text-box>'
                         + _el("text:p", u["title"]) + "</draw:text-box></draw:frame>")
            body = ""
            if u.get("text") is not None:
                body = '<draw:frame svg:x="0cm" svg:y="2cm" svg:width="5cm" svg:height="1cm"><draw:text-box>' + _el("text:p", u["text"]) + "</draw:text-box></draw:frame>"
            parts.append(f'<draw:page{_at("draw:name", u.get("name", "page%d" % (ui + 1)))}>' + title + body + "".join(frames) + "</draw:page>")
        else:
            cell = ""
            if u.get("text") is not None:
                cell = '<table:table-row><table:table-cell office:value-type="string">' + _el("text:p", u["text"]) + note + "</table:table-cell></table:table-row>"
            parts.append(f'<table:table{_at("table:name", u.get("name", "S%d" % (ui + 1)))}><table:shapes>' + "".join(frames) + "</table:shapes><table:table-column/>" + cell + "</table:table>")
    body = {"odt": "text", "odp": "presentation", "ods": "spreadsheet", "odg": "drawing"}[fmt]
    content = (f'<?xml version="1.0" encoding="UTF-8"?><office:document-content {ODF_NS} office:version="1.2"><office:body><office:{body}>'
               + "".join(parts) + f"</office:{body}></office:body></office:document-content>")
    m = spec.get("meta") or {}
    meta = (f'<?xml version="1.0" encoding="UTF-8"?><office:document-meta {ODF_NS} office:version="1.2"><office:meta>'
            + _el("dc:title", m.get("title")) + _el("dc:description", m.get("description")) + _el("dc:subject", m.get("subject"))
            + _el("dc:creator", m.get("creator")) + _el("meta:keyword", m.get("keywords")) + _el("meta:initial-creator", m.get("creator"))
            + _el("dc:language", m.get("subject")) + _el("meta:generator", m.get("title")) + _el("meta:editing-cycles", m.get("revision"))
            + "</office:meta></office:document-meta>")
    manifest = ('<?xml version="1.0" encoding="UTF-8"?><manifest:manifest xmlns:manifest="urn:oasis:names:tc:opendocument:xmlns:manifest:1.0" manifest:version="1.2">'
                f'<manifest:file-entry manifest:full-path="/" manifest:media-type="{ODF_MIME[fmt]}"/><manifest:file-entry manifest:full-path="content.xml" manifest:media-type="text/xml"/>'
                '<manifest:file-entry manifest:full-path="meta.xml" manifest:media-type="text/xml"/>'
                + "".join(f'<manifest:file-entry manifest:full-path="{n}" manifest:media-type="image/png"/>' for n, _ in _media(spec, "Pictures/")) + "</manifest:manifest>")
    mem = [("content.xml", content), ("meta.xml", meta), ("META-INF/manifest.xml", manifest)] + _media(spec, "Pictures/")
    return _zip(mem, stored_first=("mimetype", ODF_MIME[fmt]))


# ----------------------------------------------------------------------------- EPUB / HTML
def _html_body(u, src):
    imgs = []
    for p in u["pics"]:
        img = f'<img src="{src(p)}"' + _at("alt", p.get("desc")) + _at("title", p.get("title")) + _at("width", p.get("w")) + _at("height", p.get("h")) + "/>"
        if p.get("boxed"):
            img = "<figure>" + img + _el("figcaption", p.get("caption")) + "</figure>"
        imgs.append(img)
    return _el("h1", u.get("title")) + _el("p", u.get("text")) + "".join(imgs)


def build_epub(spec):
    m = spec.get("meta") or {}
    mem, items, spine = [], [], []
    for n, _ in _media(spec, "images/"):
        items.append(("i" + n[7:-4], n, "image/png"))
    for ui, u in enumerate(spec["units"]):
        items.append((f"ch{ui + 1}", f"c{ui + 1}.xhtml", "application/xhtml+xml"))
        spine.append(f"ch{ui + 1}")
        mem.append((f"OEBPS/c{ui + 1}.xhtml", '<html xmlns="http://www.w3.org/1999/xhtml"><head>' + _el("title", u.get("name", "c")) + "</head><body>"
                    + _html_body(u, lambda p: f"images/{_img(p)}.png") + "</body></html>"))
    opf = ('<?xml version="1.0"?><package xmlns="http://www.idpf.org/2007/opf" version="3.0" unique-identifier="id"><metadata xmlns:dc="http://purl.org/dc/elements/1.1/">'
           + _el("dc:title", m.get("title")) + _el("dc:creator", m.get("creator")) + _el("dc:subject", m.get("subject")) + _el("dc:description", m.get("description"))
           + _el("dc:publisher", m.get("keywords")) + _el("dc:language", m.get("subject")) + _el("dc:identifier", m.get("title"), 'id="id"') + _el("dc:date", m.get("revision"))
           + "</metadata><manifest>" + "".join(f'<item id="{i}" href="{h}" media-type="{t}"/>' for i, h, t in items) + "</manifest><spine>"
           + "".join(f'<itemref idref="{i}"/>' for i in spine) + "</spine></package>")
    head = [("META-INF/container.xml", '<?xml version="1.0"?><container version="1.0" xmlns="urn:oasis:names:tc:opendocument:xmlns:container">'
             '<rootfiles><rootfile full-path="OEBPS/content.opf" media-type="application/oebps-package+xml"/></rootfiles></container>'),
            ("OEBPS/content.opf", opf)]
    return _zip(head + mem + _media(spec, "OEBPS/images/"), stored_first=("mimetype", "application/epub+zip"))


def build_html(spec):
    import base64
    m = spec.get("meta") or {}
    head = _el("title", m.get("title"))
    for f, nm in (("creator", "author"), ("description", "description"), ("keywords", "keywords"), ("subject", "subject")):
        if m.get(f) is not None or f in m:
            head += f'<meta name="{nm}"' + _at("content", m.get(f)) + ">"
    body = "".join("<section>" + _html_body(u, lambda p: "data:image/png;base64," + base64.b64encode(picture(p["part"])).decode()) + "</section>" for u in spec["units"])
    return ("<html" + _at("lang", m.get("subject")) + "><head>" + head + "</head><body>" + body + "</body></html>").encode("utf-8")


BUILDERS = {"docx": build_docx, "pptx": build_pptx, "xlsx": build_xlsx, "odt": build_odf, "odp": build_odf, "ods": build_odf, "odg": build_odf,
            "epub": build_epub, "html": build_html}


def build(spec):
    global _SER
    _SER = spec.get("xml")
    try:
        return "gen." + spec["fmt"], BUILDERS[spec["fmt"]](spec)
    finally:
        _SER = None


ZIP_FORMATS = ["docx", "pptx", "xlsx", "odt", "odp", "ods", "odg", "epub"]
SER_META = {"title": "Café Übersicht", "creator": "José Muñoz", "subject": "Prüfbericht § 7", "keywords": "naïve, façade, år — 日本 😀",
            "description": "Résumé des données ¤ € ½"}


def serialisation_specs(fmt, rng=None):
    """one document per way of writing the XML parts down: every encoding (declaration form and what stands between
    declaration and root element rotate; with `rng` drawn), all five document properties with characters outside ASCII —
    some expressible in the single-byte encodings (so they are stored as BYTES of that encoding), some not (stored as
    character references)"""
    out = []
    for i, enc in enumerate(XML_ENCODINGS):
        decl = rng.choice(XML_DECLS) if rng else XML_DECLS[i % len(XML_DECLS)]
        lead = rng.choice(XML_LEADS) if rng else XML_LEADS[i % len(XML_LEADS)]
        out.append({"fmt": fmt, "parts": 1, "meta": dict(SER_META), "xml": {"enc": enc, "decl": decl, "lead": lead},
                    "units": [{"text": "Überschrift ÿ", "title": "Títle é", "pics": [_pic(0, "näme", "títle", "dèsc")]},
                              {"text": "zwei", "title": None, "pics": [_pic(0)]}]})
    return out


# ----------------------------------------------------------------------------- spec generators
def _pic(part, name=None, title=None, desc=None, **kw):
    d = {"part": part, "name": name, "title": title, "desc": desc}
    d.update(kw)
    return d


def fixed_specs(fmt):
    """the systematic part, per format:
    (1) the same picture file placed twice in one unit, again in a second unit, next to a picture placed once;
    (2) for each optional text item of a picture frame, of a unit and of the metadata: each of the four states while
        the others are absent / empty / text (one-at-a-time over three backgrounds)"""
    out = []
    T = STATES[3]
    out.append({"fmt": fmt, "parts": 2, "meta": {"title": "Doc"}, "units": [
        {"text": "first", "title": "One", "pics": [_pic(0, "logo", None, "the logo"), _pic(1, "other"), _pic(0, "logo again")]},
        {"text": "second", "title": "Two", "pics": [_pic(0, "logo on unit 2")]},
        {"text": "third", "title": None, "pics": [_pic(1), _pic(0, via="alias"), _pic(0, via="dot"), _pic(1, via="alias")]}]})
    out.append({"fmt": fmt, "parts": 1, "meta": {}, "units": [{"text": "t", "title": None, "pics": [_pic(0, boxed=True, caption="Figure 1"), _pic(0, boxed=True, caption="")]},
                                                               {"text": None, "title": None, "pics": [_pic(0)]}]})
    for bg in (None, "", T):
        for item in ("name", "title", "desc"):
            for v in STATES:
                p = _pic(0, bg, bg, bg)
                p[item] = v
                out.append({"fmt": fmt, "parts": 1, "meta": {"title": bg}, "units": [{"text": "x", "title": bg, "pics": [p, _pic(0, boxed=True, caption=v, desc=v)]}]})
        for item in ("text", "title", "name", "annot"):
            for v in STATES:
                u = {"text": bg, "title": bg, "pics": [_pic(0)]}
                u[item] = v
                out.append({"fmt": fmt, "parts": 1, "meta": {}, "units": [u, {"text": "y", "title": "t", "pics": []}]})
        for f in META_FIELDS + ["revision"]:
            for v in STATES:
                m = {g: bg for g in META_FIELDS}
                m[f] = v
                out.append({"fmt": fmt, "parts": 1, "meta": m, "units": [{"text": "z", "title": "t", "pics": [_pic(0)]}]})
    return out


VALUE_FORMATS = ["odt", "odp", "ods", "odg", "epub", "html"]


def value_specs(fmt, forms, per_doc=10):
    """documents whose picture placements spell their size in every given lexical form (width and height alternate)"""
    forms = [f for f in forms]
    out = []
    for i in range(0, len(forms), per_doc):
        pics = []
        for k, f in enumerate(forms[i:i + per_doc]):
            pics.append(_pic(0, f"p{k}", None, None, w=f, h="1cm") if k % 2 == 0 else _pic(0, f"p{k}", None, None, w="2cm", h=f))
        pics.append(_pic(0, "unsized", None, None, w=None, h=None))
        out.append({"fmt": fmt, "parts": 1, "meta": {"title": "sizes"}, "units": [{"text": "x", "title": "T", "pics": pics[:len(pics) // 2]},
                                                                                  {"text": "y", "title": "U", "pics": pics[len(pics) // 2:]}]})
    return out


def random_spec(rng, fmt, length=None):
    parts = rng.randint(1, 3)

    def v():
        return rng.choice(STATES + [None, ""])
    units = []
    for _ in range(rng.randint(1, 4)):
        pics = [_pic(rng.randrange(parts), v(), v(), v(), boxed=rng.random() < 0.2, caption=v(), via=rng.choice([None, None, "alias", "dot"]))
                for _ in range(rng.choice((0, 1, 2, 2, 3, 5)))]
        u = {"text": v(), "title": v(), "pics": pics}
        if rng.random() < 0.3:
            u["name"] = v()
        if rng.random() < 0.3:
            u["annot"] = v()
        units.append(u)
    meta = {f: v() for f in META_FIELDS if rng.random() < 0.8}
    if rng.random() < 0.3:
        meta["revision"] = rng.choice([None, "", " ", "3", "x"])
    if length is not None and fmt in VALUE_FORMATS:   # sizes as the file spells them (drawn last: the rest of the document does not depend on it)
        for u in units:
            for p in u["pics"]:
                if rng.random() < 0.5:
                    p["w"], p["h"] = length(rng), length(rng)
    spec = {"fmt": fmt, "parts": parts, "units": units, "meta": meta}
    if fmt in ZIP_FORMATS and rng.random() < 0.35:   # the XML parts written down in another of their byte forms
        spec["xml"] = {"enc": rng.choice(XML_ENCODINGS), "decl": rng.choice(XML_DECLS), "lead": rng.choice(XML_LEADS)}
    return spec


def shape(spec):
    """short description for messages"""
    n = sum(len(u["pics"]) for u in spec["units"])
    used = [p["part"] for u in spec["units"] for p in u["pics"]]
    rep = sorted({k for k in used if used.count(k) > 1})
    empties = sorted({f"{it}={p.get(it)!r}" for u in spec["units"] for p in u["pics"] for it in ("name", "title", "desc") if p.get(it) in ("", " ")})
    ser = spec.get("xml")
    return ((f"[XML parts written as {ser.get('enc')}, declaration {ser.get('decl')}, lead {ser.get('lead')!r}] " if ser else "") + f"{spec['fmt']} with {len(spec['units'])} units, {n} picture placements of {spec['parts']} picture files"
            + (f" (file(s) {rep} placed several times)" if rep else "") + (f", empty-but-present {', '.join(empties[:4])}" if empties else ""))
